//! Decoders are run in a child process (this same binary, `__child`) under an address-space limit, so
//! that an abort (allocation failure) is observed instead of killing the harness. The child is
//! persistent: one request per line `<op> <hx>`, one answer per line `V <text>` | `P <panic message>`.
use crate::util::*;
use std::alloc::{GlobalAlloc, Layout, System};
use std::io::{BufRead, BufReader, Write};
use std::sync::atomic::{AtomicUsize, Ordering as AO};

/// Global allocator that remembers the largest single request since the last reset: the child reports it with every
/// answer, so that "asks for memory unrelated to the size of its input" is an observation, not only when it is large
/// enough to hit the address-space limit.
pub struct Counting;
static MAX_REQ: AtomicUsize = AtomicUsize::new(0);
unsafe impl GlobalAlloc for Counting {
    unsafe fn alloc(&self, l: Layout) -> *mut u8 { MAX_REQ.fetch_max(l.size(), AO::Relaxed); System.alloc(l) }
    unsafe fn dealloc(&self, p: *mut u8, l: Layout) { System.dealloc(p, l) }
    unsafe fn alloc_zeroed(&self, l: Layout) -> *mut u8 { MAX_REQ.fetch_max(l.size(), AO::Relaxed); System.alloc_zeroed(l) }
    unsafe fn realloc(&self, p: *mut u8, l: Layout, n: usize) -> *mut u8 { MAX_REQ.fetch_max(n, AO::Relaxed); System.realloc(p, l, n) }
}
/// the largest single allocation request the child made while serving the last guarded operation
pub static LAST_MAX_ALLOC: AtomicUsize = AtomicUsize::new(0);

/// C06: was the last guarded operation's largest allocation request out of proportion to its input? Selium's own
/// decoders (`own`) produce values no larger than their input (serde caps speculative pre-allocation at 1 MiB); a
/// decompressor's output is bounded by the harness's payloads and its working memory by the library's window sizes.
pub fn alloc_excess(op: &str, input_len: usize, own: bool) -> Option<String> {
    let biggest = LAST_MAX_ALLOC.load(AO::SeqCst);
    crate::util::note_alloc(op, input_len, biggest);
    let allowance = 64 * input_len + if own { 4 << 20 } else { 256 << 20 };
    if biggest > allowance { Some(format!("C06: {op} asked for {biggest} bytes in one allocation for an input of {input_len} bytes")) } else { None }
}
use std::process::{Child, ChildStdin, Command, Stdio};
use std::sync::Mutex;

pub enum Outcome {
    Value(String),
    Panic(String),
    Abort(String),
    /// no answer within the time limit: the operation never returned (the child was killed)
    Hang,
}

struct Kid {
    child: Child,
    stdin: ChildStdin,
    lines: std::sync::mpsc::Receiver<String>,
}

static KID: Mutex<Option<Kid>> = Mutex::new(None);
/// a second child whose process has no logger installed (every `log` / `tracing` call site disabled): what the code under test
/// does must not depend on whether anybody listens to what it logs
static KID_QUIET: Mutex<Option<Kid>> = Mutex::new(None);

fn spawn() -> Kid { spawn_with(false) }

fn spawn_with(quiet: bool) -> Kid {
    let exe = std::env::current_exe().unwrap();
    let mut cmd = Command::new(exe);
    if quiet { cmd.env("VERIF_LOG", "off"); } else { cmd.env_remove("VERIF_LOG"); }
    let mut child = cmd
        .arg("__child")
        .stdin(Stdio::piped())
        .stdout(Stdio::piped())
        .stderr(Stdio::null())
        .spawn()
        .expect("spawn child");
    let stdin = child.stdin.take().unwrap();
    let mut stdout = BufReader::new(child.stdout.take().unwrap());
    let (tx, rx) = std::sync::mpsc::channel();
    std::thread::spawn(move || loop {
        let mut line = String::new();
        match stdout.read_line(&mut line) {
            Ok(n) if n > 0 => { if tx.send(line).is_err() { break; } }
            _ => break,
        }
    });
    Kid { child, stdin, lines: rx }
}

static HANGS: std::sync::atomic::AtomicUsize = std::sync::atomic::AtomicUsize::new(0);

/// number of operations that did not return so far in this run
pub fn hangs() -> usize { HANGS.load(std::sync::atomic::Ordering::SeqCst) }

/// after this many hangs a suite stops feeding the child (each hang costs a time-out)
pub const MAX_HANGS: usize = 12;

pub fn guarded(op: &str, input: &[u8]) -> Outcome {
    // generous for the first few (a 1 MiB brotli level 11 round trip takes seconds), short once hanging is established
    let secs = if hangs() < 3 { 60 } else { 5 };
    guarded_timeout(op, input, std::time::Duration::from_secs(secs))
}

pub fn guarded_timeout(op: &str, input: &[u8], limit: std::time::Duration) -> Outcome { guarded_in(false, op, input, limit) }

/// the same operation in the child that runs without a logger
pub fn guarded_timeout_quiet(op: &str, input: &[u8], limit: std::time::Duration) -> Outcome { guarded_in(true, op, input, limit) }

fn guarded_in(quiet: bool, op: &str, input: &[u8], limit: std::time::Duration) -> Outcome {
    let mut g = if quiet { KID_QUIET.lock().unwrap() } else { KID.lock().unwrap() };
    if g.is_none() {
        *g = Some(spawn_with(quiet));
    }
    let kid = g.as_mut().unwrap();
    let req = format!("{} {}\n", op, hx(input));
    let sent = kid.stdin.write_all(req.as_bytes()).is_ok() && kid.stdin.flush().is_ok();
    let line = if sent { kid.lines.recv_timeout(limit) } else { Err(std::sync::mpsc::RecvTimeoutError::Disconnected) };
    let line = match line {
        Ok(l) => l,
        Err(std::sync::mpsc::RecvTimeoutError::Timeout) => {
            let _ = kid.child.kill();
            let _ = kid.child.wait();
            *g = None;
            HANGS.fetch_add(1, std::sync::atomic::Ordering::SeqCst);
            return Outcome::Hang;
        }
        Err(_) => {
            let status = kid.child.wait().map(|s| format!("{s}")).unwrap_or_else(|_| "unknown".into());
            *g = None;
            return Outcome::Abort(status);
        }
    };
    let line = line.trim_end_matches('\n');
    // the child appends ` @<largest allocation request>`
    let line = match line.rsplit_once(" @") {
        Some((l, n)) if n.chars().all(|c| c.is_ascii_digit()) && !n.is_empty() => { LAST_MAX_ALLOC.store(n.parse().unwrap_or(0), AO::SeqCst); l }
        _ => { LAST_MAX_ALLOC.store(0, AO::SeqCst); line }
    };
    if let Some(v) = line.strip_prefix("V ") {
        Outcome::Value(v.to_string())
    } else if let Some(p) = line.strip_prefix("P ") {
        Outcome::Panic(p.to_string())
    } else {
        Outcome::Value(line.to_string())
    }
}

/// run one operation in a child process of its own (killed afterwards): for operations that change process-wide state
pub fn fresh_child(op: &str, input: &[u8], limit: std::time::Duration) -> Outcome {
    fn reap() { let mut g = KID.lock().unwrap(); if let Some(mut k) = g.take() { let _ = k.child.kill(); let _ = k.child.wait(); } }
    reap();
    let r = guarded_timeout(op, input, limit);
    reap();
    r
}

/// the child side
pub fn child_main() {
    // 3 GiB of address space: a decoder that asks for memory unrelated to its input dies here
    unsafe {
        let lim = libc::rlimit { rlim_cur: 3 << 30, rlim_max: 3 << 30 };
        libc::setrlimit(libc::RLIMIT_AS, &lim);
        // do not outlive the harness (a spinning scenario would otherwise keep a core busy for ever)
        libc::prctl(libc::PR_SET_PDEATHSIG, libc::SIGKILL);
    }
    quiet_panics();
    let stdin = std::io::stdin();
    let mut out = std::io::stdout();
    for line in stdin.lock().lines() {
        let line = match line { Ok(l) => l, Err(_) => break };
        let (op, arg) = line.split_once(' ').unwrap_or((&line, "-"));
        let input = unhx(arg);
        MAX_REQ.store(0, AO::SeqCst);
        let res = catch(|| crate::dispatch_child(op, &input));
        let biggest = MAX_REQ.load(AO::SeqCst);
        let ans = match res {
            Ok(v) => format!("V {v} @{biggest}"),
            Err(p) => format!("P {} @{biggest}", p.replace('\n', " ")),
        };
        if writeln!(out, "{ans}").is_err() || out.flush().is_err() {
            break;
        }
    }
}
