//! Decoders are run in a child process (this same binary, `__child`) under an address-space limit, so
//! that an abort (allocation failure) is observed instead of killing the harness. The child is
//! persistent: one request per line `<op> <hx>`, one answer per line `V <text>` | `P <panic message>`.
use crate::util::*;
use std::io::{BufRead, BufReader, Write};
use std::process::{Child, ChildStdin, ChildStdout, Command, Stdio};
use std::sync::Mutex;

pub enum Outcome {
    Value(String),
    Panic(String),
    Abort(String),
}

struct Kid {
    child: Child,
    stdin: ChildStdin,
    stdout: BufReader<ChildStdout>,
}

static KID: Mutex<Option<Kid>> = Mutex::new(None);

fn spawn() -> Kid {
    let exe = std::env::current_exe().unwrap();
    let mut child = Command::new(exe)
        .arg("__child")
        .stdin(Stdio::piped())
        .stdout(Stdio::piped())
        .stderr(Stdio::null())
        .spawn()
        .expect("spawn child");
    let stdin = child.stdin.take().unwrap();
    let stdout = BufReader::new(child.stdout.take().unwrap());
    Kid { child, stdin, stdout }
}

pub fn guarded(op: &str, input: &[u8]) -> Outcome {
    let mut g = KID.lock().unwrap();
    if g.is_none() {
        *g = Some(spawn());
    }
    let kid = g.as_mut().unwrap();
    let req = format!("{} {}\n", op, hx(input));
    let mut line = String::new();
    let ok = kid.stdin.write_all(req.as_bytes()).is_ok() && kid.stdin.flush().is_ok() && kid.stdout.read_line(&mut line).map(|n| n > 0).unwrap_or(false);
    if !ok {
        let status = kid.child.wait().map(|s| format!("{s}")).unwrap_or_else(|_| "unknown".into());
        *g = None;
        return Outcome::Abort(status);
    }
    let line = line.trim_end_matches('\n');
    if let Some(v) = line.strip_prefix("V ") {
        Outcome::Value(v.to_string())
    } else if let Some(p) = line.strip_prefix("P ") {
        Outcome::Panic(p.to_string())
    } else {
        Outcome::Value(line.to_string())
    }
}

/// the child side
pub fn child_main() {
    // 3 GiB of address space: a decoder that asks for memory unrelated to its input dies here
    unsafe {
        let lim = libc::rlimit { rlim_cur: 3 << 30, rlim_max: 3 << 30 };
        libc::setrlimit(libc::RLIMIT_AS, &lim);
    }
    quiet_panics();
    let stdin = std::io::stdin();
    let mut out = std::io::stdout();
    for line in stdin.lock().lines() {
        let line = match line { Ok(l) => l, Err(_) => break };
        let (op, arg) = line.split_once(' ').unwrap_or((&line, "-"));
        let input = unhx(arg);
        let res = catch(|| crate::dispatch_child(op, &input));
        let ans = match res {
            Ok(v) => format!("V {v}"),
            Err(p) => format!("P {}", p.replace('\n', " ")),
        };
        if writeln!(out, "{ans}").is_err() || out.flush().is_err() {
            break;
        }
    }
}
