//! C05 / C06 (frame level): MessageCodec encode/decode, FramedRead reassembly, batch format.
//!
//! Case lines (one per line, tokens separated by single spaces, byte strings in the `hx` notation of
//! util.rs / Driver/Util.lean):
//!   wenc <frame>                 encode one frame            -> `ok <hx>` | `err <class>`
//!   wdec <hx>,<hx>,...           feed chunks then EOF to a real FramedRead<_, MessageCodec>
//!                                                            -> `F{<frame>} ... E{<class>} END`
//!   benc <hx>,<hx>,... | benc []  encode_message_batch       -> `<hx>`
//!   bbig <n>*<len>,...           large batches (n messages of len bytes)  -> `len=<encoded length> same`
//!   bdec <hx>                    decode_message_batch        -> `ok <hx>,<hx>` | `ok []` | `err` | `PANIC`
//! Frames: `RP ns topic ret ops` `RS ..` `RR ns topic` `RQ ns topic` `M headers msg` `B bytes` `E code msg` `OK`
use crate::util::*;
use bytes::{Bytes, BytesMut};
use futures::StreamExt;
use selium_protocol::utils::{decode_message_batch, encode_message_batch};
use selium_protocol::*;
use selium_std::errors::{ProtocolError, SeliumError};
use std::collections::{HashMap, VecDeque};
use std::pin::Pin;
use std::task::{Context, Poll};
use tokio::io::{AsyncRead, ReadBuf};
use tokio_util::codec::{Encoder, FramedRead};

pub const MAX: usize = 1024 * 1024;

// ------------------------------------------------------------------------------------------- frames

pub fn ops_text(ops: &[Operation]) -> String {
    if ops.is_empty() {
        return "-".into();
    }
    ops.iter()
        .map(|o| match o {
            Operation::Map(s) => format!("M:{}", hx(s.as_bytes())),
            Operation::Filter(s) => format!("F:{}", hx(s.as_bytes())),
        })
        .collect::<Vec<_>>()
        .join(",")
}

/// `sorted`: canonical form for decoded frames (a HashMap has no order); otherwise iteration order of
/// this very map instance, which is the order `bincode` will serialise it in.
pub fn headers_text(h: &Option<HashMap<String, String>>, sorted: bool) -> String {
    match h {
        None => "none".into(),
        Some(m) if m.is_empty() => "empty".into(),
        Some(m) => {
            let mut v: Vec<(&String, &String)> = m.iter().collect();
            if sorted {
                v.sort_by(|a, b| a.0.as_bytes().cmp(b.0.as_bytes()));
            }
            v.iter().map(|(k, v)| format!("{}:{}", hx(k.as_bytes()), hx(v.as_bytes()))).collect::<Vec<_>>().join(",")
        }
    }
}

pub fn frame_text(f: &Frame, sorted: bool) -> String {
    match f {
        Frame::RegisterPublisher(p) => format!("RP {} {} {} {}", hx(p.topic.namespace().as_bytes()), hx(p.topic.topic().as_bytes()), p.retention_policy, ops_text(&p.operations)),
        Frame::RegisterSubscriber(p) => format!("RS {} {} {} {}", hx(p.topic.namespace().as_bytes()), hx(p.topic.topic().as_bytes()), p.retention_policy, ops_text(&p.operations)),
        Frame::RegisterReplier(p) => format!("RR {} {}", hx(p.topic.namespace().as_bytes()), hx(p.topic.topic().as_bytes())),
        Frame::RegisterRequestor(p) => format!("RQ {} {}", hx(p.topic.namespace().as_bytes()), hx(p.topic.topic().as_bytes())),
        Frame::Message(p) => format!("M {} {}", headers_text(&p.headers, sorted), hx(&p.message)),
        Frame::BatchMessage(b) => format!("B {}", hx(b)),
        Frame::Error(p) => format!("E {} {}", p.code, hx(&p.message)),
        Frame::Ok => "OK".into(),
    }
}

fn s(h: &str) -> String {
    String::from_utf8(unhx(h)).expect("case line holds a non-UTF-8 string")
}

pub fn parse_ops(t: &str) -> Vec<Operation> {
    if t == "-" {
        return vec![];
    }
    t.split(',')
        .map(|o| {
            let (k, v) = o.split_once(':').unwrap();
            if k == "M" { Operation::Map(s(v)) } else { Operation::Filter(s(v)) }
        })
        .collect()
}

pub fn parse_headers(t: &str) -> Option<HashMap<String, String>> {
    match t {
        "none" => None,
        "empty" => Some(HashMap::new()),
        _ => Some(t.split(',').map(|kv| { let (k, v) = kv.split_once(':').unwrap(); (s(k), s(v)) }).collect()),
    }
}

pub fn parse_frame(t: &[&str]) -> Frame {
    let t: Vec<&str> = t.iter().copied().filter(|x| !x.is_empty()).collect();
    let t = &t[..];
    let topic = |a: &str, b: &str| TopicName::_create_unchecked(&s(a), &s(b));
    match t[0] {
        "RP" => Frame::RegisterPublisher(PublisherPayload { topic: topic(t[1], t[2]), retention_policy: t[3].parse().unwrap(), operations: parse_ops(t[4]) }),
        "RS" => Frame::RegisterSubscriber(SubscriberPayload { topic: topic(t[1], t[2]), retention_policy: t[3].parse().unwrap(), operations: parse_ops(t[4]) }),
        "RR" => Frame::RegisterReplier(ReplierPayload { topic: topic(t[1], t[2]) }),
        "RQ" => Frame::RegisterRequestor(RequestorPayload { topic: topic(t[1], t[2]) }),
        "M" => Frame::Message(MessagePayload { headers: parse_headers(t[1]), message: Bytes::from(unhx(t[2])) }),
        "B" => Frame::BatchMessage(Bytes::from(unhx(t[1]))),
        "E" => Frame::Error(ErrorPayload { code: t[1].parse().unwrap(), message: Bytes::from(unhx(t[2])) }),
        "OK" => Frame::Ok,
        other => panic!("bad frame kind {other}"),
    }
}

pub fn err_class(e: &SeliumError) -> String {
    match e {
        SeliumError::Protocol(ProtocolError::PayloadTooLarge(_, _)) => "payload-too-large".into(),
        SeliumError::Protocol(ProtocolError::UnknownMessageType(_)) => "unknown-message-type".into(),
        SeliumError::Protocol(ProtocolError::SerdeError(b)) => format!("serde:{}", bincode_class(b)),
        SeliumError::IoError(e) => format!("{}", e),
        other => format!("other:{other:?}").replace(' ', "_"),
    }
}

pub fn bincode_class(b: &bincode::Error) -> &'static str {
    match &**b {
        bincode::ErrorKind::Io(_) => "eof",
        bincode::ErrorKind::InvalidUtf8Encoding(_) => "utf8",
        bincode::ErrorKind::InvalidTagEncoding(_) => "option-tag",
        bincode::ErrorKind::Custom(m) if m.contains("variant index") => "variant-index",
        bincode::ErrorKind::SizeLimit => "size-limit",
        _ => "other",
    }
}

// -------------------------------------------------------------------------------------- operations

pub fn do_encode(f: Frame) -> Result<Result<Vec<u8>, String>, String> {
    catch(move || {
        let mut dst = BytesMut::new();
        match MessageCodec.encode(f, &mut dst) {
            Ok(()) => Ok(dst.to_vec()),
            Err(e) => Err(err_class(&e)),
        }
    })
}

pub struct ChunkReader {
    pub chunks: VecDeque<Vec<u8>>,
}

impl AsyncRead for ChunkReader {
    fn poll_read(mut self: Pin<&mut Self>, _cx: &mut Context<'_>, buf: &mut ReadBuf<'_>) -> Poll<std::io::Result<()>> {
        if let Some(mut c) = self.chunks.pop_front() {
            let n = c.len().min(buf.remaining());
            buf.put_slice(&c[..n]);
            if n < c.len() {
                let rest = c.split_off(n);
                self.chunks.push_front(rest);
            }
        }
        Poll::Ready(Ok(())) // no chunk left: 0 bytes = EOF
    }
}

#[derive(Debug, Clone, PartialEq)]
pub enum Item {
    F(Frame),
    E(String),
}

/// everything a real FramedRead yields up to its first `None`, or Err(panic message)
pub fn do_decode(chunks: Vec<Vec<u8>>) -> Result<Vec<Item>, String> {
    catch(move || {
        let reader = ChunkReader { chunks: chunks.into_iter().filter(|c| !c.is_empty()).collect() };
        let mut fr = FramedRead::new(reader, MessageCodec);
        let mut items = vec![];
        futures::executor::block_on(async {
            while let Some(x) = fr.next().await {
                match x {
                    Ok(f) => items.push(Item::F(f)),
                    Err(e) => items.push(Item::E(err_class(&e))),
                }
                if items.len() > 100_000 { break; }
            }
        });
        items
    })
}

/// the same stream with every byte already in the buffer when `MessageCodec::decode` is first called (what a reader
/// whose buffer has grown sees): decode until it asks for more or fails, as FramedRead does at the end of a stream
pub fn do_decode_direct(whole: &[u8]) -> Result<Vec<Item>, String> {
    let whole = whole.to_vec();
    catch(move || {
        let mut buf = BytesMut::from(&whole[..]);
        let mut items = vec![];
        loop {
            match tokio_util::codec::Decoder::decode(&mut MessageCodec, &mut buf) {
                Ok(Some(f)) => items.push(Item::F(f)),
                Ok(None) => { if !buf.is_empty() { items.push(Item::E("bytes remaining on stream".into())); } break; }
                Err(e) => { items.push(Item::E(err_class(&e))); break; }
            }
            if items.len() > 100_000 { break; }
        }
        items
    })
}

pub fn items_text(items: &[Item]) -> String {
    let mut out = String::new();
    for i in items {
        match i {
            Item::F(f) => { out.push_str("F{"); out.push_str(&frame_text(f, true)); out.push_str("} "); }
            Item::E(e) => { out.push_str("E{"); out.push_str(e); out.push_str("} "); }
        }
    }
    out.push_str("END");
    out
}

// ------------------------------------------------------------------------------------- generators

const WORDS: &[&str] = &["a", "abc", "topic", "name-space", "under_score", "ñandú", "日本語", "x", "", "selium", "🚀🚀", "cid", "req_id", "0", "18446744073709551615"];

fn rstring(r: &mut Rng) -> String {
    match r.below(10) {
        0..=5 => (*r.pick(WORDS)).to_string(),
        6 => { let n = r.below(70) as usize; (0..n).map(|_| (b'a' + r.below(26) as u8) as char).collect() }
        7 => { let n = r.below(6) as usize; (0..n).map(|_| char::from_u32(*r.pick(&[0x41u32, 0xe9, 0x4e2d, 0x1F600, 0x7f, 0x80, 0x7ff, 0x800, 0xffff, 0x10000, 0x10ffff])).unwrap()).collect() }
        8 => String::new(),
        _ => { let n = r.below(300) as usize; "k".repeat(n) }
    }
}

fn rbytes(r: &mut Rng) -> Vec<u8> {
    match r.below(8) {
        0 => vec![],
        1..=4 => { let n = r.below(24) as usize; r.bytes(n) }
        5 => { let n = r.below(2000) as usize; vec![r.next() as u8; n] }
        6 => { let n = r.below(600) as usize; r.bytes(n) }
        _ => rstring(r).into_bytes(),
    }
}

fn rheaders(r: &mut Rng) -> Option<HashMap<String, String>> {
    match r.below(6) {
        0 | 1 => None,
        2 => Some(HashMap::new()),
        3 => Some([(rstring(r), rstring(r))].into_iter().collect()),
        _ => { let n = r.below(5) as usize + 1; Some((0..n).map(|_| (rstring(r), rstring(r))).collect()) }
    }
}

pub fn rframe(r: &mut Rng) -> Frame {
    let topic = |r: &mut Rng| TopicName::_create_unchecked(&rstring(r), &rstring(r));
    let ops = |r: &mut Rng| -> Vec<Operation> {
        let n = if r.chance(1, 2) { 0 } else { r.below(4) };
        (0..n).map(|_| if r.chance(1, 2) { Operation::Map(rstring(r)) } else { Operation::Filter(rstring(r)) }).collect()
    };
    let ret = |r: &mut Rng| -> u64 { match r.below(4) { 0 => 0, 1 => r.below(1000), 2 => u64::MAX, _ => r.next() } };
    match r.below(11) {
        0 => Frame::RegisterPublisher(PublisherPayload { topic: topic(r), retention_policy: ret(r), operations: ops(r) }),
        1 => Frame::RegisterSubscriber(SubscriberPayload { topic: topic(r), retention_policy: ret(r), operations: ops(r) }),
        2 => Frame::RegisterReplier(ReplierPayload { topic: topic(r) }),
        3 => Frame::RegisterRequestor(RequestorPayload { topic: topic(r) }),
        4..=6 => Frame::Message(MessagePayload { headers: rheaders(r), message: rbytes(r).into() }),
        7 | 8 => Frame::BatchMessage(rbytes(r).into()),
        9 => Frame::Error(ErrorPayload { code: match r.below(3) { 0 => r.below(8) as u32, 1 => u32::MAX, _ => r.next() as u32 }, message: rbytes(r).into() }),
        _ => Frame::Ok,
    }
}

/// frames whose payload length sits at distance `delta` from the 1 MiB limit
fn limit_frames(delta: i64) -> Vec<Frame> {
    let target = (MAX as i64 + delta) as usize;
    let mut v = vec![Frame::BatchMessage(vec![0xabu8; target].into())];
    // Message{None, msg}: 1 (option tag) + 8 (len) + msg
    v.push(Frame::Message(MessagePayload { headers: None, message: vec![7u8; target - 9].into() }));
    // Message{Some{"cid":"0"}, msg}: 1 + 8 + (8+3) + (8+1) + 8 + msg
    let h: HashMap<String, String> = [("cid".to_string(), "0".to_string())].into_iter().collect();
    v.push(Frame::Message(MessagePayload { headers: Some(h), message: vec![1u8; target - 37].into() }));
    // Error{code, msg}: 4 + 8 + msg
    v.push(Frame::Error(ErrorPayload { code: 5, message: vec![0u8; target - 12].into() }));
    v
}

fn chunkings(r: &mut Rng, wire: &[u8], how: u64) -> Vec<Vec<u8>> {
    if wire.is_empty() {
        return vec![];
    }
    match how {
        0 => vec![wire.to_vec()],
        1 => wire.iter().map(|b| vec![*b]).collect(),
        2 => {
            // cut at every frame-header boundary minus/plus one: 8|1|rest patterns
            let mut v = vec![];
            let mut i = 0;
            let sizes = [8usize, 1, 3, 9, 17];
            let mut k = 0;
            while i < wire.len() { let n = sizes[k % sizes.len()].min(wire.len() - i); v.push(wire[i..i + n].to_vec()); i += n; k += 1; }
            v
        }
        4 => {
            // few large chunks (frames near the 1 MiB limit)
            let mut v = vec![];
            let mut i = 0;
            while i < wire.len() {
                let n = (r.below(400_000) as usize + 20_000).min(wire.len() - i);
                v.push(wire[i..i + n].to_vec());
                i += n;
            }
            v
        }
        _ => {
            let mut v = vec![];
            let mut i = 0;
            while i < wire.len() {
                let n = match r.below(4) { 0 => 1, 1 => r.below(16) as usize + 1, 2 => r.below(9000) as usize + 1, _ => r.below(200) as usize + 1 }.min(wire.len() - i);
                v.push(wire[i..i + n].to_vec());
                i += n;
            }
            v
        }
    }
}

fn chunks_text(chunks: &[Vec<u8>]) -> String {
    if chunks.is_empty() { "[]".into() } else { chunks.iter().map(|c| hx(c)).collect::<Vec<_>>().join(",") }
}

fn parse_chunks(t: &str) -> Vec<Vec<u8>> {
    if t == "[]" { vec![] } else { t.split(',').map(unhx).collect() }
}

fn enc_ok(f: &Frame) -> Vec<u8> {
    do_encode(f.clone()).unwrap().unwrap()
}

// ------------------------------------------------------------------------------------------ runner

fn case_wenc(out: &mut Out, f: Frame) {
    let line = format!("wenc {}", frame_text(&f, false));
    let kind = line.split(' ').nth(1).unwrap().to_string();
    out.stat(&format!("wenc_{kind}"));
    let len = f.get_length().unwrap_or(0) as usize;
    let res = do_encode(f.clone());
    // the write buffer a frame is encoded into is shared with the frames before and after it (FramedWrite keeps using
    // it after an error): a refused frame must leave it as it was, an accepted one appends exactly its encoding
    let residue = catch({
        let f = f.clone();
        move || {
            let mut dst = BytesMut::from(&b"\xaa\xbb"[..]);
            let r = MessageCodec.encode(f, &mut dst);
            let after_first = dst.to_vec();
            let r2 = MessageCodec.encode(Frame::Ok, &mut dst);
            (r.is_ok(), after_first, r2.is_ok(), dst.to_vec())
        }
    });
    let residue_check = |own: Option<&Vec<u8>>| -> Result<(), String> {
        match &residue {
            Err(p) => Err(format!("encode into a used buffer panicked: {p}")),
            Ok((ok, after, ok2, fin)) => {
                let mut want = vec![0xaa, 0xbb];
                if let Some(b) = own { want.extend_from_slice(b); }
                if *ok != own.is_some() { return Err("encode into a used buffer and into a fresh one disagree on whether the frame is accepted".into()); }
                if *after != want { return Err(format!("after encode the write buffer holds {} bytes where {} are expected: a refused frame left bytes behind / an accepted frame is not appended as it is", after.len(), want.len())); }
                want.extend_from_slice(&enc_ok(&Frame::Ok));
                if !*ok2 || *fin != want { return Err("the frame encoded next into the same buffer is not what it is on its own".into()); }
                Ok(())
            }
        }
    };
    let (imp, mon) = match &res {
        Err(p) => ("PANIC".to_string(), Err(format!("encode panicked: {p}"))),
        Ok(Err(e)) => {
            out.stat("wenc_refused");
            (format!("err {e}"), if len > MAX && e == "payload-too-large" { residue_check(None) } else { Err(format!("encoder refused a {len}-byte payload with {e}")) })
        }
        Ok(Ok(b)) => {
            // monitor: limit, length prefix, exact round trip through the real decoder with trailing bytes
            let mut m = Ok(());
            if len > MAX { m = Err(format!("encoder accepted a {len}-byte payload (> 1 MiB)")); }
            if m.is_ok() && (b.len() != 9 + len || u64::from_be_bytes(b[..8].try_into().unwrap()) as usize != len) {
                m = Err(format!("length prefix {} / total {} for payload {len}", u64::from_be_bytes(b[..8].try_into().unwrap()), b.len()));
            }
            if m.is_ok() {
                let mut src = BytesMut::from(&b[..]);
                src.extend_from_slice(b"\xde\xad\xbe");
                match catch(|| tokio_util::codec::Decoder::decode(&mut MessageCodec, &mut src)) {
                    Ok(Ok(Some(g))) => {
                        if g != f { m = Err("decode(encode(f)) != f".into()); }
                        else if &src[..] != b"\xde\xad\xbe" { m = Err("decode consumed a different number of bytes than encode wrote".into()); }
                    }
                    Ok(Ok(None)) => m = Err("decoder wants more bytes for a complete frame".into()),
                    Ok(Err(e)) => m = Err(format!("decoder rejects the encoder's output: {}", err_class(&e))),
                    Err(p) => m = Err(format!("decoder panicked on the encoder's output: {p}")),
                }
            }
            if m.is_ok() { m = residue_check(Some(b)); }
            (format!("ok {}", hx(b)), m)
        }
    };
    out.case(&line, &imp, mon);
}

/// child side of the guarded first pass of `wdec`: both ways of decoding, any abort happens here
pub fn wdec_child(input: &[u8]) -> String {
    let chunks = parse_chunks(&String::from_utf8_lossy(input));
    let whole: Vec<u8> = chunks.concat();
    let a = do_decode(chunks).map(|i| i.len()).unwrap_or(usize::MAX);
    let b = do_decode_direct(&whole).map(|i| i.len()).unwrap_or(usize::MAX);
    format!("{a} {b}")
}

fn case_wdec(out: &mut Out, chunks: Vec<Vec<u8>>, expect: Option<&[Frame]>, tag: &str) {
    out.stat(&format!("wdec_{tag}"));
    let line = format!("wdec {}", chunks_text(&chunks));
    let whole: Vec<u8> = chunks.concat();
    // streams that are not known to be well-formed go through the guarded child first (address-space limit): a
    // decoder that aborts the process on them is an observation, not the end of the harness
    if expect.is_none() {
        if crate::childrun::hangs() >= crate::childrun::MAX_HANGS { out.case(&line, "NOT-RUN-AFTER-HANGS", Ok(())); return; }
        match crate::childrun::guarded("wdecg", chunks_text(&chunks).as_bytes()) {
            crate::childrun::Outcome::Value(_) => {
                if let Some(w) = crate::childrun::alloc_excess("wdec", whole.len(), true) { out.case(&line, "ALLOC", Err(w)); return; }
            }
            crate::childrun::Outcome::Panic(_) => {}
            crate::childrun::Outcome::Abort(st) => { out.case(&line, "ABORT", Err(format!("C06: decoding this stream aborted the process ({st}): an allocation unrelated to the size of the input"))); return; }
            crate::childrun::Outcome::Hang => { out.case(&line, "HANG", Err("C06: decoding this stream never returned".into())); return; }
        }
    }
    let res = do_decode(chunks.clone());
    let (imp, mon) = match res {
        Err(p) => ("PANIC".to_string(), Err(format!("FramedRead/MessageCodec panicked: {p}"))),
        Ok(items) => {
            let mut m = Ok(());
            // chunking invariance against the whole stream presented at once
            if chunks.len() > 1 {
                match do_decode(vec![whole.clone()]) {
                    Ok(one) => if one != items { m = Err(format!("decoded sequence depends on chunking: {} items chunked vs {} whole", items.len(), one.len())); },
                    Err(p) => m = Err(format!("panicked on the whole stream: {p}")),
                }
            }
            // … and against every byte being in the decoder's buffer from the start
            if m.is_ok() {
                match do_decode_direct(&whole) {
                    Ok(direct) => if direct != items { m = Err(format!("decoded sequence depends on how much of the stream is buffered when decode() is called: {} vs {}", items_text(&direct).chars().take(80).collect::<String>(), items_text(&items).chars().take(80).collect::<String>())); },
                    Err(p) => m = Err(format!("MessageCodec::decode panicked on the whole buffer: {p}")),
                }
            }
            if let (Ok(()), Some(fs)) = (&m, expect) {
                let want: Vec<Item> = fs.iter().cloned().map(Item::F).collect();
                if items != want { m = Err(format!("concatenated encodings of {} frames decoded to {} items / different frames", fs.len(), items.len())); }
            }
            // decoder-side limit: a declared length above 1 MiB must be an error as soon as the 9-byte header is there
            if m.is_ok() && whole.len() >= 9 && u64::from_be_bytes(whole[..8].try_into().unwrap()) > MAX as u64 {
                if items.first() != Some(&Item::E("payload-too-large".into())) { m = Err("length prefix above 1 MiB was not refused".into()); }
            }
            // … and never yields a frame whose payload is larger than the limit, wherever it stands in the stream
            if m.is_ok() {
                for i in &items {
                    if let Item::F(f) = i { if f.get_length().map(|l| l as usize > MAX).unwrap_or(false) { m = Err("the decoder yielded a frame with a payload above 1 MiB".into()); } }
                }
            }
            for i in &items { out.stat(match i { Item::F(_) => "wdec_items_frame", Item::E(_) => "wdec_items_error" }); }
            (items_text(&items), m)
        }
    };
    out.case(&line, &imp, mon);
}

fn batch_text(ms: &[Vec<u8>]) -> String {
    if ms.is_empty() { "[]".into() } else { ms.iter().map(|m| hx(m)).collect::<Vec<_>>().join(",") }
}

fn case_benc(out: &mut Out, ms: Vec<Vec<u8>>) {
    out.stat("benc");
    let line = format!("benc {}", batch_text(&ms));
    let input: Vec<Bytes> = ms.iter().map(|m| Bytes::from(m.clone())).collect();
    let enc = catch(|| encode_message_batch(input.clone()));
    let (imp, mon) = match enc {
        Err(p) => ("PANIC".into(), Err(format!("encode_message_batch panicked: {p}"))),
        Ok(b) => {
            let back = catch(|| batch_decode(b.clone()));
            let m = match back {
                Ok(Some(v)) if v == ms => Ok(()),
                Ok(Some(_)) => Err("unbatch(batch(ms)) != ms".to_string()),
                Ok(None) => Err("decode_message_batch rejects encode_message_batch's output".to_string()),
                Err(p) => Err(format!("decode_message_batch panicked on a valid batch: {p}")),
            };
            (hx(&b), m)
        }
    };
    out.case(&line, &imp, mon);
}

/// `bbig <n>*<len>,<n>*<len>…`: batches too large to spell out (their encoding is larger than a frame: a batch travels
/// compressed, so what is taken apart after decompression may be any size). Implementation line: the encoded length and
/// whether unbatching returns the same messages.
fn case_bbig(out: &mut Out, spec: &str) {
    out.stat("bbig");
    let mut ms: Vec<Vec<u8>> = vec![];
    for part in spec.split(',') {
        let (n, len) = part.split_once('*').expect("n*len");
        let (n, len): (usize, usize) = (n.parse().unwrap(), len.parse().unwrap());
        for _ in 0..n { let k = ms.len(); ms.push(vec![b'a' + (k % 26) as u8; len]); }
    }
    let input: Vec<Bytes> = ms.iter().map(|m| Bytes::from(m.clone())).collect();
    let (imp, mon) = match catch(|| encode_message_batch(input.clone())) {
        Err(p) => ("PANIC".into(), Err(format!("encode_message_batch panicked: {p}"))),
        Ok(b) => {
            let m = match catch(|| batch_decode(b.clone())) {
                Ok(Some(v)) if v == ms => Ok(()),
                Ok(Some(v)) => Err(format!("unbatch(batch(ms)) != ms ({} messages back for {})", v.len(), ms.len())),
                Ok(None) => Err("decode_message_batch rejects encode_message_batch's output".to_string()),
                Err(p) => Err(format!("decode_message_batch panicked on a valid batch: {p}")),
            };
            (format!("len={} {}", b.len(), if m.is_ok() { "same" } else { "differs" }), m)
        }
    };
    out.case(&format!("bbig {spec}"), &imp, mon);
}

/// adapts to the signature of `decode_message_batch` (Vec<Bytes> before the repair, Result<Vec<Bytes>> after)
trait BatchOut { fn norm(self) -> Option<Vec<Vec<u8>>>; }
impl BatchOut for Vec<Bytes> { fn norm(self) -> Option<Vec<Vec<u8>>> { Some(self.into_iter().map(|b| b.to_vec()).collect()) } }
impl<E> BatchOut for Result<Vec<Bytes>, E> { fn norm(self) -> Option<Vec<Vec<u8>>> { self.ok().map(|v| v.into_iter().map(|b| b.to_vec()).collect()) } }

pub fn batch_decode(b: Bytes) -> Option<Vec<Vec<u8>>> {
    decode_message_batch(b).norm()
}

fn case_bdec(out: &mut Out, b: Vec<u8>, tag: &str) {
    out.stat(&format!("bdec_{tag}"));
    let line = format!("bdec {}", hx(&b));
    if crate::childrun::hangs() >= crate::childrun::MAX_HANGS { out.case(&line, "NOT-RUN-AFTER-HANGS", Ok(())); return; }
    let res = crate::childrun::guarded("bdec", &b);
    let (imp, mon) = match res {
        crate::childrun::Outcome::Value(v) => match crate::childrun::alloc_excess("bdec", b.len(), true) { Some(w) => (v, Err(w)), None => (v, Ok(())) },
        crate::childrun::Outcome::Panic(p) => ("PANIC".into(), Err(format!("decode_message_batch panicked: {p}"))),
        crate::childrun::Outcome::Abort(a) => ("ABORT".into(), Err(format!("decode_message_batch aborted the process: {a}"))),
        crate::childrun::Outcome::Hang => ("HANG".into(), Err("decode_message_batch did not return".into())),
    };
    out.case(&line, &imp, mon);
}

/// run inside the guarded child: returns the text for the implementation line
pub fn bdec_value(b: &[u8]) -> String {
    match batch_decode(Bytes::from(b.to_vec())) {
        Some(v) => format!("ok {}", batch_text(&v)),
        None => "err".into(),
    }
}

pub fn run(cfg: &Cfg) {
    let mut out = Out::new(&cfg.out, "wire");
    if let Some(lines) = cfg.replay_lines() {
        for l in lines {
            let t: Vec<&str> = l.split(' ').collect();
            match t[0] {
                "wenc" => case_wenc(&mut out, parse_frame(&t[1..])),
                "wdec" => case_wdec(&mut out, parse_chunks(t[1]), None, "replay"),
                "benc" => case_benc(&mut out, parse_chunks(t[1])),
                "bbig" => case_bbig(&mut out, t[1]),
                "bdec" => case_bdec(&mut out, unhx(t[1]), "replay"),
                _ => panic!("bad wire case {l}"),
            }
        }
        out.finish();
        return;
    }
    let mut r = Rng::new(cfg.seed, "wire");
    // --- encode: random frames of all kinds
    for _ in 0..cfg.n(1500, 60_000) {
        let f = rframe(&mut r);
        case_wenc(&mut out, f);
    }
    // --- sizes around the limit, both directions
    for delta in [-1i64, 0, 1] {
        for f in limit_frames(delta) {
            case_wenc(&mut out, f.clone());
            if delta <= 0 {
                let wire = enc_ok(&f);
                for how in [0u64, 4] {
                    let ch = chunkings(&mut r, &wire, how);
                    case_wdec(&mut out, ch, Some(&[f.clone()]), "limit");
                }
            }
        }
    }
    // hand-made oversize declarations: header only, header + some payload, huge prefix
    for (len, extra) in [(MAX as u64 + 1, 0usize), (MAX as u64 + 1, 100), (u64::MAX, 0), (1 << 40, 7), (MAX as u64, 3)] {
        for ty in [4u8, 5, 7, 9] {
            let mut w = len.to_be_bytes().to_vec();
            w.push(ty);
            w.extend(std::iter::repeat(0u8).take(extra));
            case_wdec(&mut out, vec![w.clone()], None, "oversize_prefix");
            case_wdec(&mut out, w.iter().map(|b| vec![*b]).collect(), None, "oversize_prefix");
        }
    }
    // complete oversize frames: the whole declared payload is present and would parse if the limit were not
    // enforced — alone, behind a valid frame, and cut in two (the refusal must not depend on how much has arrived)
    for len in [MAX + 1, MAX + 9, 2 * MAX] {
        for ty in [5u8, 4] {
            let mut w = (len as u64).to_be_bytes().to_vec();
            w.push(ty);
            if ty == 4 {
                // bincode MessagePayload { headers: None, message: <len-9 bytes> }
                w.push(0);
                w.extend(((len - 9) as u64).to_le_bytes());
                w.extend(std::iter::repeat(0u8).take(len - 9));
            } else {
                w.extend(std::iter::repeat(0u8).take(len));
            }
            case_wdec(&mut out, vec![w.clone()], None, "oversize_complete");
            case_wdec(&mut out, vec![w[..9 + 100].to_vec(), w[9 + 100..].to_vec()], None, "oversize_complete");
            let ok = enc_ok(&Frame::Ok);
            case_wdec(&mut out, vec![[ok.clone(), w.clone()].concat()], None, "oversize_complete");
        }
    }
    // --- decode: sequences of valid frames under several chunkings
    for _ in 0..cfg.n(500, 20_000) {
        let n = r.below(5) as usize + if r.chance(1, 10) { 0 } else { 1 };
        let fs: Vec<Frame> = (0..n).map(|_| rframe(&mut r)).collect();
        let wire: Vec<u8> = fs.iter().flat_map(|f| enc_ok(f)).collect();
        for how in [0u64, 1, 2, 3] {
            if how == 1 && wire.len() > 400 { continue; }
            let ch = chunkings(&mut r, &wire, how);
            case_wdec(&mut out, ch, Some(&fs), "valid_seq");
        }
    }
    // --- decode: large frames among small ones on one stream (whatever size a frame has, exactly its bytes are consumed:
    // what follows it in the same read is the next frame), whole, in a few large reads, and in random reads
    for _ in 0..cfg.n(12, 300) {
        let n = r.below(4) as usize + 2;
        let big_at = r.below(n as u64) as usize;
        let fs: Vec<Frame> = (0..n).map(|i| if i == big_at || r.chance(1, 5) {
            let len = *r.pick(&[40_000usize, 65_535, 65_536, 65_537, 100_000, 300_000, 1_000_000]);
            let b = r.next() as u8;
            match r.below(3) { 0 => Frame::BatchMessage(vec![b; len].into()), 1 => Frame::Error(ErrorPayload { code: 3, message: vec![b; len].into() }), _ => Frame::Message(MessagePayload { headers: rheaders(&mut r), message: vec![b; len].into() }) }
        } else { rframe(&mut r) }).collect();
        let wire: Vec<u8> = fs.iter().flat_map(|f| enc_ok(f)).collect();
        for how in [0u64, 4, 3] {
            let ch = chunkings(&mut r, &wire, how);
            case_wdec(&mut out, ch, Some(&fs), "large_among_small");
        }
    }
    // --- decode: malformed streams
    for _ in 0..cfg.n(2500, 120_000) {
        let n = r.below(3) as usize + 1;
        let fs: Vec<Frame> = (0..n).map(|_| rframe(&mut r)).collect();
        let mut wire: Vec<u8> = fs.iter().flat_map(|f| enc_ok(f)).collect();
        let tag;
        match r.below(7) {
            0 => { let k = r.below(wire.len() as u64 + 1) as usize; wire.truncate(k); tag = "truncated"; }
            1 => { for _ in 0..=r.below(3) { let k = r.below(wire.len() as u64) as usize; wire[k] ^= 1 << r.below(8); } tag = "bitflip"; }
            2 => { let k = r.below(wire.len() as u64) as usize; wire[k] = r.next() as u8; tag = "byte_replaced"; }
            3 => { // adversarial length somewhere inside the payload
                if wire.len() > 17 { let k = 9 + r.below((wire.len() - 17) as u64) as usize; let v: u64 = *r.pick(&[u64::MAX, 1 << 40, 1 << 63, 0xffff_ffff, 1 << 20]); wire[k..k + 8].copy_from_slice(&v.to_le_bytes()); }
                tag = "inner_length";
            }
            4 => { wire[8] = r.range(8, 255) as u8; tag = "unknown_type"; }
            5 => { let n = r.below(40) as usize; wire = r.bytes(n); tag = "random_bytes"; }
            _ => { // valid header, random body of the declared length, every type
                let n = r.below(60) as usize; let mut w = (n as u64).to_be_bytes().to_vec(); w.push(r.below(9) as u8); w.extend(r.bytes(n)); wire = w; tag = "random_body";
            }
        }
        let how = r.below(4);
        let ch = chunkings(&mut r, &wire, if how == 1 && wire.len() > 400 { 3 } else { how });
        case_wdec(&mut out, ch, None, tag);
    }
    // --- batches
    case_benc(&mut out, vec![]);
    case_benc(&mut out, vec![vec![]]);
    // batches around and beyond the size of a frame; many tiny and empty members
    let max = 1usize << 20;
    for spec in [format!("1*{}", max - 16), format!("1*{}", max - 15), format!("1*{}", max), format!("1*{}", max + 1), "10*204800".to_string(),
                 "40000*27".to_string(), "3*400000,5*0,2*1".to_string(), "70000*0".to_string(), "1*0,1*1500000,1*0".to_string()] {
        case_bbig(&mut out, &spec);
    }
    for _ in 0..cfg.n(400, 20_000) {
        let n = r.below(6) as usize;
        let ms: Vec<Vec<u8>> = (0..n).map(|_| rbytes(&mut r)).collect();
        case_benc(&mut out, ms);
    }
    for b in [vec![], vec![0u8; 3], vec![0u8; 7], vec![0u8; 8], 1u64.to_be_bytes().to_vec(), [1u64.to_be_bytes(), 5u64.to_be_bytes()].concat(),
              [1u64.to_be_bytes(), u64::MAX.to_be_bytes()].concat(), u64::MAX.to_be_bytes().to_vec(), (1u64 << 40).to_be_bytes().to_vec(),
              [(1u64 << 60).to_be_bytes(), 0u64.to_be_bytes()].concat()] {
        case_bdec(&mut out, b, "handmade");
    }
    for _ in 0..cfg.n(1200, 60_000) {
        let n = r.below(4) as usize;
        let ms: Vec<Bytes> = (0..n).map(|_| Bytes::from(rbytes(&mut r))).collect();
        // (the valid encoding is written here, independently of the encoder under test)
        let mut b = (ms.len() as u64).to_be_bytes().to_vec();
        for m in &ms { b.extend_from_slice(&(m.len() as u64).to_be_bytes()); b.extend_from_slice(m); }
        let tag;
        match r.below(6) {
            0 => { tag = "valid"; }
            1 => { let k = r.below(b.len() as u64 + 1) as usize; b.truncate(k); tag = "truncated"; }
            2 => { let k = r.below(b.len() as u64) as usize; b[k] ^= 1 << r.below(8); tag = "bitflip"; }
            3 => { let v: u64 = *r.pick(&[u64::MAX, 1 << 40, 1 << 61, 0xffff_ffff]); b[..8].copy_from_slice(&v.to_be_bytes()); tag = "huge_count"; }
            4 => { if b.len() >= 16 { let v: u64 = *r.pick(&[u64::MAX, 1 << 40, b.len() as u64, b.len() as u64 - 15]); b[8..16].copy_from_slice(&v.to_be_bytes()); } tag = "huge_element_len"; }
            _ => { let n = r.below(30) as usize; b = r.bytes(n); tag = "random_bytes"; }
        }
        case_bdec(&mut out, b, tag);
    }
    for (k, inp, big) in crate::util::ALLOC_NOTES.lock().unwrap().iter() { out.stat(&format!("maxalloc_{k}_{big}_for_input_{inp}")); }
    out.finish();
}
