//! C14 / C06 (payload level): standard codecs and compression.
//!
//! Case lines:
//!   sdec <hx>                  StringCodec::decode            -> `ok <hx>` | `err`
//!   senc <hx>                  StringCodec::encode (valid UTF-8 input) -> `<hx>`
//!   ydec <hx> / yenc <hx>      BytesCodec
//!   bdc <type> <hx>            BincodeCodec::<T>::decode       -> `ok <val>` | `err`
//!   bre <type> <hx>            decode then encode again        -> `ok <hx>` | `err`
//!   crt <algo> <hx>            decompress(compress(x))         -> `ok <hx>` | `err`   (model: hypothesis)
//!   dcp <algo> <hx>            decompress(arbitrary bytes)     -> `safe`              (model: total by assumption)
//!   cseq <algo> <hx-bad>,<hx-bad>.. <hx>   on ONE thread: decompress each damaged input (results ignored), then
//!                              decompress(compress(x)) -> `ok <hx>`: a result depends on the input alone, not on what
//!                              the same thread decoded (or failed to decode) before
//!   cmp <codec> <algo> <n> <hx>,<hx>..   the wire composition encode/batch/compress then inverse -> `ok <hx>,..`
//! All decoders run in the guarded child (panic -> PANIC, abort -> ABORT).
use crate::childrun::{guarded, Outcome};
use crate::util::*;
use bytes::{Bytes, BytesMut};
use selium_std::codecs::{BincodeCodec, BytesCodec, StringCodec};
use selium_std::compression::{brotli, deflate, lz4, zstd};
use selium_std::traits::codec::{MessageDecoder, MessageEncoder};
use selium_std::traits::compression::{Compress, CompressionLevel, Decompress};
use serde::{Deserialize, Serialize};

// ------------------------------------------------------------------ generic value text (matches Driver/Codec.lean)

pub trait ToVal {
    fn val(&self) -> String;
}
impl ToVal for u8 { fn val(&self) -> String { format!("u8:{self}") } }
impl ToVal for u32 { fn val(&self) -> String { format!("u32:{self}") } }
impl ToVal for u64 { fn val(&self) -> String { format!("u64:{self}") } }
impl ToVal for String { fn val(&self) -> String { format!("s:{}", hx(self.as_bytes())) } }
impl<T: ToVal> ToVal for Vec<T> { fn val(&self) -> String { format!("vec[{}]", self.iter().map(|x| x.val()).collect::<Vec<_>>().join(";")) } }
impl<T: ToVal> ToVal for Option<T> { fn val(&self) -> String { match self { None => "none".into(), Some(x) => format!("some({})", x.val()) } } }
impl<A: ToVal, B: ToVal> ToVal for (A, B) { fn val(&self) -> String { format!("st({};{})", self.0.val(), self.1.val()) } }

#[derive(Debug, PartialEq, Serialize, Deserialize, Clone)]
pub struct Dummy { foo: String, bar: u64 }
impl ToVal for Dummy { fn val(&self) -> String { format!("st({};{})", self.foo.val(), self.bar.val()) } }

#[derive(Debug, PartialEq, Serialize, Deserialize, Clone)]
pub enum En { A(u8), B(String), C(Vec<u64>) }
impl ToVal for En {
    fn val(&self) -> String {
        match self { En::A(x) => format!("en0({})", x.val()), En::B(x) => format!("en1({})", x.val()), En::C(x) => format!("en2({})", x.val()) }
    }
}

type Nested = Vec<Option<(u8, Vec<String>)>>;

pub const BTYPES: &[&str] = &["str", "u64", "vecu8", "tup", "vstr", "ostr", "dummy", "en", "nested"];

fn bdc<T: serde::de::DeserializeOwned + ToVal>(b: &[u8]) -> String {
    let mut buf = BytesMut::from(b);
    match BincodeCodec::<T>::default().decode(&mut buf) { Ok(v) => format!("ok {}", v.val()), Err(_) => "err".into() }
}
fn bre<T: serde::de::DeserializeOwned + Serialize>(b: &[u8]) -> String {
    let mut buf = BytesMut::from(b);
    let c = BincodeCodec::<T>::default();
    match c.decode(&mut buf) { Ok(v) => match c.encode(v) { Ok(e) => format!("ok {}", hx(&e)), Err(_) => "encerr".into() }, Err(_) => "err".into() }
}

macro_rules! by_type {
    ($f:ident, $ty:expr, $b:expr) => {
        match $ty {
            "str" => $f::<String>($b), "u64" => $f::<u64>($b), "vecu8" => $f::<Vec<u8>>($b), "tup" => $f::<(u32, String)>($b),
            "vstr" => $f::<Vec<String>>($b), "ostr" => $f::<Option<String>>($b), "dummy" => $f::<Dummy>($b), "en" => $f::<En>($b),
            "nested" => $f::<Nested>($b), other => format!("unknown-type {other}"),
        }
    };
}

// ------------------------------------------------------------------------------- compression table

pub fn algos() -> Vec<String> {
    let mut v = vec![];
    for lib in ["gzip", "zlib"] {
        for l in ["fast", "bal", "best"] { v.push(format!("{lib}:{l}")); }
        for n in 0..=9 { v.push(format!("{lib}:{n}")); }
    }
    for l in ["fast", "bal", "best"] { v.push(format!("zstd:{l}")); }
    for n in [1, 2, 3, 5, 7, 9, 12, 15, 19, 22] { v.push(format!("zstd:{n}")); }
    v.push("lz4:-".into());
    for mode in ["brg", "brt", "brf"] {
        for l in ["fast", "bal", "best", "dflt"] { v.push(format!("{mode}:{l}")); }
        for n in 0..=11 { v.push(format!("{mode}:{n}")); }
    }
    v
}

fn lvl<C: CompressionLevel>(c: C, l: &str) -> C {
    match l { "fast" => c.fastest(), "bal" => c.balanced(), "best" => c.highest_ratio(), "dflt" | "-" => c, n => c.level(n.parse().unwrap()) }
}

pub fn compressor(a: &str) -> Box<dyn Compress + Send + Sync> {
    let (lib, l) = a.split_once(':').unwrap();
    match lib {
        "gzip" => Box::new(lvl(deflate::DeflateComp::gzip(), l)),
        "zlib" => Box::new(lvl(deflate::DeflateComp::zlib(), l)),
        "zstd" => Box::new(lvl(zstd::ZstdComp::new(), l)),
        "lz4" => Box::new(lz4::Lz4Comp),
        "brg" => Box::new(lvl(brotli::BrotliComp::generic(), l)),
        "brt" => Box::new(lvl(brotli::BrotliComp::text(), l)),
        "brf" => Box::new(lvl(brotli::BrotliComp::font(), l)),
        _ => panic!("bad algo {a}"),
    }
}

pub fn decompressor(a: &str) -> Box<dyn Decompress + Send + Sync> {
    let lib = a.split(':').next().unwrap();
    match lib {
        "gzip" => Box::new(deflate::DeflateDecomp::gzip()),
        "zlib" => Box::new(deflate::DeflateDecomp::zlib()),
        "zstd" => Box::new(zstd::ZstdDecomp),
        "lz4" => Box::new(lz4::Lz4Decomp),
        "brg" | "brt" | "brf" => Box::new(brotli::BrotliDecomp),
        _ => panic!("bad algo {a}"),
    }
}

// ------------------------------------------------------------------------------ child-side operations

pub fn child(op: &str, input: &[u8]) -> Option<String> {
    let (name, arg) = op.split_once(':').unwrap_or((op, ""));
    Some(match name {
        "sdec" => { let mut b = BytesMut::from(input); match StringCodec.decode(&mut b) { Ok(s) => format!("ok {}", hx(s.as_bytes())), Err(_) => "err".into() } }
        "ydec" => { let mut b = BytesMut::from(input); match BytesCodec.decode(&mut b) { Ok(s) => format!("ok {}", hx(&s)), Err(_) => "err".into() } }
        "bdc" => by_type!(bdc, arg, input),
        "bre" => by_type!(bre, arg, input),
        "crt" => {
            let c = compressor(arg).compress(Bytes::from(input.to_vec()));
            match c { Err(_) => "err-compress".into(), Ok(z) => match decompressor(arg).decompress(z) { Ok(b) => format!("ok {}", hx(&b)), Err(_) => "err".into() } }
        }
        "dcp" => { let _ = decompressor(arg).decompress(Bytes::from(input.to_vec())); "safe".into() }
        "cseq" => {
            // input: u32 count, then (u32 len, bytes)* : the damaged inputs first, the payload last
            let mut parts: Vec<Vec<u8>> = vec![];
            let mut i = 4usize;
            let n = u32::from_be_bytes([input[0], input[1], input[2], input[3]]) as usize;
            for _ in 0..n { let l = u32::from_be_bytes([input[i], input[i + 1], input[i + 2], input[i + 3]]) as usize; parts.push(input[i + 4..i + 4 + l].to_vec()); i += 4 + l; }
            let payload = parts.pop().unwrap_or_default();
            let d = decompressor(arg);
            for bad in parts { let _ = d.decompress(Bytes::from(bad)); }
            match compressor(arg).compress(Bytes::from(payload)) { Err(_) => "err-compress".into(), Ok(z) => match decompressor(arg).decompress(z) { Ok(b) => format!("ok {}", hx(&b)), Err(_) => "err".into() } }
        }
        "cmp" => {
            // arg: <codec>/<algo>; input as for cseq: the items. encode each, batch, compress; decompress, unbatch, decode each
            let (codec, algo) = arg.split_once('/').unwrap();
            let mut items: Vec<Vec<u8>> = vec![];
            let mut i = 4usize;
            let n = u32::from_be_bytes([input[0], input[1], input[2], input[3]]) as usize;
            for _ in 0..n { let l = u32::from_be_bytes([input[i], input[i + 1], input[i + 2], input[i + 3]]) as usize; items.push(input[i + 4..i + 4 + l].to_vec()); i += 4 + l; }
            let mut enc: Vec<Bytes> = vec![];
            for it in &items {
                let e = match codec {
                    "string" => match String::from_utf8(it.clone()) { Ok(sv) => StringCodec.encode(sv), Err(_) => return Some("bad-item".into()) },
                    "bytes" => BytesCodec.encode(it.clone()),
                    _ => BincodeCodec::<()>::default().encode(()),
                };
                match e { Ok(b) => enc.push(b), Err(_) => return Some("err-encode".into()) }
            }
            let wire = selium_protocol::utils::encode_message_batch(enc);
            let wire = if algo == "-" { wire } else { match compressor(algo).compress(wire) { Ok(z) => z, Err(_) => return Some("err-compress".into()) } };
            let plain = if algo == "-" { wire } else { match decompressor(algo).decompress(wire) { Ok(z) => z, Err(_) => return Some("err-decompress".into()) } };
            let msgs = match selium_protocol::utils::decode_message_batch(plain) { Ok(m) => m, Err(_) => return Some("err-unbatch".into()) };
            let mut got: Vec<String> = vec![];
            for m in msgs {
                let mut b = BytesMut::from(&m[..]);
                let v: Option<Vec<u8>> = match codec {
                    "string" => StringCodec.decode(&mut b).ok().map(|sv| sv.into_bytes()),
                    "bytes" => BytesCodec.decode(&mut b).ok(),
                    _ => BincodeCodec::<()>::default().decode(&mut b).ok().map(|_| vec![]),
                };
                match v { Some(v) => got.push(hx(&v)), None => return Some("err-decode".into()) }
            }
            format!("ok {}", got.join(","))
        }
        _ => return None,
    })
}

fn guarded_line(op: &str, input: &[u8]) -> (String, Result<(), String>) {
    // enough witnesses of a decoder that does not return: the rest of the run is not executed (and shows up as a
    // divergence from the model, not as a property failure)
    if crate::childrun::hangs() >= crate::childrun::MAX_HANGS { return ("NOT-RUN-AFTER-HANGS".into(), Ok(())); }
    match guarded(op, input) {
        Outcome::Value(v) => {
            let own = !(op.starts_with("dcp") || op.starts_with("crt") || op.starts_with("dcx") || op.starts_with("cseq") || op.starts_with("cmp"));
            match crate::childrun::alloc_excess(op, input.len(), own) { Some(w) => (v, Err(w)), None => (v, Ok(())) }
        }
        Outcome::Panic(p) => ("PANIC".into(), Err(format!("{op} panicked: {p}"))),
        Outcome::Abort(a) => ("ABORT".into(), Err(format!("{op} aborted the process ({a})"))),
        Outcome::Hang => ("HANG".into(), Err(format!("{op} did not return"))),
    }
}

// --------------------------------------------------------------------------------------- generators

fn utf8ish(r: &mut Rng) -> Vec<u8> {
    let pieces: &[&[u8]] = &[b"a", b"hello", "é".as_bytes(), "日本".as_bytes(), "🚀".as_bytes(), b"\x00", b"\x7f", "\u{7ff}".as_bytes(), "\u{800}".as_bytes(), "\u{ffff}".as_bytes(), "\u{10000}".as_bytes(), "\u{10ffff}".as_bytes(), "\u{d7ff}".as_bytes(), "\u{e000}".as_bytes()];
    let n = r.below(8);
    let mut v = vec![];
    for _ in 0..n { let p: &[u8] = *r.pick(pieces); v.extend_from_slice(p); }
    v
}

fn badutf8(r: &mut Rng) -> Vec<u8> {
    let bad: &[&[u8]] = &[b"\x80", b"\xc0\x80", b"\xc1\xbf", b"\xc2", b"\xe0\x80\x80", b"\xe0\x9f\xbf", b"\xed\xa0\x80", b"\xed\xbf\xbf", b"\xf0\x80\x80\x80", b"\xf0\x8f\xbf\xbf",
        b"\xf4\x90\x80\x80", b"\xf5\x80\x80\x80", b"\xff", b"\xfe", b"\xe2\x82", b"\xf0\x9f\x9a", b"\xc2\x41", b"\xe2\x28\xa1", b"\xf8\x88\x80\x80\x80"];
    let mut v = utf8ish(r);
    let k = r.below(v.len() as u64 + 1) as usize;
    let b: &[u8] = *r.pick(bad);
    let tail = v.split_off(k);
    v.extend_from_slice(b);
    if r.chance(1, 2) { v.extend(tail); }
    v
}

fn payload(r: &mut Rng, class: u64, big: usize) -> (Vec<u8>, &'static str) {
    match class {
        0 => (vec![], "empty"),
        1 => { let n = r.below(16) as usize + 1; (r.bytes(n), "tiny") }
        2 => { let n = r.below(4000) as usize + 100; (r.bytes(n), "incompressible") }
        3 => { let n = r.below(big as u64) as usize + 1000; (vec![r.next() as u8; n], "repetitive") }
        4 => { let w = [&b"lorem "[..], b"ipsum ", b"dolor ", b"sit ", b"amet ", b"\n"]; let n = r.below(3000) as usize; let mut v = vec![]; for _ in 0..n { let p: &[u8] = *r.pick(&w[..]); v.extend_from_slice(p); } (v, "text") }
        5 => { let n = r.below(big as u64 / 4) as usize + 5000; let pn = r.below(40) as usize + 2; let pat = r.bytes(pn); ((0..n).map(|i| pat[i % pat.len()]).collect(), "periodic") }
        6 => { let n = r.below(70_000) as usize + 60_000; (r.bytes(n), "incompressible_64k") }
        _ => {
            // a payload that itself looks like compressed data: the output of one of the compressors, or a stream
            // header followed by anything (a transform that guesses "already compressed" from the bytes is wrong)
            match r.below(4) {
                0 | 1 => {
                    let inner_n = r.below(600) as usize;
                    let inner = r.bytes(inner_n);
                    let a = *r.pick(&["gzip:bal", "zlib:bal", "zlib:fast", "zlib:best", "zstd:bal", "lz4:-", "brg:bal"]);
                    (compressor(a).compress(Bytes::from(inner)).map(|b| b.to_vec()).unwrap_or_default(), "looks_compressed")
                }
                2 => {
                    let heads: [&[u8]; 9] = [&[0x1f, 0x8b, 0x08], &[0x78, 0x9c], &[0x78, 0x01], &[0x78, 0xda], &[0x78, 0x5e], &[0x28, 0xb5, 0x2f, 0xfd], &[0x04, 0x22, 0x4d, 0x18], &[0x08, 0x1d], &[0x58, 0x85]];
                    let mut v = r.pick(&heads[..]).to_vec();
                    let n = r.below(200) as usize;
                    v.extend(r.bytes(n));
                    (v, "looks_compressed")
                }
                _ => {
                    let texts: [&[u8]; 4] = [b"x^2 + y^2 = z^2", b"x\x9c", b"xxxxxxxxxxxxxxxxxxxxxxxxxxxxxxxx^", b"(\xb5/\xfd"];
                    (r.pick(&texts[..]).to_vec(), "looks_compressed")
                }
            }
        }
    }
}

fn sample_value_bytes(r: &mut Rng, ty: &str) -> Vec<u8> {
    let s = |r: &mut Rng| String::from_utf8(utf8ish(r)).unwrap();
    match ty {
        "str" => bincode::serialize(&s(r)).unwrap(),
        "u64" => bincode::serialize(&r.next()).unwrap(),
        "vecu8" => { let n = r.below(10) as usize; bincode::serialize(&r.bytes(n)).unwrap() }
        "tup" => bincode::serialize(&(r.next() as u32, s(r))).unwrap(),
        "vstr" => bincode::serialize(&(0..r.below(4)).map(|_| s(r)).collect::<Vec<_>>()).unwrap(),
        "ostr" => bincode::serialize(&if r.chance(1, 3) { None } else { Some(s(r)) }).unwrap(),
        "dummy" => bincode::serialize(&Dummy { foo: s(r), bar: r.next() }).unwrap(),
        "en" => bincode::serialize(&match r.below(3) { 0 => En::A(r.next() as u8), 1 => En::B(s(r)), _ => En::C((0..r.below(4)).map(|_| r.next()).collect()) }).unwrap(),
        _ => { let v: Nested = (0..r.below(4)).map(|_| if r.chance(1, 3) { None } else { Some((r.next() as u8, (0..r.below(3)).map(|_| s(r)).collect())) }).collect(); bincode::serialize(&v).unwrap() }
    }
}

pub fn run(cfg: &Cfg) {
    let mut out = Out::new(&cfg.out, "codec");
    if let Some(lines) = cfg.replay_lines() {
        for l in lines {
            let t: Vec<&str> = l.split(' ').collect();
            one(&mut out, &t);
        }
        out.finish();
        return;
    }
    let mut r = Rng::new(cfg.seed, "codec");
    // ---- string / bytes codecs
    for _ in 0..cfg.n(600, 30_000) {
        let good = utf8ish(&mut r);
        one(&mut out, &["senc", &hx(&good)]);
        one(&mut out, &["sdec", &hx(&good)]);
        let bad = badutf8(&mut r);
        one(&mut out, &["sdec", &hx(&bad)]);
        let n = r.below(12) as usize;
        let any = r.bytes(n);
        one(&mut out, &["sdec", &hx(&any)]);
        one(&mut out, &["yenc", &hx(&any)]);
        one(&mut out, &["ydec", &hx(&any)]);
    }
    // code points with a special role somewhere (byte order mark, separators, controls, non-characters, plane
    // boundaries) and random ones from the whole range, alone and as first / middle / last character: a codec may
    // not treat any of them specially
    let mut cps: Vec<u32> = vec![0x0, 0x1, 0x8, 0x9, 0xa, 0xd, 0x1b, 0x20, 0x22, 0x27, 0x5c, 0x7f, 0x80, 0x85, 0xa0, 0xad, 0x300, 0x34f, 0x61c, 0x180e,
        0x2000, 0x200b, 0x200c, 0x200d, 0x200e, 0x200f, 0x2028, 0x2029, 0x202a, 0x202e, 0x2060, 0x2066, 0x3000, 0xd7ff, 0xe000, 0xf8ff, 0xfdd0, 0xfdef,
        0xfe00, 0xfe0f, 0xfeff, 0xfff0, 0xfff9, 0xfffc, 0xfffd, 0xfffe, 0xffff, 0x10000, 0x1f600, 0x1fffe, 0x1ffff, 0xe0001, 0xe0020, 0xe007f, 0xe0100,
        0xf0000, 0xffffd, 0x100000, 0x10fffd, 0x10fffe, 0x10ffff];
    for _ in 0..cfg.n(300, 20_000) { cps.push(r.below(0x110000) as u32); }
    for cp in cps {
        let Some(c) = char::from_u32(cp) else { continue };
        for text in [format!("{c}"), format!("{c}hello"), format!("he{c}llo"), format!("hello{c}"), format!("{c}{c}")] {
            one(&mut out, &["senc", &hx(text.as_bytes())]);
            one(&mut out, &["sdec", &hx(text.as_bytes())]);
        }
    }
    // every 1- and 2-byte string whose first byte is >= 0x80 region boundaries
    for a in [0x00u8, 0x7f, 0x80, 0xbf, 0xc0, 0xc1, 0xc2, 0xdf, 0xe0, 0xec, 0xed, 0xee, 0xef, 0xf0, 0xf1, 0xf3, 0xf4, 0xf5, 0xff] {
        one(&mut out, &["sdec", &hx(&[a])]);
        for b in [0x00u8, 0x7f, 0x80, 0x8f, 0x90, 0x9f, 0xa0, 0xbf, 0xc0] {
            one(&mut out, &["sdec", &hx(&[a, b])]);
            one(&mut out, &["sdec", &hx(&[a, b, 0x80])]);
            one(&mut out, &["sdec", &hx(&[a, b, 0xbf, 0x80])]);
        }
    }
    // ---- bincode codec
    for ty in BTYPES {
        for _ in 0..cfg.n(150, 8000) {
            let good = sample_value_bytes(&mut r, ty);
            one(&mut out, &["bdc", ty, &hx(&good)]);
            one(&mut out, &["bre", ty, &hx(&good)]);
            let mut m = good.clone();
            match r.below(5) {
                0 => { let k = r.below(m.len() as u64 + 1) as usize; m.truncate(k); }
                1 => { if !m.is_empty() { let k = r.below(m.len() as u64) as usize; m[k] ^= 1 << r.below(8); } }
                2 => { if m.len() >= 8 { let v: u64 = *r.pick(&[u64::MAX, 1 << 40, 1 << 34, 1 << 62, m.len() as u64]); let k = r.below((m.len() - 7) as u64) as usize; m[k..k + 8].copy_from_slice(&v.to_le_bytes()); } }
                3 => { let n = r.below(6) as usize; m.extend(r.bytes(n)); }
                _ => { let n = r.below(24) as usize; m = r.bytes(n); }
            }
            one(&mut out, &["bdc", ty, &hx(&m)]);
        }
        // adversarial length prefixes
        for v in [1u64 << 40, u64::MAX, 1 << 33, 1 << 62] {
            let mut m = v.to_le_bytes().to_vec();
            m.extend_from_slice(b"abc");
            one(&mut out, &["bdc", ty, &hx(&m)]);
        }
    }
    // ---- compression: every algorithm x mode x level x payload class (testing, not proof)
    let big = match cfg.tier { Tier::Quick => 120_000, Tier::Thorough => 1 << 20 };
    let all = algos();
    for a in &all {
        for class in 0..8 {
            let reps = if class == 7 { cfg.n(4, 24) } else { cfg.n(1, 6) };
            for _ in 0..reps {
                // the slowest settings (brotli 10/11, zstd 19+) get the smaller payloads in the quick tier
                let slow = a.ends_with(":10") || a.ends_with(":11") || a.ends_with(":best") && a.starts_with("br") || a.ends_with(":19") || a.ends_with(":22");
                let (p, tag) = payload(&mut r, class, if slow && cfg.tier == Tier::Quick { 20_000 } else { big });
                out.stat(&format!("payload_{tag}"));
                one(&mut out, &["crt", a, &hx(&p)]);
            }
        }
    }
    // payloads larger than any internal block / window / output buffer of the libraries (128 KiB blocks, 32 KiB
    // streaming buffers, 64 KiB windows): incompressible, word-like text, and up to the frame limit, at a default level
    // of every family (every level in the thorough tier)
    for a in ["gzip:bal", "zlib:bal", "zstd:bal", "zstd:1", "lz4:-", "brg:dflt", "brt:5"] {
        let words = ["lorem ", "ipsum ", "dolor ", "sit ", "amet ", "consectetur ", "adipiscing ", "elit ", "sed ", "do "];
        let mut text = Vec::with_capacity(300_000);
        while text.len() < 300_000 { text.extend_from_slice(r.pick(&words[..]).as_bytes()); if r.chance(1, 9) { text.extend_from_slice(format!("{} ", r.next()).as_bytes()); } }
        for p in [r.bytes(140_000), r.bytes(300_000), text, r.bytes((1 << 20) - 64)] {
            out.stat("payload_large");
            one(&mut out, &["crt", a, &hx(&p)]);
        }
    }
    // payloads that are far larger than a frame before compression and small after it (a batch of large, repetitive
    // messages): sizes around the block / window sizes the libraries choose by length (4 MiB and beyond)
    // (moderate levels: brotli's highest qualities need minutes for this much input)
    for a in ["gzip:bal", "zlib:bal", "zstd:bal", "zstd:12", "lz4:-", "brg:4", "brt:2"] {
        for len in [(4usize << 20) - 1, (4 << 20) + 1, 6 << 20, (8 << 20) + 3] {
            let mut p = Vec::with_capacity(len);
            let mut k = 0u8;
            while p.len() < len { let n = (81_920usize).min(len - p.len()); p.extend(std::iter::repeat(b'a' + k % 26).take(n)); k = k.wrapping_add(1); }
            out.stat("payload_beyond_a_frame");
            one(&mut out, &["crt", a, &hx(&p)]);
        }
    }
    if cfg.tier == Tier::Thorough {
        for a in &all {
            let p = vec![0x5au8; 1 << 20];
            one(&mut out, &["crt", a, &hx(&p)]);
            let p = r.bytes(1 << 20);
            one(&mut out, &["crt", a, &hx(&p)]);
        }
    }
    // ---- decompressors on arbitrary and damaged input
    for a in ["gzip:-", "zlib:-", "zstd:-", "lz4:-", "brg:-"] {
        for _ in 0..cfg.n(250, 12_000) {
            let cl = r.below(5); let (p, _) = payload(&mut r, cl, 3000);
            let mut z = compressor(&a.replace(":-", if a.starts_with("lz4") { ":-" } else { ":bal" })).compress(Bytes::from(p)).map(|b| b.to_vec()).unwrap_or_default();
            // (a compressor under test may return anything, even nothing: never index blindly)
            match if z.is_empty() { 2 } else { r.below(5) } {
                0 => { let k = r.below(z.len() as u64 + 1) as usize; z.truncate(k); }
                1 => { let k = r.below(z.len() as u64) as usize; z[k] ^= 1 << r.below(8); }
                2 => { let n = r.below(64) as usize; z = r.bytes(n); }
                3 => { for _ in 0..4 { let k = r.below(z.len() as u64) as usize; z[k] = r.next() as u8; } }
                _ => { let n = r.below(9) as usize; z.extend(r.bytes(n)); }
            }
            one(&mut out, &["dcp", a, &hx(&z)]);
        }
    }
    // ---- history independence: damaged inputs of every kind first, then a round trip, all on one thread
    for a in ["gzip:bal", "zlib:bal", "zstd:bal", "lz4:-", "brg:dflt"] {
        for _ in 0..cfg.n(12, 400) {
            let mut bads: Vec<String> = vec![];
            for _ in 0..(1 + r.below(3)) {
                let cl = r.below(5); let (p, _) = payload(&mut r, cl, 70_000);
                let mut z = compressor(a).compress(Bytes::from(p)).map(|b| b.to_vec()).unwrap_or_default();
                match if z.len() < 8 { 9 } else { r.below(6) } {
                    0 => { let k = 1 + r.below(z.len() as u64 - 1) as usize; z.truncate(k); }              // cut anywhere
                    1 => { let k = z.len() - 1 - r.below(8.min(z.len() as u64 - 1)) as usize; z[k] ^= 1 << r.below(8); } // damage near the end: the payload has been produced by then
                    2 => { let k = z.len() / 2 + r.below(z.len() as u64 / 2) as usize; z[k] ^= 1 << r.below(8); }       // damage in the second half
                    3 => { let n = 1 + r.below(9) as usize; z.extend(r.bytes(n)); }                          // trailing bytes
                    4 => { let k = r.below(z.len() as u64) as usize; z[k] ^= 1 << r.below(8); }              // damage anywhere
                    _ => { let n = r.below(64) as usize; z = r.bytes(n); }
                }
                bads.push(hx(&z));
            }
            let cl = r.below(8); let (p, _) = payload(&mut r, cl, 20_000);
            one(&mut out, &["cseq", a, &bads.join(","), &hx(&p)]);
        }
    }
    // ---- the composition used on the wire: encode each, batch, compress / decompress, unbatch, decode each — for batches
    // of every shape: no items, only empty items, empty items first / last / in between, one large item
    for a in ["-", "gzip:bal", "zlib:1", "zstd:bal", "lz4:-", "brg:dflt"] {
        for codec in ["string", "bytes", "unit"] {
            let mut shapes: Vec<Vec<Vec<u8>>> = vec![vec![], vec![vec![]], vec![vec![]; 3], vec![vec![]; 17], vec![b"a".to_vec(), vec![], vec![], vec![]],
                vec![vec![], vec![], b"zz".to_vec()], vec![vec![], b"q".to_vec(), vec![]]];
            for _ in 0..cfg.n(6, 200) {
                let n = r.below(12) as usize;
                shapes.push((0..n).map(|_| match r.below(4) { 0 | 1 => vec![], 2 => { let k = 1 + r.below(3) as usize; r.bytes(k).iter().map(|b| b'a' + b % 26).collect() } _ => { let k = r.below(40) as usize; r.bytes(k).iter().map(|b| b' ' + b % 90).collect() } }).collect());
            }
            shapes.push(vec![vec![], (0..70_000).map(|i| b'a' + (i % 23) as u8).collect(), vec![]]);
            for sh in shapes {
                let sh: Vec<Vec<u8>> = if codec == "unit" { sh.iter().map(|_| vec![]).collect() } else { sh };
                let items = if sh.is_empty() { "none".to_string() } else { sh.iter().map(|b| hx(b)).collect::<Vec<_>>().join(",") };
                one(&mut out, &["cmp", codec, a, &items]);
            }
        }
    }
    // ---- every input of one byte, and of two bytes (quick tier: every first byte with a few second bytes): what a decoder
    // looks at before it has checked how much there is
    for a in ["gzip:-", "zlib:-", "zstd:-", "lz4:-", "brg:-"] {
        one(&mut out, &["dcp", a, "-"]);
        for x in 0..=255u8 {
            out.stat("dcp_short");
            one(&mut out, &["dcp", a, &hx(&[x])]);
            if cfg.tier == Tier::Thorough { for y in 0..=255u8 { one(&mut out, &["dcp", a, &hx(&[x, y])]); } }
            else { for y in [0x00u8, 0x01, 0x7f, 0x80, 0xff, x] { one(&mut out, &["dcp", a, &hx(&[x, y])]); } }
        }
    }
    // ---- crafted frame headers: every descriptor byte, with size fields that declare far more than is present
    for a in ["gzip:-", "zlib:-", "zstd:-", "lz4:-", "brg:-"] {
        for z in crafted_headers(a, cfg.tier == Tier::Thorough) {
            out.stat("dcp_crafted_header");
            one(&mut out, &["dcp", a, &hx(&z)]);
        }
    }
    for (k, inp, big) in crate::util::ALLOC_NOTES.lock().unwrap().iter() { out.stat(&format!("maxalloc_{k}_{big}_for_input_{inp}")); }
    out.finish();
}

/// xxHash32 of a short input (the LZ4 frame descriptor checksum is its second byte)
fn xxh32_short(d: &[u8]) -> u32 {
    const P1: u32 = 2654435761; const P2: u32 = 2246822519; const P3: u32 = 3266489917; const P4: u32 = 668265263; const P5: u32 = 374761393;
    assert!(d.len() < 16);
    let _ = (P1, P2);
    let mut h: u32 = P5.wrapping_add(d.len() as u32);
    let mut i = 0;
    while i + 4 <= d.len() { let w = u32::from_le_bytes([d[i], d[i + 1], d[i + 2], d[i + 3]]); h = h.wrapping_add(w.wrapping_mul(P3)).rotate_left(17).wrapping_mul(P4); i += 4; }
    while i < d.len() { h = h.wrapping_add((d[i] as u32).wrapping_mul(P5)).rotate_left(11).wrapping_mul(P1); i += 1; }
    h ^= h >> 15; h = h.wrapping_mul(P2); h ^= h >> 13; h = h.wrapping_mul(P3); h ^= h >> 16;
    h
}

/// declared sizes a decoder must not trust: all ones, 2^40, 2^63, 2^34 (little endian), and a small honest one
fn size_fields() -> Vec<Vec<u8>> {
    vec![vec![0xff; 8], (1u64 << 40).to_le_bytes().to_vec(), (1u64 << 63).to_le_bytes().to_vec(), (1u64 << 34).to_le_bytes().to_vec(), 5u64.to_le_bytes().to_vec()]
}

fn crafted_headers(a: &str, thorough: bool) -> Vec<Vec<u8>> {
    let mut v: Vec<Vec<u8>> = vec![];
    let seconds: Vec<u8> = if thorough { (0..=255u8).collect() } else { vec![0x00, 0x01, 0x40, 0x70, 0x80, 0xff] };
    let raw_block = [0x29u8, 0x00, 0x00, b'h', b'e', b'l', b'l', b'o']; // zstd: last raw block of 5 bytes
    match &a[..3] {
        "zst" => {
            // magic, frame header descriptor (all 256: content-size flag, single segment, checksum, dict id), window, sizes
            for fhd in 0..=255u8 {
                for w in &seconds {
                    for sz in size_fields() {
                        for tail in [&[][..], &raw_block[..]] {
                            let mut z = vec![0x28, 0xb5, 0x2f, 0xfd, fhd];
                            if fhd & 0x20 == 0 { z.push(*w); }
                            let fcs = match fhd >> 6 { 0 => if fhd & 0x20 != 0 { 1 } else { 0 }, 1 => 2, 2 => 4, _ => 8 };
                            let did = [0usize, 1, 2, 4][(fhd & 3) as usize];
                            z.extend(std::iter::repeat(0).take(did));
                            z.extend_from_slice(&sz[8 - fcs..]);
                            z.extend_from_slice(tail);
                            v.push(z);
                        }
                        if fhd & 0x20 != 0 { break; }
                    }
                    if fhd & 0x20 != 0 { break; }
                }
            }
        }
        "lz4" => {
            // magic, FLG (version 01: all 64), BD (block size 4..7 and junk), content size, correct header checksum
            for flg in 0x40..=0x7fu8 {
                for bd in [0x40u8, 0x50, 0x60, 0x70, 0x00, 0xf0] {
                    for sz in size_fields() {
                        let mut d = vec![flg, bd];
                        if flg & 0x08 != 0 { d.extend_from_slice(&sz); }
                        if flg & 0x01 != 0 { d.extend_from_slice(&[1, 0, 0, 0]); }
                        let hc = (xxh32_short(&d) >> 8) as u8;
                        for tail in [&[][..], &[0, 0, 0, 0][..], &[5, 0, 0, 0x80, b'h', b'e', b'l', b'l', b'o', 0, 0, 0, 0][..]] {
                            let mut z = vec![0x04, 0x22, 0x4d, 0x18];
                            z.extend_from_slice(&d); z.push(hc); z.extend_from_slice(tail);
                            v.push(z);
                        }
                        if flg & 0x08 == 0 { break; }
                    }
                }
            }
        }
        "gzi" => {
            // magic, method, every flag byte, then header fields that declare lengths (FEXTRA xlen), ISIZE trailers
            for flg in 0..=255u8 {
                for xlen in [[0u8, 0], [0xff, 0xff], [5, 0]] {
                    let mut z = vec![0x1f, 0x8b, 0x08, flg, 0, 0, 0, 0, 0, 0xff];
                    z.extend_from_slice(&xlen);
                    z.extend_from_slice(&[0x03, 0x00]); // empty final deflate block
                    z.extend_from_slice(&[0, 0, 0, 0, 0xff, 0xff, 0xff, 0xff]); // crc, ISIZE = 2^32-1
                    v.push(z);
                }
            }
        }
        "zli" => {
            for cmf in 0..=255u8 {
                for flg in &seconds {
                    let mut z = vec![cmf, *flg];
                    z.extend_from_slice(&[0x03, 0x00, 0, 0, 0, 1]);
                    v.push(z);
                }
                // the FLG that makes the header check pass
                let rem = ((cmf as u16) << 8) % 31;
                let flg = ((31 - rem) % 31) as u8;
                v.push(vec![cmf, flg, 0x03, 0x00, 0, 0, 0, 1]);
                v.push(vec![cmf, flg | 0x20, 0xff, 0xff, 0xff, 0xff, 0x03, 0x00]);
            }
        }
        _ => {
            // brotli: window bits / large-window prefixes and first meta-block headers declaring up to 2^24.. bytes
            for b0 in 0..=255u8 {
                for b1 in &seconds {
                    for tail in [&[][..], &[0xff, 0xff, 0xff, 0xff][..], &[0x00, 0x00, 0x03][..]] {
                        let mut z = vec![b0, *b1];
                        z.extend_from_slice(tail);
                        v.push(z);
                    }
                }
            }
        }
    }
    v
}

fn one(out: &mut Out, t: &[&str]) {
    let line = t.join(" ");
    out.stat(&format!("op_{}", t[0]));
    match t[0] {
        "senc" => {
            let s = String::from_utf8(unhx(t[1])).unwrap();
            let e = StringCodec.encode(s.clone()).unwrap();
            let mut b = BytesMut::from(&e[..]);
            let mon = match StringCodec.decode(&mut b) { Ok(d) if d == s => Ok(()), _ => Err("StringCodec: decode(encode(s)) != s".to_string()) };
            out.case(&line, &hx(&e), mon);
        }
        "yenc" => {
            let v = unhx(t[1]);
            let e = BytesCodec.encode(v.clone()).unwrap();
            let mut b = BytesMut::from(&e[..]);
            let mon = match BytesCodec.decode(&mut b) { Ok(d) if d == v => Ok(()), _ => Err("BytesCodec: decode(encode(v)) != v".to_string()) };
            out.case(&line, &hx(&e), mon);
        }
        "sdec" => {
            let input = unhx(t[1]);
            let (imp, mut mon) = guarded_line("sdec", &input);
            // independent oracle: std's validator
            if mon.is_ok() {
                let valid = std::str::from_utf8(&input).is_ok();
                if valid != imp.starts_with("ok") { mon = Err(format!("StringCodec::decode: valid_utf8={valid} but result {imp}")); }
                else if valid && imp != format!("ok {}", hx(&input)) { mon = Err("StringCodec::decode returned a different string".into()); }
            }
            out.stat(if imp.starts_with("ok") { "sdec_valid" } else { "sdec_invalid" });
            out.case(&line, &imp, mon);
        }
        "ydec" => { let (imp, mon) = guarded_line("ydec", &unhx(t[1])); out.case(&line, &imp, mon); }
        "bdc" | "bre" => {
            let (imp, mon) = guarded_line(&format!("{}:{}", t[0], t[1]), &unhx(t[2]));
            out.stat(&format!("{}_{}", t[0], if imp.starts_with("ok") { "ok" } else if imp == "err" { "err" } else { "crash" }));
            out.case(&line, &imp, mon);
        }
        "crt" => {
            let input = unhx(t[2]);
            let (imp, mut mon) = guarded_line(&format!("crt:{}", t[1]), &input);
            if mon.is_ok() && imp != format!("ok {}", hx(&input)) { mon = Err(format!("{}: decompress(compress(x)) != x for a {}-byte payload ({})", t[1], input.len(), &imp[..imp.len().min(40)])); }
            out.stat(&format!("crt_{}", t[1].split(':').next().unwrap()));
            out.case(&line, &imp, mon);
        }
        "dcp" => { let (imp, mon) = guarded_line(&format!("dcp:{}", t[1]), &unhx(t[2])); out.case(&line, &imp, mon); }
        "cseq" => {
            let bads: Vec<Vec<u8>> = t[2].split(',').map(unhx).collect();
            let payload = unhx(t[3]);
            let mut input = ((bads.len() + 1) as u32).to_be_bytes().to_vec();
            for b in bads.iter().chain(std::iter::once(&payload)) { input.extend_from_slice(&(b.len() as u32).to_be_bytes()); input.extend_from_slice(b); }
            let (imp, mut mon) = guarded_line(&format!("cseq:{}", t[1]), &input);
            if mon.is_ok() && imp != format!("ok {}", hx(&payload)) { mon = Err(format!("{}: after decoding {} damaged input(s) on the same thread, decompress(compress(x)) != x for a {}-byte payload ({})", t[1], bads.len(), payload.len(), &imp[..imp.len().min(40)])); }
            out.stat(&format!("cseq_{}", t[1].split(':').next().unwrap()));
            out.case(&line, &imp, mon);
        }
        "cmp" => {
            let items: Vec<Vec<u8>> = if t[3] == "none" { vec![] } else { t[3].split(',').map(unhx).collect() };
            let mut input = (items.len() as u32).to_be_bytes().to_vec();
            for b in &items { input.extend_from_slice(&(b.len() as u32).to_be_bytes()); input.extend_from_slice(b); }
            let (imp, mut mon) = guarded_line(&format!("cmp:{}/{}", t[1], t[2]), &input);
            let want = format!("ok {}", items.iter().map(|b| hx(b)).collect::<Vec<_>>().join(","));
            if mon.is_ok() && imp != want { mon = Err(format!("C14/C03: the composition used on the wire ({} codec, {}): {} item(s) ({} empty) came back as `{}`", t[1], t[2], items.len(), items.iter().filter(|b| b.is_empty()).count(), &imp[..imp.len().min(60)])); }
            out.stat(&format!("cmp_{}_{}", t[1], t[2].split(':').next().unwrap()));
            out.case(&line, &imp, mon);
        }
        _ => panic!("bad codec case {line}"),
    }
}

/// boxed (de)compressors as values the client builders accept
pub struct DynComp(pub Box<dyn Compress + Send + Sync>);
impl Compress for DynComp {
    fn compress(&self, input: Bytes) -> anyhow::Result<Bytes> { self.0.compress(input) }
}
pub struct DynDecomp(pub Box<dyn Decompress + Send + Sync>);
impl Decompress for DynDecomp {
    fn decompress(&self, input: Bytes) -> anyhow::Result<Bytes> { self.0.decompress(input) }
}
