//! C04 / C02 (answering side): a library `Replier` served requests by a raw requestor through a real server.
//!   rp <codec: string|bytes> <request>;<request>;…
//! request: `<headers>|<hx payload>`, headers `-` (no header map) or `k=v,k=v` (a forged `cid` and a `req_id` among
//! them). The raw requestor is the topic's first requestor (routing id 0). It sends the requests one at a time
//! and waits up to 400 ms for each reply. The replier's handler answers `re:<request>`; the request `boom` makes it
//! return an error, and a payload the request decoder rejects ends `listen()` too (the `?` in `handle_frame`).
//! Implementation line: per request what came back, `<headers as sorted k=v list or ->|<hx payload>` or `none`,
//! then ` listen=running|ended`.
use crate::e2e::*;
use crate::util::*;
use bytes::Bytes;
use futures::{SinkExt, StreamExt};
use selium::keep_alive::BackoffStrategy;
use selium::prelude::*;
use selium::std::codecs::{BytesCodec, StringCodec};
use selium_protocol::{Frame, MessagePayload, RequestorPayload, TopicName};
use std::collections::HashMap;
use std::net::SocketAddr;
use std::sync::atomic::{AtomicUsize, Ordering};
use std::time::Duration;

static TOPIC: AtomicUsize = AtomicUsize::new(0);

fn parse_headers(t: &str) -> Option<HashMap<String, String>> {
    if t == "-" { return None; }
    let mut m = HashMap::new();
    if t != "." {
        for kv in t.split(',') { let (k, v) = kv.split_once('=').unwrap_or((kv, "")); m.insert(k.to_string(), v.to_string()); }
    }
    Some(m)
}

fn show_headers(h: &Option<HashMap<String, String>>) -> String {
    match h {
        None => "-".into(),
        Some(m) if m.is_empty() => ".".into(),
        Some(m) => { let mut v: Vec<String> = m.iter().map(|(k, v)| format!("{k}={v}")).collect(); v.sort(); v.join(",") }
    }
}

async fn run_case(addr: SocketAddr, certs: &Certs, codec: &str, reqs: &[&str]) -> anyhow::Result<String> {
    let topic = format!("/verif/rep{}", TOPIC.fetch_add(1, Ordering::SeqCst));
    let client = client(addr, certs, BackoffStrategy::constant().with_max_attempts(0)).await?;
    let t2 = topic.clone();
    let listen = if codec == "string" {
        let mut replier = client.replier(&t2).with_request_decoder(StringCodec).with_reply_encoder(StringCodec)
            .with_handler(|req: String| async move { if req == "boom" { Err(anyhow::anyhow!("boom")) } else { Ok(format!("re:{req}")) } })
            .open().await?;
        tokio::spawn(async move { let _ = replier.listen().await; })
    } else {
        let mut replier = client.replier(&t2).with_request_decoder(BytesCodec).with_reply_encoder(BytesCodec)
            .with_handler(|req: Vec<u8>| async move { if req == b"boom" { Err(anyhow::anyhow!("boom")) } else { let mut v = b"re:".to_vec(); v.extend(req); Ok(v) } })
            .open().await?;
        tokio::spawn(async move { let _ = replier.listen().await; })
    };
    tokio::time::sleep(Duration::from_millis(40)).await;
    let conn = raw_connect(addr, &certs.client("ca.der"), Some((&certs.client("localhost.der"), &certs.client("localhost.key.der")))).await?;
    let mut s = raw_stream(&conn).await?;
    s.send(Frame::RegisterRequestor(RequestorPayload { topic: TopicName::try_from(topic.as_str())? })).await?;
    match s.next().await { Some(Ok(Frame::Ok)) => {}, other => anyhow::bail!("requestor registration answered {other:?}") }
    let mut outs = vec![];
    for r in reqs {
        let (h, p) = r.split_once('|').unwrap_or(("-", r));
        s.send(Frame::Message(MessagePayload { headers: parse_headers(h), message: Bytes::from(unhx(p)) })).await?;
        match tokio::time::timeout(Duration::from_millis(400), s.next()).await {
            Ok(Some(Ok(Frame::Message(m)))) => outs.push(format!("{}|{}", show_headers(&m.headers), hx(&m.message))),
            Ok(Some(Ok(other))) => outs.push(format!("frame:{}", format!("{other:?}").chars().take(12).collect::<String>())),
            Ok(Some(Err(_))) => outs.push("streamerr".into()),
            Ok(None) => outs.push("closed".into()),
            Err(_) => outs.push("none".into()),
        }
    }
    tokio::time::sleep(Duration::from_millis(30)).await;
    let ended = listen.is_finished();
    listen.abort();
    drop(s);
    Ok(format!("{} listen={}", outs.join(";"), if ended { "ended" } else { "running" }))
}

fn gen_request(r: &mut Rng, codec: &str) -> String {
    let hdrs = ["-", "-", ".", "req_id=0", "req_id=7", "req_id=7,x=1", "cid=9", "cid=9,req_id=3", "cid=0", "cid=abc,k=v", "a=1,b=2,c=3", "req_id=4294967295", "cid=18446744073709551616"];
    let h = *r.pick(&hdrs[..]);
    let payloads: Vec<Vec<u8>> = vec![b"".to_vec(), b"a".to_vec(), b"hello".to_vec(), "日本".as_bytes().to_vec(), b"re:x".to_vec(), vec![b'z'; 300]];
    let mut p = r.pick(&payloads[..]).clone();
    match r.below(14) {
        0 => p = b"boom".to_vec(),
        1 => p = if codec == "string" { vec![0xff, 0xfe] } else { vec![0xff, 0xfe, 0x00] },
        2 => p = r.bytes(6),
        _ => {}
    }
    format!("{h}|{}", hx(&p))
}

pub fn run(cfg: &Cfg) {
    let mut out = Out::new(&cfg.out, "e2erep");
    let rt = runtime();
    let certs = Certs::generate(&scratch_dir("rep")).expect("certificates");
    let addr = rt.block_on(async { start_server(&certs) }).expect("server");
    let mut cases: Vec<String> = vec![];
    if let Some(lines) = cfg.replay_lines() {
        cases = lines;
    } else {
        for c in [
            "rp string -|6869;req_id=1|6869;cid=5,req_id=2|6869",
            "rp string cid=7|61;.|62;x=1,y=2|63",
            "rp string req_id=0|61;req_id=1|626f6f6d;req_id=2|63",
            "rp string req_id=0|fffe;req_id=1|63",
            "rp bytes req_id=0|fffe;req_id=1|626f6f6d;req_id=2|63",
            "rp bytes -|-;-|-;-|-;-|-;-|-;-|-",
        ] { cases.push(c.to_string()); }
        let mut r = Rng::new(cfg.seed, "e2erep");
        for i in 0..cfg.n(24, 600) {
            let codec = ["string", "bytes"][i as usize % 2];
            let n = r.below(5) + 1;
            let reqs: Vec<String> = (0..n).map(|_| gen_request(&mut r, codec)).collect();
            cases.push(format!("rp {codec} {}", reqs.join(";")));
        }
    }
    for c in &cases {
        let t: Vec<&str> = c.split(' ').collect();
        let reqs: Vec<&str> = t[2].split(';').collect();
        let res = rt.block_on(async { tokio::time::timeout(Duration::from_secs(30), run_case(addr, &certs, t[1], &reqs)).await });
        let (imp, mon) = match res {
            Err(_) => ("TIMEOUT".to_string(), Err("C04: the exchange did not come to rest within 30 s".to_string())),
            Ok(Err(e)) => (format!("ERROR {}", format!("{e:?}").replace('\n', " ").chars().take(160).collect::<String>()), Err(format!("{e}"))),
            Ok(Ok(l)) => {
                // monitor (independent of the model): a reply that came back answers the request just sent
                // (payload `re:<request>`), carries the request's headers without any `cid`, and nothing comes
                // back for a request sent after the replier stopped
                let mut m = Ok(());
                let outs: Vec<&str> = l.split(' ').next().unwrap_or("").split(';').collect();
                // (the replier stops at the first request its decoder or its handler rejects; until then every
                // request is due a reply)
                let mut alive = true;
                for (q, o) in reqs.iter().zip(outs.iter()) {
                    let (qh, qp) = q.split_once('|').unwrap();
                    let body = unhx(qp);
                    if alive && (body == b"boom" || (t[1] == "string" && std::str::from_utf8(&body).is_err())) { alive = false; }
                    if *o == "none" {
                        if alive { m = Err(format!("C02/C04: request {q} to a listening replier was never answered (the request or its reply went astray)")); break; }
                        continue;
                    }
                    if !alive { m = Err(format!("C04: request {q} was answered ({o}) although the replier had stopped")); break; }
                    let Some((oh, op)) = o.split_once('|') else { m = Err(format!("C04: the requestor received {o} instead of a reply")); break; };
                    let mut want = b"re:".to_vec(); want.extend(unhx(qp));
                    if unhx(op) != want { m = Err(format!("C04: request {q} was answered with payload {op}")); break; }
                    let mut wh = parse_headers(qh).unwrap_or_default(); wh.remove("cid");
                    let wh = if wh.is_empty() { None } else { Some(wh) };
                    if show_headers(&wh) != oh { m = Err(format!("C02/C04: request with headers {qh} was answered with headers {oh}")); break; }
                }
                (l, m)
            }
        };
        out.stat(&format!("codec_{}", t[1]));
        out.stat(&format!("requests_{}", reqs.len()));
        if imp.contains("none") { out.stat("with_unanswered"); }
        if imp.ends_with("ended") { out.stat("listen_ended"); }
        if c.contains("cid=") { out.stat("forged_cid"); }
        out.case(c, &imp, mon);
    }
    let _ = std::fs::remove_dir_all(&certs.dir);
    out.finish();
}
