//! Translator: reads /repo's *current* source with `syn` and regenerates lean/SeliumModel/Gen/*.lean.
//! Nothing under Gen/ is written by hand. Exit status 3 + a line `SHAPE-CHANGED <file>: <what>` when a
//! construct that is extracted no longer has the shape the translator understands (treated by `check`
//! exactly like a failed proof).
use std::collections::BTreeMap;
use std::fmt::Write as _;
use std::path::{Path, PathBuf};
use syn::{Expr, Item};

struct Shape(String);
type R<T> = Result<T, Shape>;

fn shape<T>(file: &str, what: impl Into<String>) -> R<T> {
    Err(Shape(format!("{}: {}", file, what.into())))
}

struct Src {
    rel: String,
    ast: syn::File,
}

impl Src {
    fn load(repo: &Path, rel: &str) -> R<Src> {
        let p = repo.join(rel);
        let text = std::fs::read_to_string(&p).map_err(|e| Shape(format!("{rel}: cannot read ({e})")))?;
        let ast = syn::parse_file(&text).map_err(|e| Shape(format!("{rel}: does not parse ({e})")))?;
        Ok(Src { rel: rel.to_string(), ast })
    }
    fn consts(&self) -> BTreeMap<String, Expr> {
        let mut m = BTreeMap::new();
        fn walk(items: &[Item], m: &mut BTreeMap<String, Expr>) {
            for it in items {
                match it {
                    Item::Const(c) => { m.insert(c.ident.to_string(), (*c.expr).clone()); }
                    Item::Static(c) => { m.insert(c.ident.to_string(), (*c.expr).clone()); }
                    Item::Mod(md) => {
                        // skip #[cfg(test)] modules
                        let is_test = md.attrs.iter().any(|a| quote::quote!(#a).to_string().contains("cfg (test)"));
                        if !is_test { if let Some((_, items)) = &md.content { walk(items, m); } }
                    }
                    _ => {}
                }
            }
        }
        walk(&self.ast.items, &mut m);
        m
    }
    fn const_int(&self, name: &str) -> R<u128> {
        let cs = self.consts();
        let e = match cs.get(name) { Some(e) => e, None => return shape(&self.rel, format!("const {name} not found")) };
        eval_int(e, &cs).map_err(|w| Shape(format!("{}: const {name}: {w}", self.rel)))
    }
    fn const_duration_nanos(&self, name: &str) -> R<u128> {
        let cs = self.consts();
        let e = match cs.get(name) { Some(e) => e, None => return shape(&self.rel, format!("const {name} not found")) };
        eval_duration(e, &cs).map_err(|w| Shape(format!("{}: const {name}: {w}", self.rel)))
    }
    fn const_str(&self, name: &str) -> R<String> {
        let cs = self.consts();
        match cs.get(name) {
            Some(Expr::Lit(l)) => match &l.lit {
                syn::Lit::Str(s) => Ok(s.value()),
                syn::Lit::ByteStr(s) => Ok(String::from_utf8_lossy(&s.value()).into_owned()),
                _ => shape(&self.rel, format!("const {name} is not a string literal")),
            },
            Some(_) => shape(&self.rel, format!("const {name} is not a literal")),
            None => shape(&self.rel, format!("const {name} not found")),
        }
    }
}

fn type_size(t: &str) -> Option<u128> {
    Some(match t { "u8" | "i8" => 1, "u16" | "i16" => 2, "u32" | "i32" => 4, "u64" | "i64" | "usize" | "isize" => 8, "u128" | "i128" => 16, _ => return None })
}

fn eval_int(e: &Expr, cs: &BTreeMap<String, Expr>) -> Result<u128, String> {
    match e {
        Expr::Lit(l) => match &l.lit {
            syn::Lit::Int(i) => i.base10_parse::<u128>().map_err(|e| e.to_string()),
            syn::Lit::Byte(b) => Ok(b.value() as u128),
            _ => Err("not an integer literal".into()),
        },
        Expr::Paren(p) => eval_int(&p.expr, cs),
        Expr::Group(p) => eval_int(&p.expr, cs),
        Expr::Cast(c) => eval_int(&c.expr, cs),
        Expr::Binary(b) => {
            let l = eval_int(&b.left, cs)?;
            let r = eval_int(&b.right, cs)?;
            use syn::BinOp::*;
            match b.op {
                Add(_) => l.checked_add(r), Sub(_) => l.checked_sub(r), Mul(_) => l.checked_mul(r),
                Div(_) => l.checked_div(r), Shl(_) => l.checked_shl(r as u32), Shr(_) => l.checked_shr(r as u32),
                _ => return Err("unsupported operator".into()),
            }.ok_or_else(|| "arithmetic overflow".to_string())
        }
        Expr::Path(p) => {
            let segs: Vec<String> = p.path.segments.iter().map(|s| s.ident.to_string()).collect();
            if segs.len() == 2 && segs[1] == "MAX" {
                return match segs[0].as_str() { "u8" => Ok(u8::MAX as u128), "u16" => Ok(u16::MAX as u128), "u32" => Ok(u32::MAX as u128), "u64" | "usize" => Ok(u64::MAX as u128), _ => Err("unknown MAX".into()) };
            }
            let name = segs.last().unwrap();
            match cs.get(name) { Some(e2) => eval_int(e2, cs), None => Err(format!("unknown name {name}")) }
        }
        Expr::Call(c) => {
            // size_of::<T>()
            if let Expr::Path(p) = &*c.func {
                let last = p.path.segments.last().unwrap();
                if last.ident == "size_of" {
                    if let syn::PathArguments::AngleBracketed(a) = &last.arguments {
                        if let Some(syn::GenericArgument::Type(t)) = a.args.first() {
                            let ts = quote::quote!(#t).to_string();
                            return type_size(&ts).ok_or_else(|| format!("size_of::<{ts}> unknown"));
                        }
                    }
                }
            }
            Err("unsupported call".into())
        }
        _ => Err("unsupported constant expression".into()),
    }
}

fn eval_duration(e: &Expr, cs: &BTreeMap<String, Expr>) -> Result<u128, String> {
    if let Expr::Call(c) = e {
        if let Expr::Path(p) = &*c.func {
            let segs: Vec<String> = p.path.segments.iter().map(|s| s.ident.to_string()).collect();
            if segs.len() >= 2 && segs[segs.len() - 2] == "Duration" {
                let args: Result<Vec<u128>, String> = c.args.iter().map(|a| eval_int(a, cs)).collect();
                let args = args?;
                let f = segs.last().unwrap().as_str();
                return match (f, args.as_slice()) {
                    ("from_secs", [s]) => Ok(s * 1_000_000_000),
                    ("from_millis", [s]) => Ok(s * 1_000_000),
                    ("from_micros", [s]) => Ok(s * 1_000),
                    ("from_nanos", [s]) => Ok(*s),
                    ("new", [s, n]) => Ok(s * 1_000_000_000 + n),
                    _ => Err(format!("unsupported Duration constructor {f}")),
                };
            }
        }
    }
    Err("not a Duration constructor".into())
}

struct Gen {
    dir: PathBuf,
    written: Vec<String>,
}

impl Gen {
    fn emit(&mut self, module: &str, sources: &[&str], body: &str) {
        let mut s = String::new();
        let _ = writeln!(s, "-- GENERATED by /verif/harness/src/bin/translate.rs from {} — do not edit.", sources.join(", "));
        let _ = writeln!(s, "namespace Selium.Gen.{module}\n");
        s.push_str(body);
        let _ = writeln!(s, "\nend Selium.Gen.{module}");
        let p = self.dir.join(format!("{module}.lean"));
        let old = std::fs::read_to_string(&p).unwrap_or_default();
        if old != s {
            std::fs::write(&p, s).expect("write Gen file");
        }
        self.written.push(module.to_string());
    }
}

fn gen_backoff(repo: &Path, g: &mut Gen) -> R<()> {
    let rel = "client/src/keep_alive/backoff_strategy.rs";
    let src = Src::load(repo, rel)?;
    let att = src.const_int("DEFAULT_MAX_ATTEMPTS")?;
    let step = src.const_duration_nanos("DEFAULT_STEP")?;
    g.emit("Backoff", &[rel], &format!(
        "/-- `DEFAULT_MAX_ATTEMPTS` -/\ndef defaultMaxAttempts : Nat := {att}\n/-- `DEFAULT_STEP` in nanoseconds -/\ndef defaultStepNanos : Nat := {step}\n"));
    Ok(())
}

fn main() {
    let args: Vec<String> = std::env::args().collect();
    let repo = PathBuf::from(args.get(1).map(|s| s.as_str()).unwrap_or("/repo"));
    let out = PathBuf::from(args.get(2).map(|s| s.as_str()).unwrap_or("/verif/lean/SeliumModel/Gen"));
    std::fs::create_dir_all(&out).unwrap();
    let mut g = Gen { dir: out, written: vec![] };
    let steps: Vec<(&str, fn(&Path, &mut Gen) -> R<()>)> = vec![
        ("Backoff", gen_backoff),
    ];
    let mut failed = false;
    for (name, f) in steps {
        if let Err(Shape(w)) = f(&repo, &mut g) {
            println!("SHAPE-CHANGED {name} {w}");
            failed = true;
        }
    }
    println!("generated: {}", g.written.join(" "));
    if failed { std::process::exit(3); }
}
