//! Translator: reads /repo's *current* source with `syn` and regenerates lean/SeliumModel/Gen/*.lean.
//! Nothing under Gen/ is written by hand. Exit status 3 + a line `SHAPE-CHANGED <file>: <what>` when a
//! construct that is extracted no longer has the shape the translator understands (treated by `check`
//! exactly like a failed proof).
use std::collections::BTreeMap;
use std::fmt::Write as _;
use std::path::{Path, PathBuf};
use syn::{Expr, Item};

struct Shape(String);
type R<T> = Result<T, Shape>;

fn shape<T>(file: &str, what: impl Into<String>) -> R<T> {
    Err(Shape(format!("{}: {}", file, what.into())))
}

struct Src {
    rel: String,
    ast: syn::File,
}

impl Src {
    fn load(repo: &Path, rel: &str) -> R<Src> {
        let p = repo.join(rel);
        let text = std::fs::read_to_string(&p).map_err(|e| Shape(format!("{rel}: cannot read ({e})")))?;
        let ast = syn::parse_file(&text).map_err(|e| Shape(format!("{rel}: does not parse ({e})")))?;
        Ok(Src { rel: rel.to_string(), ast })
    }
    fn consts(&self) -> BTreeMap<String, Expr> {
        let mut m = BTreeMap::new();
        fn walk(items: &[Item], m: &mut BTreeMap<String, Expr>) {
            for it in items {
                match it {
                    Item::Const(c) => { m.insert(c.ident.to_string(), (*c.expr).clone()); }
                    Item::Static(c) => { m.insert(c.ident.to_string(), (*c.expr).clone()); }
                    Item::Mod(md) => {
                        // skip #[cfg(test)] modules
                        let is_test = md.attrs.iter().any(|a| quote::quote!(#a).to_string().contains("cfg (test)"));
                        if !is_test { if let Some((_, items)) = &md.content { walk(items, m); } }
                    }
                    _ => {}
                }
            }
        }
        walk(&self.ast.items, &mut m);
        m
    }
    fn const_int(&self, name: &str) -> R<u128> {
        let cs = self.consts();
        let e = match cs.get(name) { Some(e) => e, None => return shape(&self.rel, format!("const {name} not found")) };
        eval_int(e, &cs).map_err(|w| Shape(format!("{}: const {name}: {w}", self.rel)))
    }
    fn const_duration_nanos(&self, name: &str) -> R<u128> {
        let cs = self.consts();
        let e = match cs.get(name) { Some(e) => e, None => return shape(&self.rel, format!("const {name} not found")) };
        eval_duration(e, &cs).map_err(|w| Shape(format!("{}: const {name}: {w}", self.rel)))
    }
    fn const_str(&self, name: &str) -> R<String> {
        let cs = self.consts();
        match cs.get(name) {
            Some(Expr::Lit(l)) => match &l.lit {
                syn::Lit::Str(s) => Ok(s.value()),
                syn::Lit::ByteStr(s) => Ok(String::from_utf8_lossy(&s.value()).into_owned()),
                _ => shape(&self.rel, format!("const {name} is not a string literal")),
            },
            Some(_) => shape(&self.rel, format!("const {name} is not a literal")),
            None => shape(&self.rel, format!("const {name} not found")),
        }
    }
}

fn type_size(t: &str) -> Option<u128> {
    Some(match t { "u8" | "i8" => 1, "u16" | "i16" => 2, "u32" | "i32" => 4, "u64" | "i64" | "usize" | "isize" => 8, "u128" | "i128" => 16, _ => return None })
}

fn eval_int(e: &Expr, cs: &BTreeMap<String, Expr>) -> Result<u128, String> {
    match e {
        Expr::Lit(l) => match &l.lit {
            syn::Lit::Int(i) => i.base10_parse::<u128>().map_err(|e| e.to_string()),
            syn::Lit::Byte(b) => Ok(b.value() as u128),
            _ => Err("not an integer literal".into()),
        },
        Expr::Paren(p) => eval_int(&p.expr, cs),
        Expr::Group(p) => eval_int(&p.expr, cs),
        Expr::Cast(c) => eval_int(&c.expr, cs),
        Expr::Binary(b) => {
            let l = eval_int(&b.left, cs)?;
            let r = eval_int(&b.right, cs)?;
            use syn::BinOp::*;
            match b.op {
                Add(_) => l.checked_add(r), Sub(_) => l.checked_sub(r), Mul(_) => l.checked_mul(r),
                Div(_) => l.checked_div(r), Shl(_) => l.checked_shl(r as u32), Shr(_) => l.checked_shr(r as u32),
                _ => return Err("unsupported operator".into()),
            }.ok_or_else(|| "arithmetic overflow".to_string())
        }
        Expr::Path(p) => {
            let segs: Vec<String> = p.path.segments.iter().map(|s| s.ident.to_string()).collect();
            if segs.len() == 2 && segs[1] == "MAX" {
                return match segs[0].as_str() { "u8" => Ok(u8::MAX as u128), "u16" => Ok(u16::MAX as u128), "u32" => Ok(u32::MAX as u128), "u64" | "usize" => Ok(u64::MAX as u128), _ => Err("unknown MAX".into()) };
            }
            let name = segs.last().unwrap();
            match cs.get(name) { Some(e2) => eval_int(e2, cs), None => Err(format!("unknown name {name}")) }
        }
        Expr::Call(c) => {
            // size_of::<T>()
            if let Expr::Path(p) = &*c.func {
                let last = p.path.segments.last().unwrap();
                if last.ident == "size_of" {
                    if let syn::PathArguments::AngleBracketed(a) = &last.arguments {
                        if let Some(syn::GenericArgument::Type(t)) = a.args.first() {
                            let ts = quote::quote!(#t).to_string();
                            return type_size(&ts).ok_or_else(|| format!("size_of::<{ts}> unknown"));
                        }
                    }
                }
            }
            Err("unsupported call".into())
        }
        _ => Err("unsupported constant expression".into()),
    }
}

fn eval_duration(e: &Expr, cs: &BTreeMap<String, Expr>) -> Result<u128, String> {
    if let Expr::Call(c) = e {
        if let Expr::Path(p) = &*c.func {
            let segs: Vec<String> = p.path.segments.iter().map(|s| s.ident.to_string()).collect();
            if segs.len() >= 2 && segs[segs.len() - 2] == "Duration" {
                let args: Result<Vec<u128>, String> = c.args.iter().map(|a| eval_int(a, cs)).collect();
                let args = args?;
                let f = segs.last().unwrap().as_str();
                return match (f, args.as_slice()) {
                    ("from_secs", [s]) => Ok(s * 1_000_000_000),
                    ("from_millis", [s]) => Ok(s * 1_000_000),
                    ("from_micros", [s]) => Ok(s * 1_000),
                    ("from_nanos", [s]) => Ok(*s),
                    ("new", [s, n]) => Ok(s * 1_000_000_000 + n),
                    _ => Err(format!("unsupported Duration constructor {f}")),
                };
            }
        }
    }
    Err("not a Duration constructor".into())
}

struct Gen {
    dir: PathBuf,
    written: Vec<String>,
}

impl Gen {
    fn emit(&mut self, module: &str, sources: &[&str], body: &str) {
        self.emit_with_imports(module, &[], sources, body)
    }
    fn emit_with_imports(&mut self, module: &str, imports: &[&str], sources: &[&str], body: &str) {
        let mut s = String::new();
        for i in imports {
            let _ = writeln!(s, "import {i}");
        }
        let _ = writeln!(s, "-- GENERATED by /verif/harness/src/bin/translate.rs from {} — do not edit.", sources.join(", "));
        let _ = writeln!(s, "namespace Selium.Gen.{module}\n");
        s.push_str(body);
        let _ = writeln!(s, "\nend Selium.Gen.{module}");
        let p = self.dir.join(format!("{module}.lean"));
        let old = std::fs::read_to_string(&p).unwrap_or_default();
        if old != s {
            std::fs::write(&p, s).expect("write Gen file");
        }
        self.written.push(module.to_string());
    }
}

fn gen_backoff(repo: &Path, g: &mut Gen) -> R<()> {
    let rel = "client/src/keep_alive/backoff_strategy.rs";
    let src = Src::load(repo, rel)?;
    let att = src.const_int("DEFAULT_MAX_ATTEMPTS")?;
    let step = src.const_duration_nanos("DEFAULT_STEP")?;
    g.emit("Backoff", &[rel], &format!(
        "/-- `DEFAULT_MAX_ATTEMPTS` -/\ndef defaultMaxAttempts : Nat := {att}\n/-- `DEFAULT_STEP` in nanoseconds -/\ndef defaultStepNanos : Nat := {step}\n"));
    Ok(())
}

fn main() {
    let args: Vec<String> = std::env::args().collect();
    let repo = PathBuf::from(args.get(1).map(|s| s.as_str()).unwrap_or("/repo"));
    let out = PathBuf::from(args.get(2).map(|s| s.as_str()).unwrap_or("/verif/lean/SeliumModel/Gen"));
    std::fs::create_dir_all(&out).unwrap();
    let mut g = Gen { dir: out, written: vec![] };
    let steps: Vec<(&str, fn(&Path, &mut Gen) -> R<()>)> = vec![
        ("Backoff", gen_backoff),
        ("Frame", gen_frame),
        ("Topic", gen_topic),
        ("Server", gen_server),
        ("Tls", gen_tls),
        ("KeepAlive", gen_keepalive),
        ("Compression", gen_compression),
        ("Client", gen_client),
        ("Connection", gen_connection),
    ];
    let mut failed = false;
    for (name, f) in steps {
        if let Err(Shape(w)) = f(&repo, &mut g) {
            println!("SHAPE-CHANGED {name} {w}");
            failed = true;
        }
    }
    // the code itself (not facts about it): unavailable is not a shape failure, the hand-written model still stands
    if let Err(w) = gen_backoff_fn(&repo, &mut g) {
        println!("FNTIE-UNAVAILABLE BackoffFn {}", w.replace('\n', " "));
        let _ = std::fs::remove_file(g.dir.join("BackoffFn.lean"));
    }
    if let Err(w) = gen_codec_fn(&repo, &mut g) {
        println!("FNTIE-UNAVAILABLE CodecFn {}", w.replace('\n', " "));
        let _ = std::fs::remove_file(g.dir.join("CodecFn.lean"));
    }
    if let Err(w) = gen_batch_fn(&repo, &mut g) {
        println!("FNTIE-UNAVAILABLE BatchFn {}", w.replace('\n', " "));
        let _ = std::fs::remove_file(g.dir.join("BatchFn.lean"));
    }
    if let Err(w) = gen_topic_fn(&repo, &mut g) {
        println!("FNTIE-UNAVAILABLE TopicFn {}", w.replace('\n', " "));
        let _ = std::fs::remove_file(g.dir.join("TopicFn.lean"));
    }
    if let Err(w) = gen_msgbatch_fn(&repo, &mut g) {
        println!("FNTIE-UNAVAILABLE MsgBatchFn {}", w.replace('\n', " "));
        let _ = std::fs::remove_file(g.dir.join("MsgBatchFn.lean"));
    }
    println!("generated: {}", g.written.join(" "));
    if failed { std::process::exit(3); }
}

// ------------------------------------------------------------------------------------------ frames

use syn::{Fields, ImplItem, Pat, Type};

struct TypeEnv {
    structs: BTreeMap<String, Vec<(String, Type)>>,
    enums: BTreeMap<String, Vec<(String, Option<Type>)>>,
    aliases: BTreeMap<String, Type>,
    emitted: Vec<(String, String)>, // (lean def name, body) in dependency order
}

fn has_serde_attr(attrs: &[syn::Attribute]) -> bool {
    attrs.iter().any(|a| a.path().is_ident("serde"))
}

impl TypeEnv {
    fn new() -> Self { TypeEnv { structs: BTreeMap::new(), enums: BTreeMap::new(), aliases: BTreeMap::new(), emitted: vec![] } }
    fn absorb(&mut self, src: &Src) -> R<()> {
        for it in &src.ast.items {
            match it {
                Item::Struct(s) => {
                    if has_serde_attr(&s.attrs) { return shape(&src.rel, format!("struct {} carries a #[serde] attribute", s.ident)); }
                    let mut fs = vec![];
                    match &s.fields {
                        Fields::Named(n) => for f in &n.named {
                            if has_serde_attr(&f.attrs) { return shape(&src.rel, format!("field of {} carries a #[serde] attribute", s.ident)); }
                            fs.push((f.ident.as_ref().unwrap().to_string(), f.ty.clone()));
                        },
                        Fields::Unnamed(u) => for (i, f) in u.unnamed.iter().enumerate() { fs.push((format!("{i}"), f.ty.clone())); },
                        Fields::Unit => {}
                    }
                    self.structs.insert(s.ident.to_string(), fs);
                }
                Item::Enum(e) => {
                    if has_serde_attr(&e.attrs) { return shape(&src.rel, format!("enum {} carries a #[serde] attribute", e.ident)); }
                    let mut vs = vec![];
                    for v in &e.variants {
                        if has_serde_attr(&v.attrs) { return shape(&src.rel, format!("variant of {} carries a #[serde] attribute", e.ident)); }
                        let payload = match &v.fields {
                            Fields::Unit => None,
                            Fields::Unnamed(u) if u.unnamed.len() == 1 => Some(u.unnamed[0].ty.clone()),
                            _ => return shape(&src.rel, format!("enum {}::{}: only unit and newtype variants are understood", e.ident, v.ident)),
                        };
                        vs.push((v.ident.to_string(), payload));
                    }
                    self.enums.insert(e.ident.to_string(), vs);
                }
                Item::Type(t) => { self.aliases.insert(t.ident.to_string(), (*t.ty).clone()); }
                _ => {}
            }
        }
        Ok(())
    }
    /// Lean `Ty` expression for a Rust type as serde+bincode lay it out
    fn ty(&mut self, t: &Type, ctx: &str) -> R<String> {
        let p = match t { Type::Path(p) => p, _ => return shape(ctx, format!("unsupported type {}", quote::quote!(#t))) };
        let last = p.path.segments.last().unwrap();
        let name = last.ident.to_string();
        let args: Vec<&Type> = match &last.arguments {
            syn::PathArguments::AngleBracketed(a) => a.args.iter().filter_map(|g| if let syn::GenericArgument::Type(t) = g { Some(t) } else { None }).collect(),
            _ => vec![],
        };
        Ok(match (name.as_str(), args.len()) {
            ("u8", 0) => ".u8".into(),
            ("u32", 0) => ".u32".into(),
            ("u64", 0) => ".u64".into(),
            ("String", 0) => ".str".into(),
            ("Bytes", 0) => ".bytes".into(),
            ("Vec", 1) => format!("(.vec {})", self.ty(args[0], ctx)?),
            ("Option", 1) => format!("(.opt {})", self.ty(args[0], ctx)?),
            ("HashMap", 2) => format!("(.map {} {})", self.ty(args[0], ctx)?, self.ty(args[1], ctx)?),
            (n, 0) if self.aliases.contains_key(n) => { let a = self.aliases[n].clone(); self.ty(&a, ctx)? }
            (n, 0) if self.structs.contains_key(n) => self.named_struct(n, ctx)?,
            (n, 0) if self.enums.contains_key(n) => self.named_enum(n, ctx)?,
            _ => return shape(ctx, format!("type {} is not understood by the translator", quote::quote!(#t))),
        })
    }
    fn named_struct(&mut self, n: &str, ctx: &str) -> R<String> {
        let def = format!("ty{n}");
        if !self.emitted.iter().any(|(d, _)| d == &def) {
            let fields = self.structs[n].clone();
            let mut parts = vec![];
            for (_, t) in &fields { parts.push(self.ty(t, ctx)?); }
            self.emitted.push((def.clone(), format!(".struct [{}]", parts.join(", "))));
        }
        Ok(def)
    }
    fn named_enum(&mut self, n: &str, ctx: &str) -> R<String> {
        let def = format!("ty{n}");
        if !self.emitted.iter().any(|(d, _)| d == &def) {
            let vs = self.enums[n].clone();
            let mut parts = vec![];
            for (v, t) in &vs {
                match t { Some(t) => parts.push(self.ty(t, ctx)?), None => return shape(ctx, format!("enum {n}::{v}: unit variants inside payloads are not understood")) }
            }
            self.emitted.push((def.clone(), format!(".enum [{}]", parts.join(", "))));
        }
        Ok(def)
    }
}

fn find_method<'a>(ast: &'a syn::File, self_ty: &str, method: &str, trait_name: Option<&str>) -> Option<&'a syn::ImplItemFn> {
    for it in &ast.items {
        if let Item::Impl(im) = it {
            let ty = &im.self_ty;
            if quote::quote!(#ty).to_string() != self_ty { continue; }
            let tn = im.trait_.as_ref().map(|(_, p, _)| p.segments.last().unwrap().ident.to_string());
            if tn.as_deref() != trait_name { continue; }
            for ii in &im.items {
                if let ImplItem::Fn(f) = ii { if f.sig.ident == method { return Some(f); } }
            }
        }
    }
    None
}

/// the (single) `match` expression in a function body, possibly wrapped (`Ok(match ..)`, `let frame = match ..`)
fn find_match(block: &syn::Block) -> Option<syn::ExprMatch> {
    struct V(Option<syn::ExprMatch>);
    impl<'ast> syn::visit::Visit<'ast> for V {
        fn visit_expr_match(&mut self, m: &'ast syn::ExprMatch) {
            if self.0.is_none() { self.0 = Some(m.clone()); }
        }
    }
    let mut v = V(None);
    syn::visit::Visit::visit_block(&mut v, block);
    v.0
}

fn pat_variant(p: &Pat) -> Option<String> {
    match p {
        Pat::TupleStruct(t) => Some(t.path.segments.last().unwrap().ident.to_string()),
        Pat::Path(t) => Some(t.path.segments.last().unwrap().ident.to_string()),
        Pat::Ident(i) => Some(i.ident.to_string()),
        _ => None,
    }
}

/// Token-level matching that does not depend on what locals, parameters or private constants are called: both the
/// text and the pattern are split into tokens (punctuation separated); in the pattern `$` stands for any one
/// identifier / literal token. Returns the token index just after the first match at or after `from`.
fn toks(text: &str) -> Vec<String> {
    let mut out = vec![];
    let mut cur = String::new();
    for ch in text.chars() {
        if ch.is_alphanumeric() || ch == '_' { cur.push(ch); }
        else {
            if !cur.is_empty() { out.push(std::mem::take(&mut cur)); }
            if !ch.is_whitespace() { out.push(ch.to_string()); }
        }
    }
    if !cur.is_empty() { out.push(cur); }
    out
}

fn tfind(text: &[String], pat: &str, from: usize) -> Option<usize> {
    let p = toks(pat);
    if p.is_empty() || text.len() < p.len() { return None; }
    'outer: for i in from..=text.len() - p.len() {
        for (k, pt) in p.iter().enumerate() {
            let t = &text[i + k];
            let ok = if pt == "$" { t.chars().all(|c| c.is_alphanumeric() || c == '_') } else { pt == t };
            if !ok { continue 'outer; }
        }
        return Some(i + p.len());
    }
    None
}

fn thas(text: &str, pat: &str) -> bool { tfind(&toks(text), pat, 0).is_some() }

/// all of `pats` occur, in this order
fn tseq(text: &str, pats: &[&str]) -> bool {
    let t = toks(text);
    let mut at = 0;
    for p in pats { match tfind(&t, p, at) { Some(i) => at = i, None => return false } }
    true
}

/// the text followed by the bodies of the same-file functions it calls (two levels): a step that was moved into a
/// private helper is still seen
fn with_callees(text: &str, fns: &BTreeMap<String, syn::Block>) -> String {
    let mut out = text.to_string();
    let mut seen: Vec<String> = vec![];
    for _ in 0..2 {
        let t = toks(&out);
        let mut add = String::new();
        for (i, w) in t.iter().enumerate() {
            if let Some(b) = fns.get(w) {
                let called = t.get(i + 1).map(|n| n == "(" || n == ":").unwrap_or(false) || (i > 0 && (t[i - 1] == "(" || t[i - 1] == ","));
                if called && !seen.contains(w) { seen.push(w.clone()); add.push(' '); add.push_str(&quote::quote!(#b).to_string()); }
            }
        }
        if add.is_empty() { break; }
        out.push_str(&add);
    }
    out
}

fn body_kind(tokens: &str, patterns: &[(&str, &str)]) -> Option<String> {
    let mut hit: Option<String> = None;
    for (needle, kind) in patterns {
        if thas(tokens, needle) {
            if let Some(h) = &hit { if h != kind { return None; } }
            hit = Some(kind.to_string());
        }
    }
    hit
}

fn gen_frame(repo: &Path, g: &mut Gen) -> R<()> {
    let codec_rel = "protocol/src/codec.rs";
    let frame_rel = "protocol/src/frame.rs";
    let codec = Src::load(repo, codec_rel)?;
    let frame = Src::load(repo, frame_rel)?;
    let topic = Src::load(repo, "protocol/src/topic_name.rs")?;
    let oper = Src::load(repo, "protocol/src/operation.rs")?;
    // the constants of the codec by what they are, whatever they are called: the frame limit is the constant the
    // payload length is compared with, the two marker sizes are `size_of::<u64>()` and `size_of::<u8>()`, the
    // reserved size is the constant `decode` compares the buffer length with first
    let ccs = codec.consts();
    let cfns = all_fns(&codec.ast);
    let cval = |name: &str| -> R<u128> { let e = ccs.get(name).ok_or_else(|| Shape(format!("{codec_rel}: const {name} not found")))?; eval_int(e, &ccs).map_err(|w| Shape(format!("{codec_rel}: const {name}: {w}"))) };
    let by_expr = |want: &str| -> Option<String> { ccs.iter().find(|(_, e)| { let t = quote::quote!(#e).to_string(); toks(&t) == toks(want) }).map(|(n, _)| n.clone()) };
    let all_bodies: String = cfns.values().map(|b| quote::quote!(#b).to_string()).collect::<Vec<_>>().join(" ");
    let max_name = if ccs.contains_key("MAX_MESSAGE_SIZE") { "MAX_MESSAGE_SIZE".to_string() } else {
        let t = toks(&all_bodies);
        let mut found = None;
        for i in 0..t.len().saturating_sub(2) { if t[i + 1] == ">" && ccs.contains_key(&t[i + 2]) { found = Some(t[i + 2].clone()); break; } }
        found.ok_or_else(|| Shape(format!("{codec_rel}: no constant that a payload length is compared with (`length > LIMIT`)")))?
    };
    let max = cval(&max_name)?;
    let lenm = match by_expr("size_of :: < u64 > ()") { Some(n) => cval(&n)?, None => cval("LEN_MARKER_SIZE")? };
    let typm = match by_expr("size_of :: < u8 > ()") { Some(n) => cval(&n)?, None => cval("TYPE_MARKER_SIZE")? };
    let resv = if ccs.contains_key("RESERVED_SIZE") { cval("RESERVED_SIZE")? } else {
        let t = toks(&all_bodies);
        let mut found = None;
        for i in 0..t.len().saturating_sub(6) { if t[i] == "len" && t[i + 1] == "(" && t[i + 2] == ")" && t[i + 3] == "<" && ccs.contains_key(&t[i + 4]) { found = Some(t[i + 4].clone()); break; } }
        cval(&found.ok_or_else(|| Shape(format!("{codec_rel}: no constant the buffer length is compared with (`src.len() < RESERVED`)")))?)?
    };

    let mut env = TypeEnv::new();
    env.absorb(&frame)?; env.absorb(&topic)?; env.absorb(&oper)?;
    let variants = match env.enums.get("Frame") { Some(v) => v.clone(), None => return shape(frame_rel, "enum Frame not found") };
    let consts = frame.consts();
    let ffns = all_fns(&frame.ast);

    // get_type: variant -> tag
    let mut tag_of: BTreeMap<String, u128> = BTreeMap::new();
    let gt = find_method(&frame.ast, "Frame", "get_type", None).ok_or_else(|| Shape(format!("{frame_rel}: Frame::get_type not found")))?;
    let m = find_match(&gt.block).ok_or_else(|| Shape(format!("{frame_rel}: get_type has no match")))?;
    for arm in &m.arms {
        let v = pat_variant(&arm.pat).ok_or_else(|| Shape(format!("{frame_rel}: get_type arm pattern not understood")))?;
        let val = eval_int(&arm.body, &consts).map_err(|w| Shape(format!("{frame_rel}: get_type arm {v}: {w}")))?;
        tag_of.insert(v, val);
    }
    // get_length: variant -> body kind
    let mut len_body: BTreeMap<String, String> = BTreeMap::new();
    let gl = find_method(&frame.ast, "Frame", "get_length", None).ok_or_else(|| Shape(format!("{frame_rel}: Frame::get_length not found")))?;
    let m = find_match(&gl.block).ok_or_else(|| Shape(format!("{frame_rel}: get_length has no match")))?;
    for arm in &m.arms {
        let v = pat_variant(&arm.pat).ok_or_else(|| Shape(format!("{frame_rel}: get_length arm pattern not understood")))?;
        let b = &arm.body;
        let toks = quote::quote!(#b).to_string();
        let k = if toks.trim() == "0" || toks.trim() == "Ok (0)" { Some("empty".to_string()) } else {
            body_kind(&with_callees(&toks, &ffns), &[("bincode :: serialized_size (", "bincode"), ("$ . len ()", "raw")]) };
        match k { Some(k) => { len_body.insert(v, k); } None => return shape(frame_rel, format!("get_length arm {v} not understood: {toks}")) }
    }
    // write_to_bytes
    let mut write_body: BTreeMap<String, String> = BTreeMap::new();
    let wb = find_method(&frame.ast, "Frame", "write_to_bytes", None).ok_or_else(|| Shape(format!("{frame_rel}: Frame::write_to_bytes not found")))?;
    let m = find_match(&wb.block).ok_or_else(|| Shape(format!("{frame_rel}: write_to_bytes has no match")))?;
    for arm in &m.arms {
        let v = pat_variant(&arm.pat).ok_or_else(|| Shape(format!("{frame_rel}: write_to_bytes arm pattern not understood")))?;
        let b = &arm.body;
        let toks = quote::quote!(#b).to_string();
        let k = if toks.trim() == "()" { Some("empty".to_string()) } else {
            body_kind(&with_callees(&toks, &ffns), &[("bincode :: serialize_into (", "bincode"), ("$ . extend_from_slice (", "raw")]) };
        match k { Some(k) => { write_body.insert(v, k); } None => return shape(frame_rel, format!("write_to_bytes arm {v} not understood: {toks}")) }
    }
    // try_from: tag -> (variant, body kind), in source order
    let mut read: Vec<(u128, String, String)> = vec![];
    let tf = find_method(&frame.ast, "Frame", "try_from", Some("TryFrom")).ok_or_else(|| Shape(format!("{frame_rel}: TryFrom for Frame not found")))?;
    let m = find_match(&tf.block).ok_or_else(|| Shape(format!("{frame_rel}: try_from has no match")))?;
    let mut saw_default = false;
    for arm in &m.arms {
        let name = pat_variant(&arm.pat).ok_or_else(|| Shape(format!("{frame_rel}: try_from arm pattern not understood")))?;
        let b = &arm.body;
        let toks = quote::quote!(#b).to_string();
        if !consts.contains_key(&name) {
            // the catch-all arm must be the unknown-type error
            if !toks.contains("UnknownMessageType") { return shape(frame_rel, format!("try_from catch-all arm not understood: {toks}")); }
            saw_default = true;
            continue;
        }
        if saw_default { return shape(frame_rel, "try_from: arm after the catch-all"); }
        let tag = eval_int(&consts[&name], &consts).map_err(|w| Shape(format!("{frame_rel}: {name}: {w}")))?;
        // Frame::<Variant>(..) or Frame::<Variant>
        // (the arm may also wrap the frame in `Ok( … )` itself, and name the type `Self`)
        let inner = { let t = toks.trim(); let t = t.strip_prefix("{").and_then(|x| x.strip_suffix("}")).map(|x| x.trim()).unwrap_or(t); t.strip_prefix("Ok (").and_then(|x| x.strip_suffix(")")).map(|x| x.trim().to_string()).unwrap_or_else(|| t.to_string()) };
        let var = variants.iter().map(|(v, _)| v.clone()).find(|v| ["Frame", "Self"].iter().any(|ty| inner.contains(&format!("{ty} :: {v} (")) || inner == format!("{ty} :: {v}")));
        let var = match var { Some(v) => v, None => return shape(frame_rel, format!("try_from arm {name}: constructed variant not understood: {toks}")) };
        let k = if inner == format!("Frame :: {var}") || inner == format!("Self :: {var}") { Some("empty".to_string()) } else {
            body_kind(&with_callees(&toks, &ffns), &[("bincode :: deserialize (", "bincode"), ("( $ . into () )", "raw"), ("( $ . freeze () )", "raw")]) };
        match k { Some(k) => read.push((tag, var, k)), None => return shape(frame_rel, format!("try_from arm {name} not understood: {toks}")) }
    }
    if !saw_default { return shape(frame_rel, "try_from has no catch-all arm"); }

    // payload schemas
    let mut schema: BTreeMap<String, String> = BTreeMap::new();
    for (v, payload) in &variants {
        if let Some(t) = payload {
            let ts = quote::quote!(#t).to_string();
            if ts == "Bytes" { continue; }
            schema.insert(v.clone(), env.ty(t, frame_rel)?);
        }
    }
    let body_expr = |v: &str, k: &str| -> R<String> {
        Ok(match k {
            "bincode" => match schema.get(v) { Some(s) => format!(".bincode {s}"), None => return shape(frame_rel, format!("variant {v} is (de)serialised with bincode but has no payload struct")) },
            "raw" => ".raw".into(),
            _ => ".empty".into(),
        })
    };
    let mut s = String::new();
    let _ = writeln!(s, "open Selium.Bincode Selium.Wire\n");
    let _ = writeln!(s, "/-- `MAX_MESSAGE_SIZE` -/\ndef maxMessageSize : Nat := {max}\ndef lenMarkerSize : Nat := {lenm}\ndef typeMarkerSize : Nat := {typm}\n/-- `RESERVED_SIZE` -/\ndef reservedSize : Nat := {resv}\n");
    let _ = writeln!(s, "/-- the variants of `enum Frame`, in source order -/\ninductive Kind where");
    for (v, _) in &variants { let _ = writeln!(s, "  | {v}"); }
    let _ = writeln!(s, "  deriving DecidableEq, Repr\n");
    let _ = writeln!(s, "def Kind.all : List Kind := [{}]\n", variants.iter().map(|(v, _)| format!(".{v}")).collect::<Vec<_>>().join(", "));
    for (d, b) in &env.emitted { let _ = writeln!(s, "def {d} : Ty := {b}"); }
    let _ = writeln!(s, "\n/-- `Frame::get_type` -/\ndef tagOf : Kind → Nat");
    for (v, _) in &variants {
        match tag_of.get(v) { Some(t) => { let _ = writeln!(s, "  | .{v} => {t}"); } None => return shape(frame_rel, format!("get_type has no arm for {v}")) }
    }
    let _ = writeln!(s, "\n/-- the arms of `TryFrom<(u8, BytesMut)>`, in source order -/\ndef kindOfTag (t : Nat) : Option Kind :=");
    for (tag, v, _) in &read { let _ = writeln!(s, "  if t = {tag} then some .{v} else"); }
    let _ = writeln!(s, "  none\n");
    for (name, table) in [("lenBody", &len_body), ("writeBody", &write_body)] {
        let _ = writeln!(s, "def {name} : Kind → Body");
        for (v, _) in &variants {
            match table.get(v) { Some(k) => { let _ = writeln!(s, "  | .{v} => {}", body_expr(v, k)?); } None => return shape(frame_rel, format!("{name}: no arm for {v}")) }
        }
        let _ = writeln!(s);
    }
    let _ = writeln!(s, "def readBody : Kind → Body");
    for (v, _) in &variants {
        match read.iter().find(|(_, rv, _)| rv == v) { Some((_, _, k)) => { let _ = writeln!(s, "  | .{v} => {}", body_expr(v, k)?); } None => { let _ = writeln!(s, "  | .{v} => .empty  -- never produced by try_from"); } }
    }
    g.emit_with_imports("Frame", &["SeliumModel.Wire.Schema"], &[codec_rel, frame_rel, "protocol/src/topic_name.rs", "protocol/src/operation.rs"], &s);
    Ok(())
}

// ------------------------------------------------------------------------------------- topic names

use regex_syntax::hir::{Class, Hir, HirKind, Look};

fn regex_literal_of(src: &Src, name: &str) -> R<String> {
    let cs = src.consts();
    let e = cs.get(name).ok_or_else(|| Shape(format!("{}: static {name} not found", src.rel)))?;
    if let Expr::Macro(m) = e {
        let mac = m.mac.path.segments.last().unwrap().ident.to_string();
        if mac != "lazy_regex" { return shape(&src.rel, format!("{name} is built by {mac}!, not lazy_regex!")); }
        let lit: syn::LitStr = syn::parse2(m.mac.tokens.clone()).map_err(|e| Shape(format!("{}: {name}: macro argument is not one string literal ({e})", src.rel)))?;
        Ok(lit.value())
    } else {
        shape(&src.rel, format!("{name} is not a lazy_regex! invocation"))
    }
}

struct Comp { min: u32, max: u32, ranges: Vec<(u32, u32)> }

fn comp_of(h: &Hir, ctx: &str) -> R<Comp> {
    let h = match h.kind() { HirKind::Capture(c) => &*c.sub, _ => h };
    match h.kind() {
        HirKind::Repetition(r) => {
            let max = r.max.ok_or_else(|| Shape(format!("{ctx}: unbounded repetition")))?;
            if !r.greedy { return shape(ctx, "lazy repetition"); }
            match r.sub.kind() {
                HirKind::Class(Class::Unicode(u)) => Ok(Comp { min: r.min, max, ranges: u.ranges().iter().map(|x| (x.start() as u32, x.end() as u32)).collect() }),
                HirKind::Class(Class::Bytes(b)) => Ok(Comp { min: r.min, max, ranges: b.ranges().iter().map(|x| (x.start() as u32, x.end() as u32)).collect() }),
                _ => shape(ctx, "repetition of something that is not a character class"),
            }
        }
        _ => shape(ctx, "component is not a bounded repetition of a class"),
    }
}

fn lit_char(h: &Hir, ctx: &str) -> R<u32> {
    match h.kind() {
        HirKind::Literal(l) => {
            let s = std::str::from_utf8(&l.0).map_err(|_| Shape(format!("{ctx}: non-UTF-8 literal")))?;
            let mut it = s.chars();
            match (it.next(), it.next()) { (Some(c), None) => Ok(c as u32), _ => shape(ctx, format!("separator literal {s:?} is not one character")) }
        }
        _ => shape(ctx, "expected a literal"),
    }
}

fn gen_topic(repo: &Path, g: &mut Gen) -> R<()> {
    let rel = "protocol/src/topic_name.rs";
    let src = Src::load(repo, rel)?;
    let reserved = src.const_str("RESERVED_NAMESPACE")?;
    let topic_re = regex_literal_of(&src, "TOPIC_REGEX")?;
    let comp_re = regex_literal_of(&src, "COMPONENT_REGEX")?;
    let parse = |re: &str| regex_syntax::Parser::new().parse(re).map_err(|e| Shape(format!("{rel}: regex {re:?} does not parse: {e}")));
    let th = parse(&topic_re)?;
    let ch = parse(&comp_re)?;
    // ^ sep (C{m,n}) sep (C{m,n}) $
    let parts = match th.kind() { HirKind::Concat(v) => v.clone(), _ => return shape(rel, "TOPIC_REGEX is not a concatenation") };
    if parts.len() != 6 { return shape(rel, format!("TOPIC_REGEX has {} parts, expected ^ sep (comp) sep (comp) $", parts.len())); }
    if !matches!(parts[0].kind(), HirKind::Look(Look::Start)) || !matches!(parts[5].kind(), HirKind::Look(Look::End)) { return shape(rel, "TOPIC_REGEX is not anchored with ^ and $"); }
    if !matches!(parts[2].kind(), HirKind::Capture(_)) || !matches!(parts[4].kind(), HirKind::Capture(_)) { return shape(rel, "TOPIC_REGEX components are not capture groups"); }
    let sep1 = lit_char(&parts[1], rel)?;
    let sep2 = lit_char(&parts[3], rel)?;
    let ns = comp_of(&parts[2], rel)?;
    let tp = comp_of(&parts[4], rel)?;
    // ^ C{m,n} $
    let cparts = match ch.kind() { HirKind::Concat(v) => v.clone(), _ => return shape(rel, "COMPONENT_REGEX is not a concatenation") };
    if cparts.len() != 3 || !matches!(cparts[0].kind(), HirKind::Look(Look::Start)) || !matches!(cparts[2].kind(), HirKind::Look(Look::End)) { return shape(rel, "COMPONENT_REGEX is not ^class{m,n}$"); }
    let cc = comp_of(&cparts[1], rel)?;
    // how try_from slices before the reserved-prefix test, and Display
    let tf = find_method(&src.ast, "TopicName", "try_from", Some("TryFrom")).ok_or_else(|| Shape(format!("{rel}: TryFrom<&str> for TopicName not found")))?;
    let body = { let b = &tf.block; with_callees(&quote::quote!(#b).to_string(), &all_fns(&src.ast)) };
    let slicing = if thas(&body, "$ [1 ..] . starts_with (RESERVED_NAMESPACE)") { "index" }
        else if thas(&body, "$ . get (1 ..)") && thas(&body, "starts_with (RESERVED_NAMESPACE)") { "get" }
        else { return shape(rel, "try_from: the reserved-namespace test is not one of the understood forms") };
    let disp = find_method(&src.ast, "TopicName", "fmt", Some("Display")).ok_or_else(|| Shape(format!("{rel}: Display for TopicName not found")))?;
    let dbody = { let b = &disp.block; quote::quote!(#b).to_string() };
    if !dbody.contains("\"/{}/{}\" , self . namespace , self . topic") { return shape(rel, format!("Display is not \"/{{}}/{{}}\" of namespace and topic: {dbody}")); }
    let ranges = |c: &Comp| c.ranges.iter().map(|(a, b)| format!("({a}, {b})")).collect::<Vec<_>>().join(", ");
    let mut s = String::new();
    let _ = writeln!(s, "/-- `RESERVED_NAMESPACE` as code points -/\ndef reserved : List Nat := [{}]", reserved.chars().map(|c| (c as u32).to_string()).collect::<Vec<_>>().join(", "));
    let _ = writeln!(s, "/-- TOPIC_REGEX = {topic_re:?}: ^ sep1 (nsClass{{nsMin,nsMax}}) sep2 (tpClass{{tpMin,tpMax}}) $ -/");
    let _ = writeln!(s, "def sep1 : Nat := {sep1}\ndef sep2 : Nat := {sep2}\ndef nsMin : Nat := {}\ndef nsMax : Nat := {}\ndef tpMin : Nat := {}\ndef tpMax : Nat := {}", ns.min, ns.max, tp.min, tp.max);
    let _ = writeln!(s, "def nsClass : List (Nat × Nat) := [{}]", ranges(&ns));
    let _ = writeln!(s, "def tpClass : List (Nat × Nat) := [{}]", ranges(&tp));
    let _ = writeln!(s, "/-- COMPONENT_REGEX = {comp_re:?}: ^ compClass{{compMin,compMax}} $ -/");
    let _ = writeln!(s, "def compMin : Nat := {}\ndef compMax : Nat := {}\ndef compClass : List (Nat × Nat) := [{}]", cc.min, cc.max, ranges(&cc));
    let _ = writeln!(s, "/-- how `try_from` takes the part after the first byte: `true` = `value.get(1..)` (no panic), `false` = `value[1..]` -/\ndef checkedSlice : Bool := {}", if slicing == "get" { "true" } else { "false" });
    g.emit("Topic", &[rel, "regex-syntax (the parser and Unicode tables the regex crate uses)"], &s);
    Ok(())
}

// ------------------------------------------------------------------------------------------ server

/// all free functions and methods of a file, by name
fn all_fns(ast: &syn::File) -> BTreeMap<String, syn::Block> {
    let mut m = BTreeMap::new();
    fn walk(items: &[Item], m: &mut BTreeMap<String, syn::Block>) {
        for it in items {
            match it {
                Item::Fn(f) => { m.insert(f.sig.ident.to_string(), (*f.block).clone()); }
                Item::Impl(im) => for ii in &im.items { if let ImplItem::Fn(f) = ii { m.insert(f.sig.ident.to_string(), f.block.clone()); } },
                Item::Mod(md) => if let Some((_, items)) = &md.content { walk(items, m); },
                _ => {}
            }
        }
    }
    walk(&ast.items, &mut m);
    m
}

/// do these statements (lexically, or through a call to a function of the same file, up to `depth` levels) contain
/// an awaited `.send(..)` call?
fn has_awaited_send(stmts: &[syn::Stmt], fns: &BTreeMap<String, syn::Block>, depth: usize) -> bool {
    struct V<'a> { found: bool, fns: &'a BTreeMap<String, syn::Block>, depth: usize }
    impl<'ast, 'a> syn::visit::Visit<'ast> for V<'a> {
        fn visit_expr_await(&mut self, a: &'ast syn::ExprAwait) {
            match &*a.base {
                Expr::MethodCall(m) => {
                    if m.method == "send" { self.found = true; }
                    else if self.depth > 0 { if let Some(b) = self.fns.get(&m.method.to_string()) { if has_awaited_send(&b.stmts, self.fns, self.depth - 1) { self.found = true; } } }
                }
                Expr::Call(c) => {
                    if let Expr::Path(p) = &*c.func {
                        if let Some(seg) = p.path.segments.last() {
                            if self.depth > 0 { if let Some(b) = self.fns.get(&seg.ident.to_string()) { if has_awaited_send(&b.stmts, self.fns, self.depth - 1) { self.found = true; } } }
                        }
                    }
                }
                _ => {}
            }
            syn::visit::visit_expr_await(self, a);
        }
    }
    let mut v = V { found: false, fns, depth };
    for s in stmts { syn::visit::Visit::visit_stmt(&mut v, s); }
    v.found
}

/// every place where the guard of an async lock is bound by a `let` (`… .lock().await` / `.write().await` /
/// `.read().await`): the statements that follow it in its block, i.e. the guard's scope
fn lock_scopes(block: &syn::Block) -> Vec<Vec<syn::Stmt>> {
    struct F(Vec<Vec<syn::Stmt>>);
    impl<'ast> syn::visit::Visit<'ast> for F {
        fn visit_block(&mut self, b: &'ast syn::Block) {
            for (i, st) in b.stmts.iter().enumerate() {
                if let syn::Stmt::Local(l) = st {
                    if let Some(init) = &l.init {
                        let e = &init.expr;
                        let t = quote::quote!(#e).to_string();
                        // any async lock whose guard is bound here (the global topics lock, or whatever else a
                        // registration is made to queue behind)
                        let takes = ["lock ()", "write ()", "read ()"].iter().any(|k| t.trim_end().ends_with(&format!(". {k} . await")));
                        if takes { self.0.push(b.stmts[i + 1..].to_vec()); }
                    }
                }
            }
            syn::visit::visit_block(self, b);
        }
    }
    let mut f = F(vec![]);
    syn::visit::Visit::visit_block(&mut f, block);
    f.0
}

/// the capacity handed to `mpsc::channel(…)` in a router's `pair()`: a literal or a constant of the file
fn channel_capacity(src: &Src) -> R<u128> {
    let fns = all_fns(&src.ast);
    let cs = src.consts();
    for (_, b) in fns.iter() {
        let t = quote::quote!(#b).to_string();
        if let Some(at) = t.find("mpsc :: channel (") {
            let rest = &t[at + "mpsc :: channel (".len()..];
            let arg = rest.split(')').next().unwrap_or("").trim().to_string();
            if let Ok(v) = arg.replace('_', "").parse::<u128>() { return Ok(v); }
            if let Some(e) = cs.get(&arg) { return eval_int(e, &cs).map_err(|w| Shape(format!("{}: channel capacity {arg}: {w}", src.rel))); }
            return shape(&src.rel, format!("the capacity of the registration channel (`{arg}`) is neither a literal nor a constant of the file"));
        }
    }
    shape(&src.rel, "no `mpsc::channel(…)` call found")
}

fn gen_server(repo: &Path, g: &mut Gen) -> R<()> {
    let ps_rel = "server/src/topic/pubsub.rs";
    let rr_rel = "server/src/topic/reqrep.rs";
    let sv_rel = "server/src/server.rs";
    let codes_rel = "protocol/src/error_codes.rs";
    let ps = Src::load(repo, ps_rel)?;
    let rr = Src::load(repo, rr_rel)?;
    let sv = Src::load(repo, sv_rel)?;
    let codes = Src::load(repo, codes_rel)?;
    let ps_size = channel_capacity(&ps)?;
    let rr_size = channel_capacity(&rr)?;
    // registration: is an awaited send() (directly or through a function of the file) inside the scope of a guard of the
    // global topics lock, in `handle_stream` or any function it was split into? (the shutdown path, which takes the lock
    // to close the channels, is not part of registration)
    let fns = all_fns(&sv.ast);
    let hs = fns.get("handle_stream").ok_or_else(|| Shape(format!("{sv_rel}: fn handle_stream not found")))?;
    let mut scopes: Vec<Vec<syn::Stmt>> = vec![];
    for (name, b) in fns.iter() { if name != "shutdown" && name != "listen" { scopes.extend(lock_scopes(b)); } }
    if scopes.is_empty() { return shape(sv_rel, "no function of the file binds a guard of the `topics` lock in a let statement"); }
    let held = scopes.iter().any(|sc| has_awaited_send(sc, &fns, 3));
    // the connection's accept loop (the function that calls `accept_bi()`): is every `handle_stream(…)` call inside a
    // `spawn(…)`, i.e. does a registration that has to wait leave the loop free to accept the connection's next stream?
    let spawned = {
        let (name, acc) = fns.iter().find(|(_, b)| quote::quote!(#b).to_string().contains("accept_bi ()"))
            .ok_or_else(|| Shape(format!("{sv_rel}: no function calls accept_bi()")))?;
        let _ = name;
        struct V { depth: usize, inside: usize, outside: usize }
        impl<'ast> syn::visit::Visit<'ast> for V {
            fn visit_expr_call(&mut self, c: &'ast syn::ExprCall) {
                let f = &c.func;
                let ft = quote::quote!(#f).to_string();
                if ft.ends_with("spawn") { self.depth += 1; syn::visit::visit_expr_call(self, c); self.depth -= 1; return; }
                if ft.ends_with("handle_stream") { if self.depth > 0 { self.inside += 1 } else { self.outside += 1 } }
                syn::visit::visit_expr_call(self, c);
            }
        }
        let mut v = V { depth: 0, inside: 0, outside: 0 };
        syn::visit::Visit::visit_block(&mut v, acc);
        if v.inside + v.outside == 0 { return shape(sv_rel, "the accept loop does not call handle_stream"); }
        v.outside == 0
    };
    // the endpoint's accept loop (`listen`): what it awaits between two `accept()`s. Handing a connection to a task of its own
    // and the shutdown are all there is; anything else awaited there (a report, a query to a router) can be held up by a
    // topic and then no new connection is accepted.
    let loop_free = {
        let lb = fns.get("listen").ok_or_else(|| Shape(format!("{sv_rel}: fn listen not found")))?;
        let lt = quote::quote!(#lb).to_string();
        if !lt.contains("accept ()") { return shape(sv_rel, "listen(): no accept() call"); }
        let mut ok = true;
        let mut from = 0usize;
        while let Some(i) = lt[from..].find(". await") {
            let at = from + i;
            let start = lt[..at].rfind(|c| c == ';' || c == '{' || c == ',').map(|k| k + 1).unwrap_or(0);
            let mut call = lt[start..at].trim().to_string();
            if let Some(k) = call.rfind("=>") { call = call[k + 2..].trim().to_string(); }
            let call = call.trim_start_matches("let _ =").trim().to_string();
            if !(call.starts_with("self . connect (") || call.starts_with("self . shutdown (")) { ok = false; }
            from = at + 7;
        }
        // `connect` itself awaits nothing outside the task it spawns
        let cb = fns.get("connect").ok_or_else(|| Shape(format!("{sv_rel}: fn connect not found")))?;
        let ct = quote::quote!(#cb).to_string();
        let sp = ct.find("spawn (").unwrap_or(ct.len());
        if ct[..sp].contains(". await") { ok = false; }
        ok
    };
    let mut s = String::new();
    let _ = writeln!(s, "/-- {sv_rel}: between two `accept()`s the endpoint's loop awaits nothing but handing the connection to a task of its own, and the shutdown -/\ndef endpointLoopAwaitsNothingElse : Bool := {loop_free}");
    let _ = writeln!(s, "/-- {sv_rel}: the connection's accept loop hands every stream to a task of its own (`spawn(handle_stream(…))`) -/\ndef streamsHandledInOwnTasks : Bool := {spawned}");
    let _ = writeln!(s, "/-- `SOCK_CHANNEL_SIZE` of the pub/sub and request/reply routers -/\ndef pubsubChannelSize : Nat := {ps_size}\ndef reqrepChannelSize : Nat := {rr_size}");
    let _ = writeln!(s, "/-- does `handle_stream` await a channel `send` while the guard of the global `topics` lock is in scope? -/\ndef lockHeldAcrossSend : Bool := {}", held);
    for name in ["INVALID_TOPIC_NAME", "REPLIER_ALREADY_BOUND", "STREAM_CLOSED_PREMATURELY", "UNKNOWN_ERROR"] {
        let v = codes.const_int(name)?;
        let lean = name.to_lowercase().split('_').enumerate().map(|(i, w)| if i == 0 { w.to_string() } else { let mut c = w.chars(); c.next().unwrap().to_uppercase().collect::<String>() + c.as_str() }).collect::<String>();
        let _ = writeln!(s, "def {lean} : Nat := {v}");
    }
    // optional (added by a fix): the code for a registration of the wrong messaging pattern
    let mismatch = codes.const_int("TOPIC_PATTERN_MISMATCH").ok();
    let _ = writeln!(s, "/-- `TOPIC_PATTERN_MISMATCH`, if the source defines it -/\ndef topicPatternMismatch : Option Nat := {}", match mismatch { Some(v) => format!("some {v}"), None => "none".into() });
    // (looked for in every function of the file: `handle_stream` may have been split)
    let _ = hs;
    let body: String = fns.values().map(|b| quote::quote!(#b).to_string()).collect::<Vec<_>>().join(" ");
    let _ = writeln!(s, "/-- does `handle_stream` compare the topic's pattern with the registration before acknowledging? -/\ndef checksPattern : Bool := {}", body.contains("is_pubsub ()") && body.contains("TOPIC_PATTERN_MISMATCH"));
    // the acknowledgement of a registration: handed to the stream with `send` (which flushes) by the handler itself, so that the
    // peer has its answer whatever the topic's router is doing - or merely fed into the write buffer and left for whoever owns
    // the sink next to flush?
    let ack_flushed = !body.contains(". feed (");
    let _ = writeln!(s, "/-- {sv_rel}: registration answers (Ok / Error) are written with `send` (feed + flush) by the handler itself; no frame is merely `feed`-ed and left for the router to flush -/\ndef ackFlushedByHandler : Bool := {ack_flushed}");
    g.emit("Server", &[ps_rel, rr_rel, sv_rel, codes_rel], &s);
    Ok(())
}

// --------------------------------------------------------------------------------------------- TLS

fn fn_body_tokens(src: &Src, name: &str) -> R<String> {
    fn walk<'a>(items: &'a [Item], name: &str) -> Option<&'a syn::ItemFn> {
        for it in items {
            match it {
                Item::Fn(f) if f.sig.ident == name => return Some(f),
                Item::Mod(m) => if let Some((_, items)) = &m.content { if let Some(f) = walk(items, name) { return Some(f); } },
                _ => {}
            }
        }
        None
    }
    let f = walk(&src.ast.items, name).ok_or_else(|| Shape(format!("{}: fn {name} not found", src.rel)))?;
    let b = &f.block;
    Ok(quote::quote!(#b).to_string())
}

/// the name of the (first) `bool` parameter of a free function or method
fn bool_param(ast: &syn::File, fname: &str) -> Option<String> {
    fn of_sig(sig: &syn::Signature) -> Option<String> {
        for a in &sig.inputs {
            if let syn::FnArg::Typed(pt) = a {
                let ty = &pt.ty;
                if quote::quote!(#ty).to_string() == "bool" { let p = &pt.pat; return Some(quote::quote!(#p).to_string()); }
            }
        }
        None
    }
    for it in &ast.items {
        match it {
            Item::Fn(f) if f.sig.ident == fname => return of_sig(&f.sig),
            Item::Impl(im) => for ii in &im.items { if let ImplItem::Fn(f) = ii { if f.sig.ident == fname { return of_sig(&f.sig); } } },
            _ => {}
        }
    }
    None
}

/// Is every call of `method` in `block` control-dependent on `flag` being false — inside `if !flag { … }`, in the else
/// branch of `if flag { … } else { … }`, or after an `if flag { … return … }`? `None` if `method` is not called here.
fn call_only_when_false(block: &syn::Block, flag: &str, method: &str) -> Option<bool> {
    struct V<'a> { flag: &'a str, method: &'a str, ctx: bool, seen: Option<bool> }
    impl<'ast, 'a> syn::visit::Visit<'ast> for V<'a> {
        fn visit_expr_method_call(&mut self, m: &'ast syn::ExprMethodCall) {
            if m.method == self.method { self.seen = Some(self.seen.unwrap_or(true) && self.ctx); }
            syn::visit::visit_expr_method_call(self, m);
        }
        fn visit_expr_if(&mut self, i: &'ast syn::ExprIf) {
            let c = &i.cond;
            let ct = quote::quote!(#c).to_string();
            let saved = self.ctx;
            if ct == format!("! {}", self.flag) {
                self.ctx = true; self.visit_block(&i.then_branch); self.ctx = saved;
                if let Some((_, e)) = &i.else_branch { self.visit_expr(e); }
            } else if ct == self.flag {
                self.visit_block(&i.then_branch);
                if let Some((_, e)) = &i.else_branch { self.ctx = true; self.visit_expr(e); self.ctx = saved; }
            } else {
                syn::visit::visit_expr_if(self, i);
            }
        }
        fn visit_block(&mut self, b: &'ast syn::Block) {
            let saved = self.ctx;
            for st in &b.stmts {
                self.visit_stmt(st);
                // `if flag { … return … }` without else: what follows only runs when the flag is false
                if let syn::Stmt::Expr(Expr::If(i), _) = st {
                    let c = &i.cond;
                    let tb = &i.then_branch;
                    if quote::quote!(#c).to_string() == self.flag && i.else_branch.is_none() && quote::quote!(#tb).to_string().contains("return") { self.ctx = true; }
                }
            }
            self.ctx = saved;
        }
    }
    let mut v = V { flag, method, ctx: false, seen: None };
    syn::visit::Visit::visit_block(&mut v, block);
    v.seen
}

fn gen_tls(repo: &Path, g: &mut Gen) -> R<()> {
    let q_rel = "server/src/quic.rs";
    let c_rel = "client/src/connection.rs";
    let q = Src::load(repo, q_rel)?;
    let c = Src::load(repo, c_rel)?;
    let sc = fn_body_tokens(&q, "server_config")?;
    // which verifier of client certificates does the server install?
    let auth = if sc.contains("with_no_client_auth") { "none" }
        else if !sc.contains("with_client_cert_verifier (client_cert_verifier)") { return shape(q_rel, "server_config: no with_client_cert_verifier(client_cert_verifier) call") }
        else if sc.contains("AllowAnyAuthenticatedClient :: new (root_store)") { "requiredVerified" }
        else if sc.contains("AllowAnyAnonymousOrAuthenticatedClient :: new (root_store)") { "optionalVerified" }
        else if sc.contains("NoClientAuth") { "none" }
        else { return shape(q_rel, "server_config: the client certificate verifier is not one the translator knows") };
    let cc = fn_body_tokens(&c, "configure_client")?;
    let verifies = cc.contains("with_root_certificates (options . root_store)") && !cc.contains("dangerous") && !cc.contains("with_custom_certificate_verifier");
    let presents = cc.contains("with_client_auth_cert (options . certs , options . key)");
    let ce = fn_body_tokens(&c, "connect_to_endpoint")?;
    // endpoint.connect(addr, "<server name>")
    let name = match ce.find(". connect (addr , \"") {
        Some(i) => { let rest = &ce[i + ". connect (addr , \"".len()..]; match rest.find('"') { Some(j) => rest[..j].to_string(), None => return shape(c_rel, "connect_to_endpoint: server name literal not terminated") } }
        None => return shape(c_rel, "connect_to_endpoint: no connect(addr, \"<name>\") call with a literal server name"),
    };
    let alpn_s = q.consts().get("ALPN_QUIC_HTTP").map(|e| quote::quote!(#e).to_string()).unwrap_or_default();
    let alpn_c = c.consts().get("ALPN_QUIC_HTTP").map(|e| quote::quote!(#e).to_string()).unwrap_or_default();
    let mut s = String::new();
    let _ = writeln!(s, "inductive ClientAuth where\n  | requiredVerified   -- a client certificate is required and must chain to the configured roots\n  | optionalVerified   -- anonymous clients are let in\n  | none               -- no client authentication\n  deriving DecidableEq, Repr\n");
    let _ = writeln!(s, "/-- from `server_config` in {q_rel} -/\ndef serverClientAuth : ClientAuth := .{auth}");
    let _ = writeln!(s, "/-- from `configure_client` in {c_rel}: the server's chain is verified against the configured root store -/\ndef clientVerifiesServer : Bool := {verifies}");
    let _ = writeln!(s, "def clientPresentsCertificate : Bool := {presents}");
    let _ = writeln!(s, "/-- the name the client expects in the server's certificate (`endpoint.connect(addr, …)`) -/\ndef serverName : String := {name:?}");
    let _ = writeln!(s, "def sameAlpn : Bool := {}", alpn_s == alpn_c && !alpn_s.is_empty());
    // ---- the bundled certificate generator (tools/src/commands/gen_certs): what it puts into the three certificates
    let cb_rel = "tools/src/commands/gen_certs/certificate_builder.rs";
    let cg_rel = "tools/src/commands/gen_certs/cert_gen.rs";
    let kp_rel = "tools/src/commands/gen_certs/key_pair.rs";
    let vr_rel = "tools/src/commands/gen_certs/validity_range.rs";
    let cb = Src::load(repo, cb_rel)?;
    let cg = Src::load(repo, cg_rel)?;
    let kp = Src::load(repo, kp_rel)?;
    let vr = Src::load(repo, vr_rel)?;
    let cbf = all_fns(&cb.ast);
    let body_of = |fns: &BTreeMap<String, syn::Block>, name: &str, rel: &str| -> R<String> {
        let b = fns.get(name).ok_or_else(|| Shape(format!("{rel}: fn {name} not found")))?;
        Ok(with_callees(&quote::quote!(#b).to_string(), fns))
    };
    let entity = body_of(&cbf, "entity", cb_rel)?;
    let san = { let t = toks(&entity); match tfind(&t, "SanType :: DnsName (", 0) {
        // a string literal, or a constant of the file that is one
        Some(i) if t.get(i).map(|x| x == "\"").unwrap_or(false) => t.get(i + 1).cloned().unwrap_or_default(),
        Some(i) => { let name = t.get(i).cloned().unwrap_or_default(); match cb.consts().get(&name) { Some(e) => { let lit = quote::quote!(#e).to_string(); if lit.starts_with('"') && lit.ends_with('"') && lit.len() >= 2 { lit[1..lit.len() - 1].to_string() } else { return shape(cb_rel, format!("entity(): the DNS name `{name}` is not a string constant")) } } None => return shape(cb_rel, format!("entity(): the DNS name `{name}` is neither a literal nor a constant of the file")) } }
        None => return shape(cb_rel, "entity(): no SanType::DnsName(\"…\")") } };
    // (`toks` splits the string literal `"localhost"` into `"`, `localhost`, `"`)
    let eku_of = |name: &str| -> R<&'static str> {
        let b = body_of(&cbf, name, cb_rel)?;
        match (b.contains("ExtendedKeyUsagePurpose :: ServerAuth"), b.contains("ExtendedKeyUsagePurpose :: ClientAuth")) {
            (true, false) => Ok("serverAuth"), (false, true) => Ok("clientAuth"),
            _ => shape(cb_rel, format!("{name}(): does not name exactly one of ServerAuth / ClientAuth")),
        }
    };
    let server_eku = eku_of("server")?;
    let client_eku = eku_of("client")?;
    let ca_body = body_of(&cbf, "ca", cb_rel)?;
    let ca_is_ca = ca_body.contains("IsCa :: Ca (");
    let entity_is_ca = entity.contains("IsCa :: Ca (");
    // validity: `valid_for_days(<n>)` applied unless `no_expiry`, in the CA's and in the entities' construction
    let days_in = |src: &Src, rel: &str, fname: &str| -> R<(u128, bool)> {
        let fns = all_fns(&src.ast);
        let b = fns.get(fname).ok_or_else(|| Shape(format!("{rel}: fn {fname} not found")))?;
        let t = with_callees(&quote::quote!(#b).to_string(), &fns);
        let tk = toks(&t);
        let at = tfind(&tk, "valid_for_days (", 0).ok_or_else(|| Shape(format!("{rel}: {fname}(): no valid_for_days(…) call")))?;
        let arg = tk.get(at).cloned().unwrap_or_default();
        let cs = src.consts();
        let n = if let Ok(v) = arg.replace('_', "").parse::<u128>() { v } else if let Some(e) = cs.get(&arg) { eval_int(e, &cs).map_err(|w| Shape(format!("{rel}: {fname}(): {arg}: {w}")))? } else { return shape(rel, format!("{fname}(): the argument of valid_for_days (`{arg}`) is neither a literal nor a constant")) };
        if tk.get(at + 1).map(|x| x != ")").unwrap_or(true) { return shape(rel, format!("{fname}(): the argument of valid_for_days is not a single literal or constant")); }
        // is the call only reached when the function's boolean parameter (`no_expiry`) is false?
        let flag = bool_param(&src.ast, fname).ok_or_else(|| Shape(format!("{rel}: {fname}() has no bool parameter")))?;
        let guarded = call_only_when_false(b, &flag, "valid_for_days").ok_or_else(|| Shape(format!("{rel}: {fname}(): valid_for_days is called through a helper: cannot tell whether `{flag}` guards it")))?;
        Ok((n, guarded))
    };
    // the function that limits the validity is found by what it does, not by its name: the one with a boolean parameter whose
    // own body calls `valid_for_days` (a helper split off `build`, a renamed function: the facts are the same)
    let limiter = |src: &Src, rel: &str| -> R<String> {
        let fns = all_fns(&src.ast);
        let mut found: Vec<String> = fns.iter().filter(|(n, b)| quote::quote!(#b).to_string().contains("valid_for_days (") && bool_param(&src.ast, n).is_some()).map(|(n, _)| n.clone()).collect();
        found.sort();
        match found.len() { 1 => Ok(found.remove(0)), 0 => shape(rel, "no function with a bool parameter calls valid_for_days(…)"), _ => shape(rel, format!("several functions with a bool parameter call valid_for_days(…): {found:?}")) }
    };
    let (ca_days, ca_guarded) = days_in(&cg, cg_rel, &limiter(&cg, cg_rel)?)?;
    let (en_days, en_guarded) = days_in(&kp, kp_rel, &limiter(&kp, kp_rel)?)?;
    let signed = { let fns = all_fns(&kp.ast); fns.values().any(|b| quote::quote!(#b).to_string().contains("serialize_der_with_signer (")) };
    let vrb = { let fns = all_fns(&vr.ast); body_of(&fns, "new", vr_rel)? };
    let symmetric = tseq(&vrb, &["now_utc () . checked_sub ( $ )", "now_utc () . checked_add ( $ )"]);
    let sid = vr.const_int("SECONDS_IN_DAY").unwrap_or(86_400);
    let _ = writeln!(s, "\ninductive Eku where\n  | serverAuth | clientAuth\n  deriving DecidableEq, Repr\n");
    let _ = writeln!(s, "/-- {cb_rel}: the DNS name put into server and client certificates, their extended key usage, who is a CA -/\ndef genEntitySan : String := {san:?}\ndef genServerEku : Eku := .{server_eku}\ndef genClientEku : Eku := .{client_eku}\ndef genCaIsCa : Bool := {ca_is_ca}\ndef genEntityIsCa : Bool := {entity_is_ca}");
    let _ = writeln!(s, "/-- {kp_rel}: entity certificates are signed with the CA's key (`serialize_der_with_signer(ca)`) -/\ndef genEntitySignedByCa : Bool := {signed}");
    let _ = writeln!(s, "/-- {cg_rel}, {kp_rel}: `valid_for_days(n)`, skipped with `--no-expiry` (then the library's default dates apply) -/\ndef genCaValidityDays : Nat := {ca_days}\ndef genEntityValidityDays : Nat := {en_days}\ndef genNoExpirySkipsValidity : Bool := {}", ca_guarded && en_guarded);
    let _ = writeln!(s, "/-- {vr_rel}: the range is [now - n days, now + n days] -/\ndef genValiditySymmetric : Bool := {symmetric}\ndef genSecondsInDay : Nat := {sid}");
    g.emit("Tls", &[q_rel, c_rel, cb_rel, cg_rel, kp_rel, vr_rel], &s);
    Ok(())
}

// --------------------------------------------------------------------------------------- keep-alive

fn method_body<'a>(src: &'a Src, method: &str, nth: usize) -> Option<&'a syn::Block> {
    let mut k = 0;
    for it in &src.ast.items {
        if let Item::Impl(im) = it {
            for ii in &im.items {
                if let ImplItem::Fn(f) = ii {
                    if f.sig.ident == method { if k == nth { return Some(&f.block); } k += 1; }
                }
            }
        }
    }
    None
}

/// is a `let … = ….into_iter()` of the backoff strategy located inside the (first) `loop` of the block?
fn budget_inside_loop(b: &syn::Block) -> Option<bool> {
    struct V { depth: usize, found: Option<bool> }
    impl<'ast> syn::visit::Visit<'ast> for V {
        fn visit_expr_loop(&mut self, l: &'ast syn::ExprLoop) { self.depth += 1; syn::visit::visit_expr_loop(self, l); self.depth -= 1; }
        fn visit_local(&mut self, l: &'ast syn::Local) {
            if let Some(init) = &l.init {
                let e = &init.expr;
                let t = quote::quote!(#e).to_string();
                if t.contains(". clone () . into_iter ()") && t.starts_with("self .") && self.found.is_none() { self.found = Some(self.depth > 0); }
            }
            syn::visit::visit_local(self, l);
        }
    }
    let mut v = V { depth: 0, found: None };
    syn::visit::Visit::visit_block(&mut v, b);
    v.found
}

fn gen_keepalive(repo: &Path, g: &mut Gen) -> R<()> {
    let rr_rel = "client/src/keep_alive/reqrep.rs";
    let ps_rel = "client/src/keep_alive/pubsub.rs";
    let h_rel = "client/src/keep_alive/helpers.rs";
    let rq_rel = "client/src/streams/request_reply/requestor.rs";
    let rr = Src::load(repo, rr_rel)?;
    let ps = Src::load(repo, ps_rel)?;
    let h = Src::load(repo, h_rel)?;
    let rq = Src::load(repo, rq_rel)?;
    let listen = method_body(&rr, "listen", 0).ok_or_else(|| Shape(format!("{rr_rel}: fn listen not found")))?;
    let request = method_body(&rr, "request", 0).ok_or_else(|| Shape(format!("{rr_rel}: fn request not found")))?;
    // listen(): either the iterator is created inside the loop (every pass gets a fresh one), or it is created before
    // the loop and re-created in the arm for a stream that was cut off, while the arm for a refused registration
    // (another replier is bound) leaves it alone
    let listen_let_in_loop = budget_inside_loop(listen).ok_or_else(|| Shape(format!("{rr_rel}: listen(): no backoff iterator found")))?;
    let lt = quote::quote!(#listen).to_string();
    // the name of the local that holds the backoff iterator is whatever the code calls it
    // (`<name> = self.<field>.clone().into_iter()`: both names are whatever the code calls them)
    let (it_name, field) = {
        let pat = " . clone () . into_iter ()";
        let at = lt.find(pat).ok_or_else(|| Shape(format!("{rr_rel}: listen(): no `… = self.<strategy>.clone().into_iter()`")))?;
        let toks: Vec<&str> = lt[..at].split(' ').collect();
        let n = toks.len();
        if n < 5 || toks[n - 3] != "self" || toks[n - 2] != "." || toks[n - 4] != "=" { return shape(rr_rel, "listen(): the backoff iterator is not made by `<name> = self.<field>.clone().into_iter()`"); }
        (toks[n - 5].to_string(), toks[n - 1].to_string())
    };
    let reset_arm = lt.find(&format!("_ => {it_name} = self . {field} . clone () . into_iter ()"));
    let bind_arm = lt.find("Err (SeliumError :: OpenStream (code , _)) if is_bind_error (code) => ()");
    let listen_per = listen_let_in_loop || reset_arm.is_some();
    let refusal_counts = if listen_let_in_loop { false } else if let Some(r) = reset_arm { matches!(bind_arm, Some(b) if b < r) } else { true };
    if !lt.contains(&format!("self . try_reconnect (& mut {it_name}) . await ?")) { return shape(rr_rel, format!("listen(): no `self.try_reconnect(&mut {it_name}).await?`")); }
    let request_per = budget_inside_loop(request).ok_or_else(|| Shape(format!("{rr_rel}: request(): no backoff iterator found")))?;
    // pub/sub wrapper: the iterator is created when the status goes from Connected to Disconnected
    let on_dis = method_body(&ps, "on_disconnect", 0).ok_or_else(|| Shape(format!("{ps_rel}: fn on_disconnect not found")))?;
    let od = quote::quote!(#on_dis).to_string();
    let pubsub_per = od.contains("ConnectionStatus :: disconnected (self .");
    // where the pub/sub wrapper fires the task's waker itself: when the budget is exhausted (the `None` arm of
    // `….next()`, or the `else` block of a `let … = ….next() else`), after arming the next attempt, after a reconnection
    let wake_exhaust = {
        struct V { found: Option<bool> }
        impl<'ast> syn::visit::Visit<'ast> for V {
            fn visit_expr_match(&mut self, m: &'ast syn::ExprMatch) {
                let e = &m.expr;
                if quote::quote!(#e).to_string().ends_with(". next ()") {
                    for a in &m.arms {
                        let p = &a.pat;
                        if quote::quote!(#p).to_string() == "None" { let b = &a.body; self.found = Some(quote::quote!(#b).to_string().contains("wake_by_ref")); }
                    }
                }
                syn::visit::visit_expr_match(self, m);
            }
            fn visit_local(&mut self, l: &'ast syn::Local) {
                if let Some(init) = &l.init {
                    let e = &init.expr;
                    if quote::quote!(#e).to_string().ends_with(". next ()") {
                        if let Some((_, d)) = &init.diverge { self.found = Some(quote::quote!(#d).to_string().contains("wake_by_ref")); }
                    }
                }
                syn::visit::visit_local(self, l);
            }
        }
        let mut v = V { found: None };
        syn::visit::Visit::visit_block(&mut v, on_dis);
        v.found.ok_or_else(|| Shape(format!("{ps_rel}: on_disconnect: no `match ….next()` with a `None` arm and no `let … = ….next() else`")))?
    };
    let wake_arm = { let t = toks(&od); match tfind(&t, "$ . current_attempt =", 0) { Some(i) => tfind(&t, "wake_by_ref", i).is_some(), None => return shape(ps_rel, "on_disconnect: no assignment to `current_attempt`") } };
    let prc = method_body(&ps, "poll_reconnect", 0).ok_or_else(|| Shape(format!("{ps_rel}: fn poll_reconnect not found")))?;
    let wake_ok = {
        struct V { found: Option<bool> }
        impl<'ast> syn::visit::Visit<'ast> for V {
            fn visit_arm(&mut self, a: &'ast syn::Arm) {
                let p = &a.pat;
                let pt = quote::quote!(#p).to_string();
                if pt.starts_with("Poll :: Ready (Ok (") && a.guard.is_none() { let b = &a.body; self.found = Some(quote::quote!(#b).to_string().contains("wake_by_ref")); }
                syn::visit::visit_arm(self, a);
            }
        }
        let mut v = V { found: None };
        syn::visit::Visit::visit_block(&mut v, prc);
        v.found.ok_or_else(|| Shape(format!("{ps_rel}: poll_reconnect: no `Poll::Ready(Ok(_))` arm")))?
    };
    // poll_close while Disconnected: does it keep the reconnection going (poll it), or just answer Pending?
    let close_polls = {
        let pc = method_body(&ps, "poll_close", 0).ok_or_else(|| Shape(format!("{ps_rel}: fn poll_close not found")))?;
        struct V { found: Option<bool> }
        impl<'ast> syn::visit::Visit<'ast> for V {
            fn visit_arm(&mut self, a: &'ast syn::Arm) {
                let p = &a.pat;
                if quote::quote!(#p).to_string().starts_with("ConnectionStatus :: Disconnected") { let b = &a.body; self.found = Some(quote::quote!(#b).to_string().contains("poll_reconnect")); }
                syn::visit::visit_arm(self, a);
            }
        }
        let mut v = V { found: None };
        syn::visit::Visit::visit_block(&mut v, pc);
        v.found.ok_or_else(|| Shape(format!("{ps_rel}: poll_close: no `ConnectionStatus::Disconnected` arm")))?
    };
    // requestor: does on_reconnect start a reply reader for the new stream?
    let onr = method_body(&rq, "on_reconnect", 0).ok_or_else(|| Shape(format!("{rq_rel}: fn on_reconnect not found")))?;
    let onr_t = quote::quote!(#onr).to_string();
    let restarts = onr_t.contains("poll_replies (");
    // classification of errors
    let rec = fn_body_tokens(&h, "is_recoverable_error")?;
    let dis = fn_body_tokens(&h, "is_disconnect_error")?;
    let bind = fn_body_tokens(&h, "is_bind_error")?;
    let io_reset = dis.contains("ConnectionReset");
    let io_notconn = dis.contains("NotConnected");
    let quic_conn = rec.contains("SeliumError :: Quic (QuicError :: ConnectionError (_)) => true");
    let io_arm = rec.contains("SeliumError :: IoError (err) => is_disconnect_error (err)");
    let open_arm = rec.contains("SeliumError :: OpenStream (code , _) => is_bind_error (* code)");
    let default_false = rec.contains("_ => false");
    let bind_code = bind.contains("code == REPLIER_ALREADY_BOUND");
    if !default_false { return shape(h_rel, "is_recoverable_error: the catch-all arm is not `_ => false`"); }
    // the answer to a (re-)registration: a read error of the stream is handed on as it is (so that a connection lost at
    // that moment is classified like any other loss), it is not turned into an `OpenStream` refusal
    let sm_rel = "client/src/streams/mod.rs";
    let sm = Src::load(repo, sm_rel)?;
    let hr = { let fns = all_fns(&sm.ast); fns.get("handle_reply").cloned().ok_or_else(|| Shape(format!("{sm_rel}: fn handle_reply not found")))? };
    let read_err_passed = {
        struct V { found: Option<bool> }
        impl<'ast> syn::visit::Visit<'ast> for V {
            fn visit_arm(&mut self, a: &'ast syn::Arm) {
                let p = &a.pat;
                let pt = quote::quote!(#p).to_string();
                if let Some(rest) = pt.strip_prefix("Some (Err (") {
                    let var = rest.trim_end_matches(')').trim().to_string();
                    let b = &a.body;
                    let bt = quote::quote!(#b).to_string();
                    self.found = Some(bt == format!("Err ({var})") || bt == format!("{{ Err ({var}) }}") || bt == format!("return Err ({var})"));
                }
                syn::visit::visit_arm(self, a);
            }
        }
        let mut v = V { found: None };
        syn::visit::Visit::visit_block(&mut v, &hr);
        v.found.ok_or_else(|| Shape(format!("{sm_rel}: handle_reply: no `Some(Err(_))` arm")))?
    };
    let mut s = String::new();
    let _ = writeln!(s, "/-- {rr_rel}: does every outage (a stream that was serving and got cut off) get a fresh backoff iterator in `listen()` / `request()`? -/\ndef replierBudgetPerOutage : Bool := {listen_per}\ndef requestorBudgetPerOutage : Bool := {request_per}");
    let _ = writeln!(s, "/-- {rr_rel}: does a refused registration (another replier is bound) count against the current budget in `listen()`? -/\ndef replierRefusalCountsAsAttempt : Bool := {refusal_counts}");
    let _ = writeln!(s, "/-- {ps_rel}: `on_disconnect` builds a fresh `ReconnectState` from the strategy when the connection is lost -/\ndef pubsubBudgetPerOutage : Bool := {pubsub_per}");
    let _ = writeln!(s, "/-- {rq_rel}: `on_reconnect` starts a reply reader for the new stream -/\ndef requestorRestartsReader : Bool := {restarts}");
    let _ = writeln!(s, "/-- {h_rel}: `is_recoverable_error` -/\ndef ioConnectionResetRecoverable : Bool := {}\ndef ioNotConnectedRecoverable : Bool := {}\ndef quicConnectionErrorRecoverable : Bool := {quic_conn}\ndef replierAlreadyBoundRecoverable : Bool := {}",
        io_arm && io_reset, io_arm && io_notconn, open_arm && bind_code);
    let _ = writeln!(s, "/-- {ps_rel}: where the wrapper fires the task's waker itself (`cx.waker().wake_by_ref()`): when the budget is exhausted, after arming the next attempt, after a successful reconnection -/\ndef wakesOnExhaustion : Bool := {wake_exhaust}\ndef wakesAfterArmingAttempt : Bool := {wake_arm}\ndef wakesOnReconnect : Bool := {wake_ok}\n/-- {ps_rel}: `poll_close` polls the reconnection attempt while the wrapper is Disconnected -/\ndef closeKeepsReconnecting : Bool := {close_polls}");
    let _ = writeln!(s, "/-- {sm_rel}: `handle_reply` hands a read error of the stream on unchanged (a connection lost while a registration awaits its answer is an ordinary, recoverable loss) -/\ndef registrationReadErrorPassedOn : Bool := {read_err_passed}");
    g.emit("KeepAlive", &[rr_rel, ps_rel, h_rel, rq_rel, sm_rel], &s);
    Ok(())
}

// ----------------------------------------------------------------------------------------- shared connection

/// `client/src/connection.rs`: `ClientConnection::reconnect` is called by every stream of a `Client` that re-establishes
/// itself; all of them share the one connection. Is a new connection dialled (and `self.connection` replaced) only when the
/// current one is closed, i.e. is every replacement of `self.connection` inside an `if` whose condition asks for the close
/// reason of the current connection?
fn gen_connection(repo: &Path, g: &mut Gen) -> R<()> {
    let rel = "client/src/connection.rs";
    let src = Src::load(repo, rel)?;
    let body = method_body(&src, "reconnect", 0).ok_or_else(|| Shape(format!("{rel}: fn reconnect not found")))?;
    struct V { guarded: usize, replaced_inside: usize, replaced_outside: usize }
    fn replaces(t: &str) -> bool { t.contains("self . connection =") || (t.contains("replace (") && t.contains("& mut self . connection")) }
    impl<'ast> syn::visit::Visit<'ast> for V {
        fn visit_expr_if(&mut self, i: &'ast syn::ExprIf) {
            let c = &i.cond;
            let asks = { let t = quote::quote!(#c).to_string(); t.contains("close_reason") && !t.contains("is_none") && !t.trim_start().starts_with('!') };
            if asks { self.guarded += 1; syn::visit::visit_block(self, &i.then_branch); self.guarded -= 1; } else { syn::visit::visit_block(self, &i.then_branch); }
            if let Some((_, e)) = &i.else_branch { syn::visit::visit_expr(self, e); }
        }
        fn visit_stmt(&mut self, st: &'ast syn::Stmt) {
            // only statements that are not themselves compound: the visitor descends into blocks on its own
            let compound = matches!(st, syn::Stmt::Expr(syn::Expr::If(_) | syn::Expr::Block(_) | syn::Expr::Match(_) | syn::Expr::Loop(_) | syn::Expr::While(_) | syn::Expr::ForLoop(_), _));
            if !compound {
                let t = quote::quote!(#st).to_string();
                if replaces(&t) { if self.guarded > 0 { self.replaced_inside += 1; } else { self.replaced_outside += 1; } }
            }
            syn::visit::visit_stmt(self, st);
        }
    }
    let mut v = V { guarded: 0, replaced_inside: 0, replaced_outside: 0 };
    // the early-return form: `if <current connection is not closed> { return … }` guards everything after it
    for st in &body.stmts {
        if let syn::Stmt::Expr(syn::Expr::If(i), _) = st {
            let c = &i.cond;
            let t = quote::quote!(#c).to_string();
            let tb = &i.then_branch;
            let not_closed = t.contains("close_reason") && (t.contains("is_none") || t.trim_start().starts_with('!'));
            if not_closed && quote::quote!(#tb).to_string().contains("return") && i.else_branch.is_none() {
                syn::visit::Visit::visit_stmt(&mut v, st);
                v.guarded += 1;
                continue;
            }
        }
        syn::visit::Visit::visit_stmt(&mut v, st);
    }
    if v.replaced_inside + v.replaced_outside == 0 { return shape(rel, "reconnect(): `self.connection` is never replaced"); }
    let only_if_closed = v.replaced_outside == 0;
    let mut s = String::new();
    let _ = writeln!(s, "/-- {rel}: `ClientConnection::reconnect` replaces the shared connection only when the current one is closed (every replacement of `self.connection` sits under `if self.connection.close_reason().is_some()`) -/\ndef reconnectOnlyIfClosed : Bool := {only_if_closed}");
    g.emit("Connection", &[rel], &s);
    Ok(())
}

// -------------------------------------------------------------------------------------- compression

/// the arms of the `match self.library` in a `compress` / `decompress` method: library variant -> arm tokens (with the
/// bodies of the private helpers an arm calls). Also understood: `if let DeflateLibrary::X = self.library { … return … }`
/// followed by the other library's code.
fn library_arms(src: &Src, self_ty: &str, method: &str, tr: &str) -> R<Vec<(String, String)>> {
    let f = find_method(&src.ast, self_ty, method, Some(tr)).ok_or_else(|| Shape(format!("{}: impl {tr} for {self_ty}: fn {method} not found", src.rel)))?;
    let fns = all_fns(&src.ast);
    if let Some(m) = find_match(&f.block) {
        let scrut = &m.expr;
        if quote::quote!(#scrut).to_string() == "self . library" {
            let mut v = vec![];
            for a in &m.arms {
                let var = pat_variant(&a.pat).ok_or_else(|| Shape(format!("{}: {self_ty}::{method}: arm pattern not understood", src.rel)))?;
                if a.guard.is_some() { return shape(&src.rel, format!("{self_ty}::{method}: guarded arm")); }
                let b = &a.body;
                v.push((var, with_callees(&quote::quote!(#b).to_string(), &fns)));
            }
            return Ok(v);
        }
    }
    for (i, st) in f.block.stmts.iter().enumerate() {
        if let syn::Stmt::Expr(Expr::If(ifx), _) = st {
            if let Expr::Let(l) = &*ifx.cond {
                let e = &l.expr;
                if quote::quote!(#e).to_string() != "self . library" { continue; }
                let var = pat_variant(&l.pat).ok_or_else(|| Shape(format!("{}: {self_ty}::{method}: `if let` pattern not understood", src.rel)))?;
                let other = match var.as_str() { "Gzip" => "Zlib", "Zlib" => "Gzip", _ => return shape(&src.rel, format!("{self_ty}::{method}: unknown library variant {var}")) };
                let then = &ifx.then_branch;
                let then_t = with_callees(&quote::quote!(#then).to_string(), &fns);
                let rest_t = match &ifx.else_branch {
                    Some((_, eb)) => quote::quote!(#eb).to_string(),
                    None => {
                        if !thas(&then_t, "return") { return shape(&src.rel, format!("{self_ty}::{method}: the `if let` on the library neither has an else branch nor returns")); }
                        f.block.stmts[i + 1..].iter().map(|s| quote::quote!(#s).to_string()).collect::<Vec<_>>().join(" ")
                    }
                };
                return Ok(vec![(var, then_t), (other.to_string(), with_callees(&rest_t, &fns))]);
            }
        }
    }
    shape(&src.rel, format!("{self_ty}::{method}: no `match self.library` and no `if let … = self.library`"))
}

fn inherent_body(src: &Src, self_ty: &str, method: &str) -> R<String> {
    let f = find_method(&src.ast, self_ty, method, None).ok_or_else(|| Shape(format!("{}: {self_ty}::{method} not found", src.rel)))?;
    let b = &f.block;
    Ok(quote::quote!(#b).to_string())
}

fn trait_body(src: &Src, self_ty: &str, method: &str, tr: &str) -> R<String> {
    let f = find_method(&src.ast, self_ty, method, Some(tr)).ok_or_else(|| Shape(format!("{}: impl {tr} for {self_ty}: fn {method} not found", src.rel)))?;
    let b = &f.block;
    Ok(quote::quote!(#b).to_string())
}

fn gen_compression(repo: &Path, g: &mut Gen) -> R<()> {
    let dc_rel = "standard/src/compression/deflate/comp.rs";
    let dd_rel = "standard/src/compression/deflate/decomp.rs";
    let dt_rel = "standard/src/compression/deflate/types.rs";
    let dc = Src::load(repo, dc_rel)?;
    let dd = Src::load(repo, dd_rel)?;
    let dt = Src::load(repo, dt_rel)?;
    let fmt_of = |tokens: &str, rel: &str, gz: &str, zl: &str| -> R<&'static str> {
        match (tokens.contains(gz), tokens.contains(zl)) {
            (true, false) => Ok("gzip"),
            (false, true) => Ok("zlib"),
            _ => shape(rel, format!("an arm of the library match does not name exactly one of {gz} / {zl}")),
        }
    };
    let mut s = String::new();
    let _ = writeln!(s, "inductive Library where\n  | gzip | zlib\n  deriving DecidableEq, Repr\n");
    let _ = writeln!(s, "/-- the container format a flate2 encoder / decoder type speaks -/\ninductive Format where\n  | gzip | zlib\n  deriving DecidableEq, Repr\n");
    let lib_of = |v: &str, rel: &str| -> R<&'static str> { match v { "Gzip" => Ok("gzip"), "Zlib" => Ok("zlib"), _ => shape(rel, format!("unknown DeflateLibrary variant {v}")) } };
    // compress side
    let arms = library_arms(&dc, "DeflateComp", "compress", "Compress")?;
    let mut finished = true;
    let _ = writeln!(s, "/-- {dc_rel}: `match self.library` in `compress` -/\ndef deflateCompFormat : Library → Format");
    let mut seen = vec![];
    for (v, t) in &arms {
        let l = lib_of(v, dc_rel)?;
        let f = fmt_of(t, dc_rel, "GzEncoder", "ZlibEncoder")?;
        // the bytes are taken from `encoder.finish()?` after `write_all(&input)?`
        finished &= tseq(t, &["write_all (", "$ . finish () ?"]);
        let _ = writeln!(s, "  | .{l} => .{f}");
        seen.push(l);
    }
    if seen.len() != 2 || seen[0] == seen[1] { return shape(dc_rel, "compress: the library match does not have one arm per library"); }
    let _ = writeln!(s, "/-- every arm writes the whole input and takes the bytes from `finish()` -/\ndef deflateEncoderFinished : Bool := {finished}\n");
    // decompress side
    let arms = library_arms(&dd, "DeflateDecomp", "decompress", "Decompress")?;
    let _ = writeln!(s, "/-- {dd_rel}: `match self.library` in `decompress` -/\ndef deflateDecompFormat : Library → Format");
    let mut seen = vec![];
    let mut whole = true;
    for (v, t) in &arms {
        let l = lib_of(v, dd_rel)?;
        let f = fmt_of(t, dd_rel, "GzDecoder", "ZlibDecoder")?;
        whole &= tseq(t, &["$ :: new (", "read_to_end ( & mut $ ) ?"]);
        let _ = writeln!(s, "  | .{l} => .{f}");
        seen.push(l);
    }
    if seen.len() != 2 || seen[0] == seen[1] { return shape(dd_rel, "decompress: the library match does not have one arm per library"); }
    let _ = writeln!(s, "/-- every arm reads the whole input to its end -/\ndef deflateDecoderReadsAll : Bool := {whole}\n");
    // named constructors and the default
    for (side, src, ty, rel) in [("Comp", &dc, "DeflateComp", dc_rel), ("Decomp", &dd, "DeflateDecomp", dd_rel)] {
        for name in ["gzip", "zlib"] {
            let b = inherent_body(src, ty, name)?;
            let l = match (b.contains("DeflateLibrary :: Gzip"), b.contains("DeflateLibrary :: Zlib")) {
                (true, false) => "gzip", (false, true) => "zlib",
                _ => return shape(rel, format!("{ty}::{name}(): does not name exactly one DeflateLibrary variant")),
            };
            let _ = writeln!(s, "/-- {rel}: `{ty}::{name}()` -/\ndef deflate{side}Ctor_{name} : Library := .{l}");
        }
        let nb = inherent_body(src, ty, "new")?;
        if !nb.contains("library") { return shape(rel, format!("{ty}::new does not store the library it is given")); }
    }
    // `impl Default for DeflateLibrary { fn default() … }`, or `#[derive(Default)]` with `#[default]` on one variant
    let db = match trait_body(&dt, "DeflateLibrary", "default", "Default") {
        Ok(b) => b,
        Err(e) => {
            let mut marked: Option<String> = None;
            for it in &dt.ast.items {
                if let Item::Enum(en) = it {
                    if en.ident == "DeflateLibrary" && en.attrs.iter().any(|a| { let m = &a.meta; let t = quote::quote!(#m).to_string(); t.starts_with("derive") && t.contains("Default") }) {
                        for v in &en.variants { if v.attrs.iter().any(|a| a.path().is_ident("default")) { marked = Some(v.ident.to_string()); } }
                    }
                }
            }
            match marked { Some(v) => v, None => return Err(e) }
        }
    };
    let dl = match (db.contains("Gzip"), db.contains("Zlib")) { (true, false) => "gzip", (false, true) => "zlib", _ => return shape(dt_rel, "Default for DeflateLibrary not understood") };
    let _ = writeln!(s, "/-- {dt_rel}: `Default for DeflateLibrary` (both halves derive `Default` from it) -/\ndef deflateDefault : Library := .{dl}\n");
    // the single-format algorithms: which library entry points the two halves use
    let pairs: [(&str, &str, &str, &str, &str, &[&str], &[&str]); 3] = [
        ("zstd", "standard/src/compression/zstd/comp.rs", "ZstdComp", "standard/src/compression/zstd/decomp.rs", "ZstdDecomp",
            &["zstd :: encode_all (", ") ?"], &["zstd :: decode_all (", ") ?"]),
        ("lz4", "standard/src/compression/lz4/comp.rs", "Lz4Comp", "standard/src/compression/lz4/decomp.rs", "Lz4Decomp",
            &["FrameEncoder :: new (", "write_all (", "$ . finish () ?"], &["FrameDecoder :: new (", "read_to_end ( & mut $ ) ?"]),
        ("brotli", "standard/src/compression/brotli/comp.rs", "BrotliComp", "standard/src/compression/brotli/decomp.rs", "BrotliDecomp",
            &["CompressorWriter :: with_params (", "write_all (", "$ . flush () ?", "$ . into_inner ()"], &["Decompressor :: new (", "read_to_end ( & mut $ ) ?"]),
    ];
    let mut sources = vec![dc_rel, dd_rel, dt_rel];
    for (name, c_rel, c_ty, d_rel, d_ty, c_need, d_need) in pairs {
        let c = Src::load(repo, c_rel)?;
        let d = Src::load(repo, d_rel)?;
        let cb = with_callees(&trait_body(&c, c_ty, "compress", "Compress")?, &all_fns(&c.ast));
        let db = with_callees(&trait_body(&d, d_ty, "decompress", "Decompress")?, &all_fns(&d.ast));
        // the steps must all be present and in this order (whatever the locals and private constants are called)
        let in_order = |body: &str, need: &[&str]| -> bool { tseq(body, need) };
        let _ = writeln!(s, "/-- {c_rel}: `compress` is the library's whole-input encoder, finalised before the bytes are taken -/\ndef {name}CompWhole : Bool := {}", in_order(&cb, c_need));
        let _ = writeln!(s, "/-- {d_rel}: `decompress` is the matching whole-input decoder -/\ndef {name}DecompWhole : Bool := {}", in_order(&db, d_need));
        sources.push(c_rel); sources.push(d_rel);
    }
    g.emit("Compression", &sources, &s);
    Ok(())
}

// ------------------------------------------------------------------------------------------- client

/// does the body call `self.<method>(…)` (a method calling itself: one stack frame per round)?
fn calls_self_method(b: &syn::Block, method: &str) -> bool {
    struct V<'a> { method: &'a str, found: bool }
    impl<'ast, 'a> syn::visit::Visit<'ast> for V<'a> {
        fn visit_expr_method_call(&mut self, m: &'ast syn::ExprMethodCall) {
            let r = &m.receiver;
            let recv = quote::quote!(#r).to_string();
            if m.method == self.method && (recv == "self" || recv.starts_with("self .") || recv.starts_with("Pin :: new (")) { self.found = true; }
            syn::visit::visit_expr_method_call(self, m);
        }
    }
    let mut v = V { method, found: false };
    syn::visit::Visit::visit_block(&mut v, b);
    v.found || quote::quote!(#b).to_string().contains(&format!("Self :: {method} ("))
}

fn gen_client(repo: &Path, g: &mut Gen) -> R<()> {
    let sub_rel = "client/src/streams/pubsub/subscriber.rs";
    let sub = Src::load(repo, sub_rel)?;
    let mut pn = None;
    for it in &sub.ast.items {
        if let Item::Impl(im) = it {
            let ty = &im.self_ty;
            let is_sub = quote::quote!(#ty).to_string().starts_with("Subscriber");
            let is_stream = im.trait_.as_ref().map(|(_, p, _)| p.segments.last().unwrap().ident == "Stream").unwrap_or(false);
            if is_sub && is_stream {
                for ii in &im.items { if let ImplItem::Fn(f) = ii { if f.sig.ident == "poll_next" { pn = Some(f); } } }
            }
        }
    }
    let pn = pn.ok_or_else(|| Shape(format!("{sub_rel}: `impl Stream for Subscriber` has no fn poll_next")))?;
    // `self.poll_next(cx)` / `self.as_mut().poll_next(cx)` inside poll_next: the subscriber re-enters itself for the
    // frame after a batch; `self.stream.poll_next_unpin(cx)` (the inner stream) is a different method
    // … directly, or through other methods of `Subscriber` that call each other (a cycle reachable from `poll_next`)
    let recurses = {
        let mut methods: BTreeMap<String, syn::Block> = BTreeMap::new();
        for it in &sub.ast.items {
            if let Item::Impl(im) = it {
                let ty = &im.self_ty;
                if quote::quote!(#ty).to_string().starts_with("Subscriber") {
                    for ii in &im.items { if let ImplItem::Fn(f) = ii { methods.insert(f.sig.ident.to_string(), f.block.clone()); } }
                }
            }
        }
        let calls = |b: &syn::Block| -> Vec<String> { methods.keys().filter(|m| calls_self_method(b, m)).cloned().collect() };
        // depth-first search from poll_next: a method met again while it is still on the stack closes a cycle
        fn dfs(m: &str, methods: &BTreeMap<String, syn::Block>, calls: &dyn Fn(&syn::Block) -> Vec<String>, stack: &mut Vec<String>, done: &mut Vec<String>) -> bool {
            if stack.iter().any(|x| x == m) { return true; }
            if done.iter().any(|x| x == m) { return false; }
            stack.push(m.to_string());
            let mut cyc = false;
            if let Some(b) = methods.get(m) { for c in calls(b) { if dfs(&c, methods, calls, stack, done) { cyc = true; break; } } }
            stack.pop();
            done.push(m.to_string());
            cyc
        }
        calls_self_method(&pn.block, "poll_next") || dfs("poll_next", &methods, &calls, &mut vec![], &mut vec![])
    };
    let mut s = String::new();
    let _ = writeln!(s, "/-- {sub_rel}: does `Subscriber::poll_next` call itself (one stack frame per frame that yields nothing)? -/\ndef subscriberPollNextRecurses : Bool := {recurses}");
    // requestor: is the hand-over of the request to the transport (`….send(frame)`) inside the future that
    // `tokio::time::timeout(self.request_timeout, …)` bounds, or before it?
    let rq_rel = "client/src/streams/request_reply/requestor.rs";
    let rq = Src::load(repo, rq_rel)?;
    let req = method_body(&rq, "request", 0).ok_or_else(|| Shape(format!("{rq_rel}: fn request not found")))?;
    let rt = quote::quote!(#req).to_string();
    let at = rt.find("timeout (self . request_timeout ,").ok_or_else(|| Shape(format!("{rq_rel}: request(): no `timeout(self.request_timeout, …)`")))?;
    let mut depth = 0i32;
    let mut end = rt.len();
    for (i, ch) in rt[at..].char_indices() {
        match ch { '(' => depth += 1, ')' => { depth -= 1; if depth == 0 { end = at + i; break; } } _ => {} }
    }
    let bounded = &rt[at..end];
    // … and is the shared write half's lock taken inside that future too (waiting for it is part of handing the request over:
    // a clone whose send is stuck holds it), not in a statement before the timeout starts?
    let lock_outside = rt[..at].split(';').any(|st| st.contains("write_half") && (st.contains(". lock ()") || st.contains(". lock_owned ()")) && st.contains(". await"));
    let send_inside = bounded.contains(". send (");
    let covers = send_inside && !lock_outside;
    if !send_inside && !rt[..at].contains(". send (") { return shape(rq_rel, "request(): no `.send(…)` before or inside the timeout"); }
    let _ = writeln!(s, "/-- {rq_rel}: does the per-request timeout also bound handing the request to the transport (`send(frame)`)? -/\ndef requestTimeoutCoversSend : Bool := {covers}");
    // what a call awaits OUTSIDE that future (where nothing bounds the wait): in `request()` only its own `queue_request()`, in
    // `queue_request()` only the pending map's lock (held for one insert). Anything else - a semaphore, the reply channel, a
    // transport operation - is a wait the caller's timeout does not cover.
    let outside_ok = {
        // awaited expressions of a block, not descending into the arguments of a `timeout(…)` call
        struct V { outside: Vec<String> }
        impl<'ast> syn::visit::Visit<'ast> for V {
            fn visit_expr_await(&mut self, a: &'ast syn::ExprAwait) {
                let b = &a.base;
                let bt = quote::quote!(#b).to_string();
                if bt.starts_with("tokio :: time :: timeout (") || bt.starts_with("timeout (") || bt.starts_with("time :: timeout (") { return; }
                self.outside.push(bt);
                syn::visit::visit_expr_await(self, a);
            }
            fn visit_expr_call(&mut self, c: &'ast syn::ExprCall) {
                let f = &c.func;
                if quote::quote!(#f).to_string().ends_with("timeout") { return; }
                syn::visit::visit_expr_call(self, c);
            }
        }
        let mut v = V { outside: vec![] };
        syn::visit::Visit::visit_block(&mut v, req);
        let in_request_ok = v.outside.iter().all(|x| x == "self . queue_request ()");
        let qr = method_body(&rq, "queue_request", 0).ok_or_else(|| Shape(format!("{rq_rel}: fn queue_request not found")))?;
        let mut w = V { outside: vec![] };
        syn::visit::Visit::visit_block(&mut w, qr);
        let in_queue_ok = w.outside.iter().all(|x| x == "self . pending_requests . lock ()");
        in_request_ok && in_queue_ok
    };
    let reply_inside = bounded.contains("rx . await") || bounded.contains("rx.await");
    let _ = writeln!(s, "/-- {rq_rel}: outside the future bounded by the request timeout a call awaits nothing but the pending map's lock (for one insert), and the wait for the reply is inside it -/\ndef requestWaitsAreTimed : Bool := {}", outside_ok && reply_inside);
    // the request id counter shared by a requestor and its clones: how many bits before it wraps
    let id_rel = "protocol/src/request_id.rs";
    let id = Src::load(repo, id_rel)?;
    let idt = { let a = &id.ast; quote::quote!(#a).to_string() };
    let bits = ["AtomicU64", "AtomicU32", "AtomicU16", "AtomicU8", "AtomicUsize"].iter().find(|t| idt.contains(&format!("struct RequestId ({t})")) || idt.contains(&format!(": {t}")))
        .map(|t| match *t { "AtomicU64" | "AtomicUsize" => 64, "AtomicU32" => 32, "AtomicU16" => 16, _ => 8 })
        .ok_or_else(|| Shape(format!("{id_rel}: RequestId does not wrap an atomic unsigned counter")))?;
    // (`next_id` returns u32: a wider counter is truncated to 32 bits by the header's type)
    let bits = std::cmp::min(bits, 32);
    let _ = writeln!(s, "/-- {id_rel}: width of the request id counter (ids repeat after 2^bits calls on one requestor and its clones) -/\ndef requestIdBits : Nat := {bits}");
    g.emit("Client", &[sub_rel, rq_rel, id_rel], &s);
    Ok(())
}

// ------------------------------------------------------------------------ pure functions → Lean definitions
//
// A second kind of output: not a *fact about* the code but the code itself. A small subset of Rust (integer and
// `Duration` arithmetic, `let`, `if`, `match` over `Option` / `Result` / field-less or tuple enums, early `return`,
// assignments to locals and to one `self` field, struct literals, calls of free functions of the same file) is
// printed as a Lean definition over the prelude `SeliumModel/Rs.lean` (machine operations with their widths).
// `Lemmas/BackoffGen.lean` then proves that the *generated* definitions equal the hand-written model for every
// argument. When a function leaves the subset the translator says `FNTIE-UNAVAILABLE` (never SHAPE-CHANGED):
// the hand-written model and the correspondence runs still decide the property; `check` then only looks harder.

type FR<T> = Result<T, String>;
type FEnv = BTreeMap<String, String>;

fn ty_str(t: &Type) -> String { quote::quote!(#t).to_string().replace(' ', "") }
fn int_bits(t: &str) -> Option<u32> {
    Some(match t { "u8" => 8, "u16" => 16, "u32" => 32, "u64" | "usize" => 64, "u128" => 128, _ => return None })
}
fn opt_inner(t: &str) -> String {
    if let Some(r) = t.strip_prefix("Option<") { return r.trim_end_matches('>').to_string(); }
    "?".into()
}

struct FnTr {
    consts: BTreeMap<String, Expr>,
    structs: BTreeMap<String, Vec<(String, String)>>,
    enums: BTreeMap<String, Vec<(String, Vec<String>)>>,
    fns: BTreeMap<String, (Vec<(String, String)>, String)>,
    self_ty: Option<String>,
    self_reads: std::cell::RefCell<BTreeMap<String, String>>,
    /// the function returns `Result<_, _>` and threads a `&mut BytesMut` named like this: `Ok(v)` is `Rs.Out.ok v`, every way
    /// out of the function pairs the value with the buffer's current contents, operations that can panic are matches
    buf: Option<String>,
    /// external functions taken as parameters of the generated definition (path -> Lean name)
    externs: BTreeMap<String, String>,
    /// methods of values of an external type, taken as parameters too (method -> (Lean name, Rust return type))
    extern_methods: BTreeMap<String, (String, String)>,
    /// what the end of a statement list means when it is a loop body: the next iteration
    tail_k: std::cell::RefCell<Option<String>>,
    /// loops found on the way, printed as definitions of their own in front of the function
    loops: std::cell::RefCell<Vec<String>>,
    fn_name: std::cell::RefCell<String>,
    /// string constants mentioned (printed as code-point lists) and `STATIC.method(..)` calls taken as parameters
    str_consts: std::cell::RefCell<BTreeMap<String, String>>,
    static_calls: std::cell::RefCell<BTreeMap<String, String>>,
    /// `&self` methods already printed: name -> (the flattened `self` fields they read, their other parameters, return type)
    methods: std::cell::RefCell<BTreeMap<String, (Vec<(String, String)>, usize, String)>>,
}

impl FnTr {
    fn lean_ty(&self, t: &str) -> FR<String> {
        if int_bits(t).is_some() || t == "Duration" { return Ok("Nat".into()); }
        if t == "String" || t == "&str" { return Ok("List Nat".into()); }
        if t == "Instant" { return Ok("Nat".into()); }
        if t == "Vec<Bytes>" { return Ok("List (List UInt8)".into()); }
        if t.starts_with("Option<") { return Ok(format!("Option {}", self.lean_ty(&opt_inner(t))?)); }
        if self.enums.contains_key(t) || self.structs.contains_key(t) { return Ok(t.to_string()); }
        Err(format!("type {t} is outside the translated subset"))
    }
    fn self_field(&self, e: &Expr) -> FR<(String, String)> {
        // self.a.b  ->  ("self_a_b", type of b)
        let mut chain = vec![];
        let mut cur = e;
        loop {
            match cur {
                Expr::Field(f) => {
                    match &f.member { syn::Member::Named(i) => chain.push(i.to_string()), _ => return Err("tuple field".into()) }
                    cur = &f.base;
                }
                Expr::Path(p) if p.path.is_ident("self") => break,
                _ => return Err("field access on something other than self".into()),
            }
        }
        chain.reverse();
        let mut ty = self.self_ty.clone().ok_or("self outside an impl")?;
        for f in &chain {
            let fs = self.structs.get(&ty).ok_or_else(|| format!("struct {ty} not found"))?;
            ty = fs.iter().find(|(n, _)| n == f).ok_or_else(|| format!("field {f} of {ty} not found"))?.1.clone();
        }
        let name = format!("self_{}", chain.join("_"));
        self.self_reads.borrow_mut().insert(name.clone(), ty.clone());
        Ok((name, ty))
    }
    fn expr(&self, e: &Expr, env: &FEnv) -> FR<(String, String)> {
        match e {
            Expr::Lit(l) => match &l.lit {
                syn::Lit::Int(i) => Ok((i.base10_digits().to_string(), if i.suffix().is_empty() { "?".into() } else { i.suffix().to_string() })),
                _ => Err("literal that is not an integer".into()),
            },
            Expr::Paren(p) => self.expr(&p.expr, env),
            Expr::Reference(r) => self.expr(&r.expr, env),
            Expr::Group(p) => self.expr(&p.expr, env),
            Expr::Path(p) => {
                let segs: Vec<String> = p.path.segments.iter().map(|s| s.ident.to_string()).collect();
                if segs.len() == 1 {
                    let n = &segs[0];
                    if let Some(t) = env.get(n) { return Ok((n.clone(), t.clone())); }
                    if let Some(Expr::Lit(l)) = self.consts.get(n) {
                        if let syn::Lit::Str(st) = &l.lit {
                            let pts: Vec<String> = st.value().chars().map(|c| (c as u32).to_string()).collect();
                            self.str_consts.borrow_mut().insert(n.clone(), format!("[{}]", pts.join(", ")));
                            return Ok((n.clone(), "&str".into()));
                        }
                    }
                    if let Some(c) = self.consts.get(n) { return Ok((eval_int(c, &self.consts)?.to_string(), "?".into())); }
                    if n == "None" { return Ok(("none".into(), "Option<?>".into())); }
                    return Err(format!("unknown name {n}"));
                }
                if segs == ["Duration", "MAX"] { return Ok(("Rs.DMAX".into(), "Duration".into())); }
                if segs.len() == 2 && self.enums.contains_key(&segs[0]) { return Ok((format!("{}.{}", segs[0], segs[1]), segs[0].clone())); }
                if segs.len() == 2 && segs[1] == "MAX" { if let Some(b) = int_bits(&segs[0]) { return Ok((format!("(2^{b} - 1)"), segs[0].clone())); } }
                Err(format!("path {}", segs.join("::")))
            }
            Expr::Field(_) => self.self_field(e),
            Expr::Cast(c) => {
                let (s, t) = self.expr(&c.expr, env)?;
                let target = ty_str(&c.ty);
                match (int_bits(&t), int_bits(&target)) {
                    (Some(a), Some(b)) if a <= b => Ok((s, target)),
                    (_, Some(b)) => Ok((format!("(Rs.cast {b} {s})"), target)),
                    _ => Err(format!("cast to {target}")),
                }
            }
            Expr::Binary(b) => {
                let (l, tl) = self.expr(&b.left, env)?;
                let (r, tr) = self.expr(&b.right, env)?;
                let t = if tl != "?" { tl } else { tr };
                use syn::BinOp::*;
                let (op, t) = match b.op {
                    Add(_) => ("+", t), Sub(_) => ("-", t), Mul(_) => ("*", t), Div(_) => ("/", t), Rem(_) => ("%", t),
                    Gt(_) => (">", "bool".into()), Lt(_) => ("<", "bool".into()), Ge(_) => ("≥", "bool".into()), Le(_) => ("≤", "bool".into()),
                    Eq(_) => ("=", "bool".into()), Ne(_) => ("≠", "bool".into()), And(_) => ("∧", "bool".into()), Or(_) => ("∨", "bool".into()),
                    _ => return Err("operator outside the subset".into()),
                };
                Ok((format!("({l} {op} {r})"), t))
            }
            Expr::Unary(u) => {
                let (s, t) = self.expr(&u.expr, env)?;
                match u.op { syn::UnOp::Not(_) if t == "bool" => Ok((format!("(¬ {s})"), t)), _ => Err("unary operator".into()) }
            }
            Expr::MethodCall(m) if matches!(&*m.receiver, Expr::Path(p) if p.path.get_ident().map(|i| { let n = i.to_string(); n.chars().all(|c| c.is_ascii_uppercase() || c == '_' || c.is_ascii_digit()) && !env.contains_key(&n) && matches!(self.consts.get(&n), Some(Expr::Macro(_))) }).unwrap_or(false)) => {
                // a method of a lazily built static (a compiled regex): a parameter of the generated definition
                let recv = match &*m.receiver { Expr::Path(p) => p.path.get_ident().unwrap().to_string(), _ => unreachable!() };
                let args: FR<Vec<(String, String)>> = m.args.iter().map(|a| self.expr(a, env)).collect();
                let args = args?;
                let lname = format!("{recv}_{}", m.method);
                let ret = match m.method.to_string().as_str() { "is_match" => "bool", other => return Err(format!("method {other} of a static")) };
                self.static_calls.borrow_mut().insert(lname.clone(), "List Nat → Bool".into());
                Ok((format!("({lname} {})", args.iter().map(|a| a.0.clone()).collect::<Vec<_>>().join(" ")), ret.into()))
            }
            Expr::MethodCall(m) if matches!(&*m.receiver, Expr::Path(p) if p.path.is_ident("self")) => {
                // another `&self` method of the same type, printed before this one: it is handed the fields it reads
                let name = m.method.to_string();
                let (reads, arity, ret) = self.methods.borrow().get(&name).cloned().ok_or_else(|| format!("method {name} of self"))?;
                if arity != m.args.len() { return Err(format!("arity of {name}")); }
                let args: FR<Vec<(String, String)>> = m.args.iter().map(|a| self.expr(a, env)).collect();
                let mut all: Vec<String> = vec![];
                for (n, t) in &reads { self.self_reads.borrow_mut().insert(n.clone(), t.clone()); all.push(n.clone()); }
                all.extend(args?.into_iter().map(|a| a.0));
                Ok((format!("({name} {})", all.join(" ")), ret))
            }
            Expr::MethodCall(m) => {
                let (r, tr) = self.expr(&m.receiver, env)?;
                let args: FR<Vec<(String, String)>> = m.args.iter().map(|a| self.expr(a, env)).collect();
                let args = args?;
                let name = m.method.to_string();
                if tr == "extern" {
                    let (lname, ret) = self.extern_methods.get(&name).ok_or_else(|| format!("method {name} of an external type"))?;
                    let mut all = vec![r.clone()];
                    all.extend(args.iter().map(|a| a.0.clone()));
                    return Ok((format!("({lname} {})", all.join(" ")), ret.clone()));
                }
                match (name.as_str(), args.as_slice()) {
                    ("as_nanos", []) if tr == "Duration" => Ok((r, "u128".into())),
                    ("len", []) | ("remaining", []) if tr == "BytesMut" || tr == "Bytes" => Ok((format!("{r}.length"), "usize".into())),
                    ("checked_mul", [(a, _)]) => { let b = int_bits(&tr).ok_or("checked_mul on a non-integer")?; Ok((format!("(Rs.checkedMul {b} {r} {a})"), format!("Option<{tr}>"))) }
                    ("checked_pow", [(a, _)]) => { let b = int_bits(&tr).ok_or("checked_pow on a non-integer")?; Ok((format!("(Rs.checkedPow {b} {r} {a})"), format!("Option<{tr}>"))) }
                    ("checked_add", [(a, _)]) => { let b = int_bits(&tr).ok_or("checked_add on a non-integer")?; Ok((format!("(Rs.checkedAdd {b} {r} {a})"), format!("Option<{tr}>"))) }
                    ("saturating_sub", [(a, _)]) if int_bits(&tr).is_some() => Ok((format!("({r} - {a})"), tr)),
                    ("saturating_add", [(a, _)]) if int_bits(&tr).is_some() => Ok((format!("(Nat.min ({r} + {a}) (2^{} - 1))", int_bits(&tr).unwrap()), tr)),
                    ("saturating_mul", [(a, _)]) if int_bits(&tr).is_some() => Ok((format!("(Nat.min ({r} * {a}) (2^{} - 1))", int_bits(&tr).unwrap()), tr)),
                    ("unwrap_or", [(a, _)]) if tr.starts_with("Option<") => Ok((format!("(Option.getD {r} {a})"), opt_inner(&tr))),
                    ("min", [(a, _)]) => Ok((format!("(Nat.min {r} {a})"), tr)),
                    ("max", [(a, _)]) => Ok((format!("(Nat.max {r} {a})"), tr)),
                    ("is_zero", []) => Ok((format!("({r} = 0)"), "bool".into())),
                    ("len", []) if tr.starts_with("Vec<") => Ok((format!("{r}.length"), "usize".into())),
                    ("saturating_duration_since", [(a, _)]) if tr == "Instant" => Ok((format!("({r} - {a})"), "Duration".into())),
                    ("starts_with", [(a, _)]) if tr == "String" || tr == "&str" => Ok((format!("(Rs.startsWith {r} {a})"), "bool".into())),
                    ("is_none", []) => Ok((format!("({r} = none)"), "bool".into())),
                    _ => Err(format!("method {name}")),
                }
            }
            Expr::Call(c) => {
                let segs: Vec<String> = match &*c.func { Expr::Path(p) => p.path.segments.iter().map(|s| s.ident.to_string()).collect(), _ => return Err("call of a non-path".into()) };
                if segs.last().map(|x| x == "size_of").unwrap_or(false) { return Ok((eval_int(e, &self.consts)?.to_string(), "usize".into())); }
                let is_ext = self.externs.contains_key(&segs.join("::")) || (segs.len() == 1 && segs[0] == "Err" && self.buf.is_some());
                let args: FR<Vec<(String, String)>> = if is_ext { Ok(vec![]) } else { c.args.iter().map(|a| self.expr(a, env)).collect() };
                let args = args?;
                let seg: Vec<&str> = segs.iter().map(|s| s.as_str()).collect();
                if let Some(lname) = self.externs.get(&segs.join("::")) {
                    // an external function (a parameter of the generated definition); a single tuple argument is spread
                    let spread: Vec<String> = match c.args.first() {
                        Some(Expr::Tuple(t)) if c.args.len() == 1 => { let r: FR<Vec<(String, String)>> = t.elems.iter().map(|a| self.expr(a, env)).collect(); r?.into_iter().map(|x| x.0).collect() }
                        _ => args.iter().map(|x| x.0.clone()).collect(),
                    };
                    return Ok((format!("({lname} {})", spread.join(" ")), "Result<extern>".into()));
                }
                match (seg.as_slice(), args.as_slice()) {
                    (["Ok"], [(a, t)]) if self.buf.is_some() => Ok((format!("(Rs.Out.ok {a})"), format!("Result<{t}>"))),
                    (["Err"], _) if self.buf.is_some() && c.args.len() == 1 => {
                        // the error is named after the function or constructor that builds it
                        let name = match &c.args[0] { Expr::Call(ic) => match &*ic.func { Expr::Path(ip) => ip.path.segments.last().unwrap().ident.to_string(), _ => "error".into() }, _ => "error".into() };
                        Ok((format!("(Rs.Out.err \"{name}\")"), "Result<?>".into()))
                    }
                    (["Vec", "new"], []) => Ok(("[]".into(), "Vec".into())),
                    (["u64", "from_be_bytes"], [(a, _)]) => Ok((format!("(Rs.fromBe {a})"), "u64".into())),
                    (["Some"], [(a, t)]) | (["Ok"], [(a, t)]) => Ok((format!("(some {a})"), format!("Option<{t}>"))),
                    ([t, "try_from"], [(a, _)]) if int_bits(t).is_some() => Ok((format!("(Rs.tryFrom {} {a})", int_bits(t).unwrap()), format!("Option<{t}>"))),
                    ([t, "from"], [(a, ta)]) if int_bits(t).is_some() && int_bits(ta).map(|b| b <= int_bits(t).unwrap()).unwrap_or(false) => Ok((a.clone(), t.to_string())),
                    (["Duration", "new"], [(a, _), (b, _)]) => Ok((format!("(Rs.durationNew {a} {b})"), "Duration".into())),
                    (["Duration", "from_nanos"], [(a, _)]) => Ok((a.clone(), "Duration".into())),
                    ([f], _) if self.fns.contains_key(*f) => {
                        let (ps, ret) = &self.fns[*f];
                        if ps.len() != args.len() { return Err(format!("arity of {f}")); }
                        Ok((format!("({f} {})", args.iter().map(|(a, _)| a.clone()).collect::<Vec<_>>().join(" ")), ret.clone()))
                    }
                    ([e, v], _) if self.enums.contains_key(*e) => Ok((format!("({e}.{v} {})", args.iter().map(|(a, _)| a.clone()).collect::<Vec<_>>().join(" ")), e.to_string())),
                    _ => Err(format!("call of {}", segs.join("::"))),
                }
            }
            Expr::If(i) => {
                if matches!(&*i.cond, Expr::Let(_)) { return Err("`if let` as a value".into()); }
                let (c, _) = self.expr(&i.cond, env)?;
                let (a, ta) = self.stmts(&i.then_branch.stmts, env, &|v| v.to_string())?;
                let els = i.else_branch.as_ref().ok_or("`if` without `else` as a value")?;
                let (b, _) = self.expr(&els.1, env)?;
                Ok((format!("(if {c} then {a} else {b})"), ta))
            }
            Expr::Match(m) => self.mtch(m, env, &|body, env2| self.expr(body, env2)),
            Expr::Block(b) => self.stmts(&b.block.stmts, env, &|v| v.to_string()),
            Expr::Tuple(t) if t.elems.is_empty() => Ok(("()".into(), "()".into())),
            // `Err(E::Variant(..))?` as a value: leave with that error (named after the innermost constructor)
            Expr::Try(t) => {
                if let Expr::Call(c) = &*t.expr {
                    if let Expr::Path(p) = &*c.func {
                        if p.path.is_ident("Err") && c.args.len() == 1 && self.buf.is_some() {
                            let name = match &c.args[0] {
                                Expr::Call(ic) => match &*ic.func { Expr::Path(ip) => ip.path.segments.last().unwrap().ident.to_string(), _ => "error".into() },
                                Expr::Path(ip) => ip.path.segments.last().unwrap().ident.to_string(),
                                _ => "error".into(),
                            };
                            return Ok((format!("(Rs.Out.err \"{name}\")"), "Result<?>".into()));
                        }
                    }
                }
                Err("`?` outside the subset".into())
            }
            Expr::Struct(s) => {
                let name = s.path.segments.last().unwrap().ident.to_string();
                if !self.structs.contains_key(&name) || s.rest.is_some() { return Err(format!("struct literal {name}")); }
                let mut fs = vec![];
                for f in &s.fields {
                    let fname = match &f.member { syn::Member::Named(i) => i.to_string(), _ => return Err("tuple struct literal".into()) };
                    let (v, _) = self.expr(&f.expr, env)?;
                    fs.push(format!("{fname} := {v}"));
                }
                Ok((format!("({{ {} }} : {name})", fs.join(", ")), name))
            }
            other => Err(format!("expression outside the subset: {}", quote::quote!(#other).to_string().chars().take(60).collect::<String>())),
        }
    }
    /// pattern -> (Lean pattern, bindings)
    fn pat(&self, p: &Pat, scrut_ty: &str) -> FR<(String, Vec<(String, String)>)> {
        match p {
            Pat::Wild(_) => Ok(("_".into(), vec![])),
            Pat::Ident(i) if i.ident == "None" => Ok(("none".into(), vec![])),
            Pat::Path(pp) => {
                let segs: Vec<String> = pp.path.segments.iter().map(|s| s.ident.to_string()).collect();
                if segs == ["None"] { return Ok(("none".into(), vec![])); }
                if segs.len() == 2 && self.enums.contains_key(&segs[0]) { return Ok((format!(".{}", segs[1]), vec![])); }
                Err(format!("pattern {}", segs.join("::")))
            }
            Pat::TupleStruct(ts) => {
                let segs: Vec<String> = ts.path.segments.iter().map(|s| s.ident.to_string()).collect();
                let mut names = vec![];
                for e in &ts.elems {
                    match e { Pat::Ident(i) => names.push(i.ident.to_string()), Pat::Wild(_) => names.push("_".into()), _ => return Err("nested pattern".into()) }
                }
                let seg: Vec<&str> = segs.iter().map(|s| s.as_str()).collect();
                match seg.as_slice() {
                    ["Some"] | ["Ok"] if names.len() == 1 => Ok((format!("some {}", names[0]), vec![(names[0].clone(), opt_inner(scrut_ty))])),
                    ["Err"] if names.len() == 1 && names[0] == "_" => Ok(("none".into(), vec![])),
                    [e, v] if self.enums.contains_key(*e) => {
                        let tys = self.enums[*e].iter().find(|(n, _)| n == v).ok_or("variant")?.1.clone();
                        if tys.len() != names.len() { return Err("variant arity".into()); }
                        Ok((format!(".{v} {}", names.join(" ")), names.into_iter().zip(tys).collect()))
                    }
                    _ => Err(format!("pattern {}", segs.join("::"))),
                }
            }
            _ => Err("pattern outside the subset".into()),
        }
    }
    /// `match` whose arm bodies are translated by `body` (guards: `P if c => a, P => b` becomes `P => if c then a else b`)
    fn mtch(&self, m: &syn::ExprMatch, env: &FEnv, body: &dyn Fn(&Expr, &FEnv) -> FR<(String, String)>) -> FR<(String, String)> {
        let (s, ts) = self.expr(&m.expr, env)?;
        let mut groups: Vec<(String, Vec<(Option<String>, String)>)> = vec![];
        let mut ty = "?".to_string();
        for arm in &m.arms {
            let (lp, binds) = self.pat(&arm.pat, &ts)?;
            let mut env2 = env.clone();
            for (n, t) in binds { if n != "_" { env2.insert(n, t); } }
            let guard = match &arm.guard { Some((_, g)) => Some(self.expr(g, &env2)?.0), None => None };
            let (b, tb) = body(&arm.body, &env2)?;
            if ty == "?" || ty == "Option<?>" { ty = tb; }
            match groups.last_mut() {
                Some((p, alts)) if *p == lp && alts.last().map(|a| a.0.is_some()).unwrap_or(false) => alts.push((guard, b)),
                _ => groups.push((lp, vec![(guard, b)])),
            }
        }
        let mut out = format!("(match {s} with");
        for (p, alts) in groups {
            if alts.last().unwrap().0.is_some() { return Err("a guarded arm without an unguarded one behind it".into()); }
            let mut body = alts.last().unwrap().1.clone();
            for (g, b) in alts.iter().rev().skip(1) { body = format!("(if {} then {b} else {body})", g.as_ref().unwrap()); }
            let _ = write!(out, "\n  | {p} => {body}");
        }
        out.push(')');
        Ok((out, ty))
    }
    fn returned(e: &Expr) -> Option<&Expr> {
        match e {
            Expr::Return(r) => r.expr.as_deref(),
            Expr::Block(b) if b.block.stmts.len() == 1 => match &b.block.stmts[0] { syn::Stmt::Expr(Expr::Return(r), _) => r.expr.as_deref(), _ => None },
            _ => None,
        }
    }
    /// a statement list as one Lean term; `ret` wraps every value the function can return (tail value and `return`s)
    fn stmts(&self, stmts: &[syn::Stmt], env: &FEnv, ret: &dyn Fn(&str) -> String) -> FR<(String, String)> {
        use syn::Stmt;
        let (first, rest) = match stmts.split_first() {
            Some(x) => x,
            None => return match &*self.tail_k.borrow() { Some(k) => Ok((k.clone(), "?".into())), None => Err("empty block".into()) },
        };
        match first {
            Stmt::Item(Item::Const(_)) => self.stmts(rest, env, ret),
            Stmt::Local(l) => {
                let (name, ann) = match &l.pat {
                    Pat::Ident(i) => (i.ident.to_string(), None),
                    Pat::Type(pt) => match &*pt.pat { Pat::Ident(i) => (i.ident.to_string(), Some(ty_str(&pt.ty))), _ => return Err("let pattern".into()) },
                    _ => return Err("let pattern".into()),
                };
                let init = l.init.as_ref().ok_or("let without initialiser")?;
                if init.diverge.is_some() { return Err("let-else".into()); }
                if let Some(buf) = &self.buf {
                    // let x = [0u8; N];
                    if let Expr::Repeat(r) = &*init.expr {
                        let (n, _) = self.expr(&r.len, env)?;
                        let (z, _) = self.expr(&r.expr, env)?;
                        let mut e2 = env.clone();
                        e2.insert(name.clone(), "[u8]".into());
                        let (k, t) = self.stmts(rest, &e2, ret)?;
                        return Ok((format!("(let {name} := List.replicate {n} (UInt8.ofNat {z});\n  {k})"), t));
                    }
                    // let x = call(..)?;
                    if let Expr::Try(tr) = &*init.expr {
                        let (v, tv) = self.expr(&tr.expr, env)?;
                        let mut e2 = env.clone();
                        e2.insert(name.clone(), tv.strip_prefix("Result<").map(|x| x.trim_end_matches('>').to_string()).unwrap_or("?".into()));
                        let (k, t) = self.stmts(rest, &e2, ret)?;
                        let is_buf = |a: &Expr| -> bool { let a = match a { Expr::Reference(r) => &*r.expr, o => o }; matches!(a, Expr::Path(p) if p.path.is_ident(buf)) };
                        let threads = match &*tr.expr { Expr::MethodCall(m) => m.args.iter().any(is_buf), Expr::Call(c) => c.args.iter().any(is_buf), _ => false };
                        let okp = if threads { format!("({name}, {buf})") } else { name.clone() };
                        return Ok((format!("(match {v} with\n  | .err e => .err e\n  | .panic p => .panic p\n  | .ok {okp} => {k})"), t));
                    }
                    // let x = buf.get_u8();  /  let x = buf.split_to(n);
                    if let Expr::MethodCall(m) = &*init.expr {
                        if matches!(&*m.receiver, Expr::Path(p) if p.path.is_ident(buf)) {
                            let args: FR<Vec<(String, String)>> = m.args.iter().map(|a| self.expr(a, env)).collect();
                            let args = args?;
                            let op_ty = match (m.method.to_string().as_str(), args.len()) {
                                ("get_u8", 0) => Some((format!("Rs.getU8 {buf}"), "u8")),
                                ("get_u64", 0) => Some((format!("Rs.getU64 {buf}"), "u64")),
                                ("split_to", 1) => Some((format!("Rs.splitTo {buf} {}", args[0].0), "BytesMut")),
                                _ => None,   // a method that only looks (`len`): an ordinary expression
                            };
                            if let Some((op, ty)) = op_ty {
                                let mut e2 = env.clone();
                                e2.insert(name.clone(), ty.into());
                                let (k, t) = self.stmts(rest, &e2, ret)?;
                                return Ok((format!("(match {op} with\n  | none => .panic \"{}\"\n  | some ({name}, {buf}) => {k})", m.method), t));
                            }
                        }
                    }
                }
                if let Expr::Match(m) = &*init.expr {
                    if m.arms.iter().any(|a| Self::returned(&a.body).is_some()) {
                        // arms either give the bound value or leave the function
                        let mut vty = ann.clone().unwrap_or("?".into());
                        // type of the bound value: from the first arm that yields one
                        for a in &m.arms {
                            if Self::returned(&a.body).is_none() {
                                let (_, ts) = self.expr(&m.expr, env)?;
                                let (_, binds) = self.pat(&a.pat, &ts)?;
                                let mut e2 = env.clone();
                                for (n, t) in binds { e2.insert(n, t); }
                                if vty == "?" { vty = self.expr(&a.body, &e2)?.1; }
                            }
                        }
                        let mut env_rest = env.clone();
                        env_rest.insert(name.clone(), vty);
                        return self.mtch(m, env, &|b, e2| match Self::returned(b) {
                            Some(r) => { let (v, t) = self.expr(r, e2)?; Ok((ret(&v), t)) }
                            None => {
                                let (v, _) = self.expr(b, e2)?;
                                let mut e3 = e2.clone();
                                e3.insert(name.clone(), env_rest[&name].clone());
                                let (k, t) = self.stmts(rest, &e3, ret)?;
                                Ok((format!("(let {name} := {v}; {k})"), t))
                            }
                        });
                    }
                }
                let (v, t) = self.expr(&init.expr, env)?;
                let mut e2 = env.clone();
                e2.insert(name.clone(), ann.unwrap_or(t));
                let (k, tk) = self.stmts(rest, &e2, ret)?;
                Ok((format!("(let {name} := {v};\n  {k})"), tk))
            }
            Stmt::Expr(e, semi) => {
                // leaving the function
                if let Some(r) = Self::returned(e) { let (v, t) = self.expr(r, env)?; return Ok((ret(&v), t)); }
                if rest.is_empty() && semi.is_none() {
                    if let (Some(buf), Expr::Call(c)) = (&self.buf, e) {
                        if matches!(&*c.func, Expr::Path(p) if p.path.is_ident("Ok")) && c.args.len() == 1 {
                            if let Expr::MethodCall(m) = &c.args[0] {
                                if matches!(&*m.receiver, Expr::Path(p) if p.path.is_ident(buf)) && m.args.is_empty() {
                                    let op = match m.method.to_string().as_str() { "get_u64" => Some("Rs.getU64"), "get_u8" => Some("Rs.getU8"), _ => None };
                                    if let Some(op) = op {
                                        return Ok((format!("(match {op} {buf} with\n  | none => .panic \"{}\"\n  | some (v_, {buf}) => {})", m.method, ret("(Rs.Out.ok v_)")), "Result<u64>".into()));
                                    }
                                }
                            }
                        }
                    }
                    if let Expr::Match(m) = e {
                        return self.mtch(m, env, &|b, e2| { let b = Self::returned(b).unwrap_or(b); let (v, t) = self.expr(b, e2)?; Ok((ret(&v), t)) });
                    }
                    let (v, t) = self.expr(e, env)?;
                    return Ok((ret(&v), t));
                }
                if let Some(buf) = &self.buf {
                    match e {
                        // call(..)?;
                        Expr::Try(tr) => {
                            let (v, _) = self.expr(&tr.expr, env)?;
                            let (k, t) = self.stmts(rest, env, ret)?;
                            // a call that is handed the buffer gives it back changed
                            let threads = match &*tr.expr {
                                Expr::MethodCall(m) => m.args.iter().any(|a| matches!(a, Expr::Path(p) if p.path.is_ident(buf))),
                                Expr::Call(c) => c.args.iter().any(|a| matches!(a, Expr::Path(p) if p.path.is_ident(buf))),
                                _ => false,
                            };
                            let okp = if threads { format!("(_, {buf})") } else { "_".to_string() };
                            return Ok((format!("(match {v} with\n  | .err e => .err e\n  | .panic p => .panic p\n  | .ok {okp} => {k})"), t));
                        }
                        // for _ in 0..n { body }: a definition of its own, recursive in the number of iterations still to go; the
                        // variables the body changes (the buffer, vectors it pushes to) go round with it; the body may leave the
                        // function only with an error
                        Expr::ForLoop(fl) => {
                            if !matches!(&*fl.pat, Pat::Wild(_)) { return Err("loop variable".into()); }
                            let rg = match &*fl.expr { Expr::Range(r) if matches!(r.limits, syn::RangeLimits::HalfOpen(_)) => r, _ => return Err("loop range".into()) };
                            let zero = rg.start.as_ref().map(|x| quote::quote!(#x).to_string() == "0").unwrap_or(false);
                            if !zero { return Err("loop range does not start at 0".into()); }
                            let (n, _) = self.expr(rg.end.as_ref().ok_or("open loop range")?, env)?;
                            let body_txt = { let b = &fl.body; quote::quote!(#b).to_string() };
                            let mut vars: Vec<String> = env.iter().filter(|(v, t)| *t == "Vec" && body_txt.contains(&format!("{v} . push ("))).map(|(v, _)| v.clone()).collect();
                            vars.push(buf.clone());
                            let lname = format!("{}_loop", self.fn_name.borrow());
                            let call_next = format!("({lname} n_ {})", vars.join(" "));
                            let prev = self.tail_k.replace(Some(call_next));
                            let body = self.stmts(&fl.body.stmts, env, &|v| if v.starts_with("(Rs.Out.err ") { v.to_string() } else { "RETURN_OF_A_VALUE_INSIDE_A_LOOP".into() });
                            self.tail_k.replace(prev);
                            let (body, _) = body?;
                            if body.contains("RETURN_OF_A_VALUE_INSIDE_A_LOOP") { return Err("a loop body that returns a value".into()); }
                            let tys: FR<Vec<String>> = vars.iter().map(|v| Ok(match env.get(v).map(|s| s.as_str()) { Some("Vec") => "List (List UInt8)".to_string(), Some("BytesMut") | Some("Bytes") => "List UInt8".to_string(), _ => return Err(format!("loop variable {v}")) })).collect();
                            let tys = tys?;
                            let mut d = format!("/-- the `for _ in 0..{n}` loop of `{}`: iterations still to go, then the variables the body changes -/\ndef {lname} : Nat → {} → Rs.Out ({})\n", self.fn_name.borrow(), tys.join(" → "), tys.join(" × "));
                            let _ = writeln!(d, "  | 0, {} => .ok ({})", vars.join(", "), vars.join(", "));
                            let _ = writeln!(d, "  | n_ + 1, {} =>\n  {body}\n", vars.join(", "));
                            self.loops.borrow_mut().push(d);
                            let (k, t) = self.stmts(rest, env, ret)?;
                            return Ok((format!("(match {lname} {n} {} with\n  | .err e => .err e\n  | .panic p => .panic p\n  | .ok ({}) => {k})", vars.join(" "), vars.join(", ")), t));
                        }
                        Expr::MethodCall(m) => {
                            let recv = match &*m.receiver { Expr::Path(p) => p.path.get_ident().map(|i| i.to_string()), _ => None }.ok_or("method statement")?;
                            let name = m.method.to_string();
                            // buf.reserve(n): capacity only, the contents do not change
                            if name == "push" && m.args.len() == 1 && env.get(&recv).map(|t| t == "Vec").unwrap_or(false) {
                                let (v, _) = self.expr(&m.args[0], env)?;
                                let (k, t) = self.stmts(rest, env, ret)?;
                                return Ok((format!("(let {recv} := {recv} ++ [{v}];\n  {k})"), t));
                            }
                            if recv == *buf && name == "reserve" { return self.stmts(rest, env, ret); }
                            if recv == *buf && (name == "put_u64" || name == "put_u8") && m.args.len() == 1 {
                                let (v, _) = self.expr(&m.args[0], env)?;
                                let (k, t) = self.stmts(rest, env, ret)?;
                                let op = if name == "put_u64" { "Rs.putU64" } else { "Rs.putU8" };
                                return Ok((format!("(let {buf} := {op} {buf} {v};\n  {k})"), t));
                            }
                            if recv == *buf && name == "advance" && m.args.len() == 1 {
                                let (n, _) = self.expr(&m.args[0], env)?;
                                let (k, t) = self.stmts(rest, env, ret)?;
                                return Ok((format!("(match Rs.advance {buf} {n} with\n  | none => .panic \"advance\"\n  | some {buf} => {k})"), t));
                            }
                            // x.copy_from_slice(&buf[..n])
                            if name == "copy_from_slice" && m.args.len() == 1 && env.get(&recv).map(|t| t == "[u8]").unwrap_or(false) {
                                let inner = match &m.args[0] { Expr::Reference(r) => &*r.expr, other => other };
                                if let Expr::Index(ix) = inner {
                                    if matches!(&*ix.expr, Expr::Path(p) if p.path.is_ident(buf)) {
                                        if let Expr::Range(rg) = &*ix.index {
                                            if rg.start.is_none() && matches!(rg.limits, syn::RangeLimits::HalfOpen(_)) {
                                                let (n, _) = self.expr(rg.end.as_ref().ok_or("open range")?, env)?;
                                                let (k, t) = self.stmts(rest, env, ret)?;
                                                return Ok((format!("(match Rs.slicePrefix {buf} {n} with\n  | none => .panic \"slice\"\n  | some s => if s.length = {recv}.length then (let {recv} := s; {k}) else .panic \"copy_from_slice\")"), t));
                                            }
                                        }
                                    }
                                }
                            }
                            return Err(format!("method statement {name}"));
                        }
                        _ => {}
                    }
                }
                match e {
                    // if c { [buf.reserve(..);] return x; }
                    Expr::If(i) if i.else_branch.is_none() && !matches!(&*i.cond, Expr::Let(_)) && i.then_branch.stmts.len() == 2 && self.buf.is_some()
                        && quote::quote!(#i).to_string().contains(". reserve (") => {
                        let r = match &i.then_branch.stmts[1] { Stmt::Expr(x, _) => Self::returned(x), _ => None }.ok_or("`if` statement that does not return")?;
                        let (c, _) = self.expr(&i.cond, env)?;
                        let (v, _) = self.expr(r, env)?;
                        let (k, t) = self.stmts(rest, env, ret)?;
                        Ok((format!("(if {c} then {} else\n  {k})", ret(&v)), t))
                    }
                    // if c { return x; }
                    Expr::If(i) if i.else_branch.is_none() && !matches!(&*i.cond, Expr::Let(_)) && i.then_branch.stmts.len() == 1 => {
                        let r = match &i.then_branch.stmts[0] { Stmt::Expr(x, _) => Self::returned(x), _ => None }.ok_or("`if` statement that does not return")?;
                        let (c, _) = self.expr(&i.cond, env)?;
                        let (v, _) = self.expr(r, env)?;
                        let (k, t) = self.stmts(rest, env, ret)?;
                        Ok((format!("(if {c} then {} else\n  {k})", ret(&v)), t))
                    }
                    // if let P = e { x = v; }
                    Expr::If(i) if i.else_branch.is_none() && i.then_branch.stmts.len() == 1 => {
                        let lt = match &*i.cond { Expr::Let(l) => l, _ => return Err("if statement".into()) };
                        let (s, ts) = self.expr(&lt.expr, env)?;
                        let (lp, binds) = self.pat(&lt.pat, &ts)?;
                        let asg = match &i.then_branch.stmts[0] { Stmt::Expr(Expr::Assign(a), _) => a, _ => return Err("`if let` whose body is not one assignment".into()) };
                        let var = match &*asg.left { Expr::Path(p) if p.path.get_ident().is_some() => p.path.get_ident().unwrap().to_string(), _ => return Err("assignment target".into()) };
                        if !env.contains_key(&var) { return Err(format!("assignment to unknown {var}")); }
                        let mut e2 = env.clone();
                        for (n, t) in binds { e2.insert(n, t); }
                        let (v, _) = self.expr(&asg.right, &e2)?;
                        let (k, t) = self.stmts(rest, env, ret)?;
                        Ok((format!("(let {var} := (match {s} with | {lp} => {v} | _ => {var});\n  {k})"), t))
                    }
                    // self.f += e   /   x += e
                    Expr::Binary(b) if matches!(b.op, syn::BinOp::AddAssign(_)) => {
                        let (l, tl) = self.expr(&b.left, env)?;
                        let (r, _) = self.expr(&b.right, env)?;
                        let mut e2 = env.clone();
                        e2.insert(l.clone(), tl);
                        let (k, t) = self.stmts(rest, &e2, ret)?;
                        Ok((format!("(let {l} := ({l} + {r});\n  {k})"), t))
                    }
                    Expr::Assign(a) => {
                        let (l, tl) = self.expr(&a.left, env)?;
                        let (r, _) = self.expr(&a.right, env)?;
                        let mut e2 = env.clone();
                        e2.insert(l.clone(), tl);
                        let (k, t) = self.stmts(rest, &e2, ret)?;
                        Ok((format!("(let {l} := {r};\n  {k})"), t))
                    }
                    _ => Err("statement outside the subset".into()),
                }
            }
            _ => Err("statement outside the subset".into()),
        }
    }
}

fn collect_local_consts(b: &syn::Block, m: &mut BTreeMap<String, Expr>) {
    for s in &b.stmts { if let syn::Stmt::Item(Item::Const(c)) = s { m.insert(c.ident.to_string(), (*c.expr).clone()); } }
}

fn gen_backoff_fn(repo: &Path, g: &mut Gen) -> FR<()> {
    let rel = "client/src/keep_alive/backoff_strategy.rs";
    let src = Src::load(repo, rel).map_err(|s| s.0)?;
    let mut tr = FnTr { consts: src.consts(), structs: BTreeMap::new(), enums: BTreeMap::new(), fns: BTreeMap::new(), self_ty: None, self_reads: Default::default(), buf: None, externs: BTreeMap::new(), extern_methods: BTreeMap::new(), tail_k: Default::default(), loops: Default::default(), fn_name: Default::default(), str_consts: Default::default(), static_calls: Default::default(), methods: Default::default() };
    let mut free: BTreeMap<String, syn::ItemFn> = BTreeMap::new();
    for it in &src.ast.items {
        match it {
            Item::Struct(s) => {
                let mut fs = vec![];
                if let Fields::Named(n) = &s.fields { for f in &n.named { fs.push((f.ident.as_ref().unwrap().to_string(), ty_str(&f.ty))); } }
                tr.structs.insert(s.ident.to_string(), fs);
            }
            Item::Enum(e) => {
                let mut vs = vec![];
                for v in &e.variants {
                    let tys = match &v.fields { Fields::Unit => vec![], Fields::Unnamed(u) => u.unnamed.iter().map(|f| ty_str(&f.ty)).collect(), _ => return Err("enum with named fields".into()) };
                    vs.push((v.ident.to_string(), tys));
                }
                tr.enums.insert(e.ident.to_string(), vs);
            }
            Item::Fn(f) => { free.insert(f.sig.ident.to_string(), f.clone()); }
            _ => {}
        }
    }
    let mut out = String::new();
    // the data types the two functions mention
    let strat = tr.enums.get("Strategy").ok_or("enum Strategy not found")?.clone();
    let _ = writeln!(out, "/-- `enum Strategy` -/\ninductive Strategy where");
    for (v, tys) in &strat {
        let args: FR<Vec<String>> = tys.iter().enumerate().map(|(i, t)| Ok(format!(" (a{i} : {})", tr.lean_ty(t)?))).collect();
        let _ = writeln!(out, "  | {v}{}", args?.join(""));
    }
    let _ = writeln!(out, "  deriving Repr, DecidableEq\n");
    let na = tr.structs.get("NextAttempt").ok_or("struct NextAttempt not found")?.clone();
    let _ = writeln!(out, "/-- `struct NextAttempt` -/\nstructure NextAttempt where");
    for (f, t) in &na { let _ = writeln!(out, "  {f} : {}", tr.lean_ty(t)?); }
    let _ = writeln!(out, "  deriving Repr, DecidableEq\n");
    // free function saturating_mul
    let sm = free.get("saturating_mul").ok_or("fn saturating_mul not found")?;
    collect_local_consts(&sm.block, &mut tr.consts);
    let mut env = FEnv::new();
    let mut params = vec![];
    for a in &sm.sig.inputs {
        if let syn::FnArg::Typed(pt) = a {
            let n = match &*pt.pat { Pat::Ident(i) => i.ident.to_string(), _ => return Err("parameter pattern".into()) };
            let t = ty_str(&pt.ty);
            params.push((n.clone(), t.clone()));
            env.insert(n, t);
        }
    }
    let ret_ty = match &sm.sig.output { syn::ReturnType::Type(_, t) => ty_str(t), _ => return Err("saturating_mul returns nothing".into()) };
    let (body, _) = tr.stmts(&sm.block.stmts, &env, &|v| v.to_string())?;
    let ps: FR<Vec<String>> = params.iter().map(|(n, t)| Ok(format!("({n} : {})", tr.lean_ty(t)?))).collect();
    let widths: Vec<String> = params.iter().map(|(n, t)| format!("{n} : {t}")).collect();
    let _ = writeln!(out, "/-- `fn saturating_mul({})` -/\ndef saturating_mul {} : {} :=\n  {body}\n", widths.join(", "), ps?.join(" "), tr.lean_ty(&ret_ty)?);
    tr.fns.insert("saturating_mul".into(), (params, ret_ty));
    // <BackoffStrategyIter as Iterator>::next
    let next = find_method(&src.ast, "BackoffStrategyIter", "next", Some("Iterator")).ok_or("`impl Iterator for BackoffStrategyIter` has no fn next")?;
    tr.self_ty = Some("BackoffStrategyIter".into());
    collect_local_consts(&next.block, &mut tr.consts);
    // the one field `next` assigns: the attempt counter (its new value is the second component of the result)
    let (body, _) = tr.stmts(&next.block.stmts, &FEnv::new(), &|v| format!("({v}, self_current_attempt)"))?;
    let reads = tr.self_reads.borrow().clone();
    if !reads.contains_key("self_current_attempt") { return Err("next() does not read self.current_attempt".into()); }
    let ps: FR<Vec<String>> = reads.iter().map(|(n, t)| Ok(format!("({n} : {})", tr.lean_ty(t)?))).collect();
    let widths: Vec<String> = reads.iter().map(|(n, t)| format!("{n} : {t}")).collect();
    let _ = writeln!(out, "/-- `BackoffStrategyIter::next(&mut self)`: the item and the new value of `self.current_attempt`\n    ({}) -/\ndef next {} : Option NextAttempt × Nat :=\n  {body}", widths.join(", "), ps?.join(" "));
    g.emit_with_imports("BackoffFn", &["SeliumModel.Rs"], &[rel], &format!("open Selium\n\n{out}"));
    Ok(())
}

fn gen_codec_fn(repo: &Path, g: &mut Gen) -> FR<()> {
    let rel = "protocol/src/codec.rs";
    let src = Src::load(repo, rel).map_err(|s| s.0)?;
    let mut tr = FnTr { consts: src.consts(), structs: BTreeMap::new(), enums: BTreeMap::new(), fns: BTreeMap::new(), self_ty: None,
                        self_reads: Default::default(), buf: Some("src".into()), externs: BTreeMap::new(), extern_methods: BTreeMap::new(), tail_k: Default::default(), loops: Default::default(), fn_name: Default::default(), str_consts: Default::default(), static_calls: Default::default(), methods: Default::default() };
    tr.externs.insert("Frame::try_from".into(), "frameTryFrom".into());
    let mut out = String::new();
    // free function validate_payload_length(length: u64) -> Result<(), _>
    let vp = src.ast.items.iter().find_map(|it| match it { Item::Fn(f) if f.sig.ident == "validate_payload_length" => Some(f), _ => None }).ok_or("fn validate_payload_length not found")?;
    let mut env = FEnv::new();
    let mut params = vec![];
    for a in &vp.sig.inputs {
        if let syn::FnArg::Typed(pt) = a {
            let n = match &*pt.pat { Pat::Ident(i) => i.ident.to_string(), _ => return Err("parameter pattern".into()) };
            let t = ty_str(&pt.ty);
            if int_bits(&t).is_none() { return Err(format!("validate_payload_length takes a {t}")); }
            params.push((n.clone(), t.clone()));
            env.insert(n, t);
        }
    }
    let (body, _) = tr.stmts(&vp.block.stmts, &env, &|v| v.to_string())?;
    let ps: Vec<String> = params.iter().map(|(n, _)| format!("({n} : Nat)")).collect();
    let _ = writeln!(out, "/-- `fn validate_payload_length({})` -/\ndef validate_payload_length {} : Rs.Out Unit :=\n  {body}\n",
        params.iter().map(|(n, t)| format!("{n} : {t}")).collect::<Vec<_>>().join(", "), ps.join(" "));
    tr.fns.insert("validate_payload_length".into(), (params, "Result<()>".into()));
    // <MessageCodec as Decoder>::decode(&mut self, src: &mut BytesMut)
    let dec = find_method(&src.ast, "MessageCodec", "decode", Some("Decoder")).ok_or("`impl Decoder for MessageCodec` has no fn decode")?;
    let bufname = dec.sig.inputs.iter().find_map(|a| match a { syn::FnArg::Typed(pt) if ty_str(&pt.ty) == "&mutBytesMut" => match &*pt.pat { Pat::Ident(i) => Some(i.ident.to_string()), _ => None }, _ => None })
        .ok_or("decode has no `&mut BytesMut` parameter")?;
    if bufname != "src" { tr.buf = Some(bufname.clone()); }
    let mut env = FEnv::new();
    env.insert(bufname.clone(), "BytesMut".into());
    let b2 = bufname.clone();
    let (body, _) = tr.stmts(&dec.block.stmts, &env, &move |v| format!("(Rs.Out.withState {v} {b2})"))?;
    let _ = writeln!(out, "/-- `<MessageCodec as Decoder>::decode(&mut self, {bufname}: &mut BytesMut)`: the result and what is left in `{bufname}`.\n    `frameTryFrom` is `Frame::try_from((message_type, bytes))` (modelled in `Wire/Frame.lean` from the generated tables). -/\ndef decode {{F : Type}} (frameTryFrom : Nat → List UInt8 → Rs.Out F) ({bufname} : List UInt8) : Rs.Out (Option F × List UInt8) :=\n  {body}");
    // <MessageCodec as Encoder<Frame>>::encode(&mut self, item: Frame, dst: &mut BytesMut)
    let enc = find_method(&src.ast, "MessageCodec", "encode", Some("Encoder")).ok_or("`impl Encoder<Frame> for MessageCodec` has no fn encode")?;
    let mut env = FEnv::new();
    let mut ebuf = None;
    let mut item = None;
    for a in &enc.sig.inputs {
        if let syn::FnArg::Typed(pt) = a {
            let n = match &*pt.pat { Pat::Ident(i) => i.ident.to_string(), _ => return Err("parameter pattern".into()) };
            match ty_str(&pt.ty).as_str() {
                "&mutBytesMut" => { env.insert(n.clone(), "BytesMut".into()); ebuf = Some(n); }
                "Frame" => { env.insert(n.clone(), "extern".into()); item = Some(n); }
                other => return Err(format!("encode takes a {other}")),
            }
        }
    }
    let ebuf = ebuf.ok_or("encode has no `&mut BytesMut` parameter")?;
    let item = item.ok_or("encode has no `Frame` parameter")?;
    tr.buf = Some(ebuf.clone());
    tr.extern_methods.insert("get_length".into(), ("frameGetLength".into(), "Result<u64>".into()));
    tr.extern_methods.insert("get_type".into(), ("frameGetType".into(), "u8".into()));
    tr.extern_methods.insert("write_to_bytes".into(), ("frameWriteToBytes".into(), "Result<()>".into()));
    let b3 = ebuf.clone();
    let (body, _) = tr.stmts(&enc.block.stmts, &env, &move |v| format!("(Rs.Out.withState {v} {b3})"))?;
    let _ = writeln!(out, "\n/-- `<MessageCodec as Encoder<Frame>>::encode(&mut self, {item}: Frame, {ebuf}: &mut BytesMut)`: the result and the new contents of `{ebuf}`.\n    `frameGetLength` / `frameGetType` / `frameWriteToBytes` are `Frame::{{get_length, get_type, write_to_bytes}}` (modelled in `Wire/Frame.lean`). -/\ndef encode {{F : Type}} (frameGetLength : F → Rs.Out Nat) (frameGetType : F → Nat) (frameWriteToBytes : F → List UInt8 → Rs.Out (Unit × List UInt8))\n    ({item} : F) ({ebuf} : List UInt8) : Rs.Out (Unit × List UInt8) :=\n  {body}");
    g.emit_with_imports("CodecFn", &["SeliumModel.Rs"], &[rel], &format!("open Selium\n\n{out}"));
    Ok(())
}

fn gen_batch_fn(repo: &Path, g: &mut Gen) -> FR<()> {
    let rel = "protocol/src/utils.rs";
    let src = Src::load(repo, rel).map_err(|s| s.0)?;
    let mut tr = FnTr { consts: src.consts(), structs: BTreeMap::new(), enums: BTreeMap::new(), fns: BTreeMap::new(), self_ty: None,
                        self_reads: Default::default(), buf: None, externs: BTreeMap::new(), extern_methods: BTreeMap::new(),
                        tail_k: Default::default(), loops: Default::default(), fn_name: Default::default(), str_consts: Default::default(), static_calls: Default::default(), methods: Default::default() };
    let free: BTreeMap<String, &syn::ItemFn> = src.ast.items.iter().filter_map(|it| match it { Item::Fn(f) => Some((f.sig.ident.to_string(), f)), _ => None }).collect();
    let mut out = String::new();
    // helpers that read from the buffer first (they are called by the decoder), then the decoder
    for fname in ["read_u64", "decode_message_batch"] {
        let f = free.get(fname).ok_or_else(|| format!("fn {fname} not found"))?;
        let mut env = FEnv::new();
        let mut bufname = None;
        for a in &f.sig.inputs {
            if let syn::FnArg::Typed(pt) = a {
                let n = match &*pt.pat { Pat::Ident(i) => i.ident.to_string(), _ => return Err("parameter pattern".into()) };
                match ty_str(&pt.ty).as_str() {
                    "&mutBytes" | "Bytes" | "&mutBytesMut" | "BytesMut" => { env.insert(n.clone(), "Bytes".into()); bufname = Some(n); }
                    other => return Err(format!("{fname} takes a {other}")),
                }
            }
        }
        let bufname = bufname.ok_or_else(|| format!("{fname} has no buffer parameter"))?;
        tr.buf = Some(bufname.clone());
        *tr.fn_name.borrow_mut() = fname.to_string();
        collect_local_consts(&f.block, &mut tr.consts);
        let b2 = bufname.clone();
        let (body, _) = tr.stmts(&f.block.stmts, &env, &move |v| format!("(Rs.Out.withState {v} {b2})"))?;
        for l in tr.loops.borrow_mut().drain(..) { out.push_str(&l); }
        let (rty, lty) = if fname == "read_u64" { ("Result<u64>", "Nat") } else { ("Result<Vec>", "List (List UInt8)") };
        let _ = writeln!(out, "/-- `fn {fname}({bufname})`: the result and what is left of `{bufname}` -/\ndef {fname} ({bufname} : List UInt8) : Rs.Out ({lty} × List UInt8) :=\n  {body}\n");
        tr.fns.insert(fname.to_string(), (vec![(bufname.clone(), "Bytes".into())], rty.into()));
    }
    g.emit_with_imports("BatchFn", &["SeliumModel.Rs"], &[rel], &format!("open Selium\n\n{out}"));
    Ok(())
}

fn gen_topic_fn(repo: &Path, g: &mut Gen) -> FR<()> {
    let rel = "protocol/src/topic_name.rs";
    let src = Src::load(repo, rel).map_err(|s| s.0)?;
    let mut tr = FnTr { consts: src.consts(), structs: BTreeMap::new(), enums: BTreeMap::new(), fns: BTreeMap::new(), self_ty: Some("TopicName".into()),
                        self_reads: Default::default(), buf: None, externs: BTreeMap::new(), extern_methods: BTreeMap::new(),
                        tail_k: Default::default(), loops: Default::default(), fn_name: Default::default(), str_consts: Default::default(), static_calls: Default::default(), methods: Default::default() };
    for it in &src.ast.items {
        if let Item::Struct(st) = it {
            let mut fs = vec![];
            if let Fields::Named(n) = &st.fields { for f in &n.named { fs.push((f.ident.as_ref().unwrap().to_string(), ty_str(&f.ty))); } }
            tr.structs.insert(st.ident.to_string(), fs);
        }
    }
    let iv = find_method(&src.ast, "TopicName", "is_valid", None).ok_or("`impl TopicName` has no fn is_valid")?;
    match &iv.sig.output { syn::ReturnType::Type(_, t) if ty_str(t) == "bool" => {}, _ => return Err("is_valid does not return bool".into()) }
    let (body, _) = tr.stmts(&iv.block.stmts, &FEnv::new(), &|v| format!("decide {v}"))?;
    let reads = tr.self_reads.borrow().clone();
    let mut out = String::new();
    for (n, v) in tr.str_consts.borrow().iter() { let _ = writeln!(out, "/-- `const {n}` (code points) -/\ndef {n} : List Nat := {v}\n"); }
    let mut ps: Vec<String> = tr.static_calls.borrow().iter().map(|(n, t)| format!("({n} : {t})")).collect();
    for (n, t) in reads.iter() { ps.push(format!("({n} : {})", tr.lean_ty(t)?)); }
    let _ = writeln!(out, "/-- `TopicName::is_valid(&self)`; the compiled regexes' methods are parameters\n    ({}) -/\ndef is_valid {} : Bool :=\n  {body}",
        reads.iter().map(|(n, t)| format!("{n} : {t}")).collect::<Vec<_>>().join(", "), ps.join(" "));
    g.emit_with_imports("TopicFn", &["SeliumModel.Rs"], &[rel], &format!("open Selium\n\n{out}"));
    Ok(())
}

fn gen_msgbatch_fn(repo: &Path, g: &mut Gen) -> FR<()> {
    let rel = "client/src/batching/message_batch.rs";
    let cfg_rel = "client/src/batching/batch_config.rs";
    let src = Src::load(repo, rel).map_err(|s| s.0)?;
    let cfg = Src::load(repo, cfg_rel).map_err(|s| s.0)?;
    let mut tr = FnTr { consts: src.consts(), structs: BTreeMap::new(), enums: BTreeMap::new(), fns: BTreeMap::new(), self_ty: Some("MessageBatch".into()),
                        self_reads: Default::default(), buf: None, externs: BTreeMap::new(), extern_methods: BTreeMap::new(),
                        tail_k: Default::default(), loops: Default::default(), fn_name: Default::default(), str_consts: Default::default(),
                        static_calls: Default::default(), methods: Default::default() };
    for file in [&src, &cfg] {
        for it in &file.ast.items {
            if let Item::Struct(st) = it {
                let mut fs = vec![];
                if let Fields::Named(n) = &st.fields { for f in &n.named { fs.push((f.ident.as_ref().unwrap().to_string(), ty_str(&f.ty))); } }
                tr.structs.insert(st.ident.to_string(), fs);
            }
        }
    }
    let mut out = String::new();
    for mname in ["exceeded_interval", "exceeded_batch_size", "is_ready"] {
        let f = find_method(&src.ast, "MessageBatch", mname, None).ok_or_else(|| format!("`impl MessageBatch` has no fn {mname}"))?;
        match &f.sig.output { syn::ReturnType::Type(_, t) if ty_str(t) == "bool" => {}, _ => return Err(format!("{mname} does not return bool")) }
        let mut env = FEnv::new();
        let mut params = vec![];
        for a in &f.sig.inputs {
            if let syn::FnArg::Typed(pt) = a {
                let n = match &*pt.pat { Pat::Ident(i) => i.ident.to_string(), _ => return Err("parameter pattern".into()) };
                let t = ty_str(&pt.ty);
                params.push((n.clone(), t.clone()));
                env.insert(n, t);
            }
        }
        tr.self_reads.borrow_mut().clear();
        let (body, _) = tr.stmts(&f.block.stmts, &env, &|v| format!("decide {v}"))?;
        let reads: Vec<(String, String)> = tr.self_reads.borrow().iter().map(|(a, b)| (a.clone(), b.clone())).collect();
        let mut ps: Vec<String> = vec![];
        for (n, t) in &reads { ps.push(format!("({n} : {})", tr.lean_ty(t)?)); }
        for (n, t) in &params { ps.push(format!("({n} : {})", tr.lean_ty(t)?)); }
        let _ = writeln!(out, "/-- `MessageBatch::{mname}(&self{})`\n    ({}) -/\ndef {mname} {} : Bool :=\n  {body}\n",
            params.iter().map(|(n, t)| format!(", {n}: {t}")).collect::<String>(),
            reads.iter().map(|(n, t)| format!("{n} : {t}")).collect::<Vec<_>>().join(", "), ps.join(" "));
        tr.methods.borrow_mut().insert(mname.to_string(), (reads, params.len(), "bool".into()));
    }
    g.emit_with_imports("MsgBatchFn", &["SeliumModel.Rs"], &[rel, cfg_rel], &format!("open Selium\n\n{out}"));
    Ok(())
}
