//! Scripted mock children for the server's sinks and routers.
//!
//! A mock sink answers poll_ready / start_send / poll_flush / poll_close from per-operation answer queues
//! (`R`eady, `P`ending, `E`rr; start_send: `O`k / `E`rr); when a queue is exhausted the answer is Ready / Ok.
//! A mock stream answers poll_next from a queue of `i<n>` (item), `x` (error item), `p` (pending); when the
//! queue is exhausted the stream has ended. Every call is appended to a shared log; a `Pending` answer stores
//! the caller's waker (the Sink/Stream contract), which the log records.
use futures::{Sink, Stream};
use selium_std::errors::SeliumError;
use std::collections::VecDeque;
use std::pin::Pin;
use std::sync::{Arc, Mutex};
use std::task::{Context, Poll, Waker};

#[derive(Clone, Copy, Debug, PartialEq, Eq)]
pub enum A {
    Ready,
    Pending,
    Err,
}

impl A {
    pub fn ch(self) -> char {
        match self { A::Ready => 'R', A::Pending => 'P', A::Err => 'E' }
    }
    pub fn parse(c: char) -> A {
        match c { 'R' => A::Ready, 'P' => A::Pending, 'E' => A::Err, _ => panic!("bad answer {c}") }
    }
}

#[derive(Clone, Debug, Default)]
pub struct SinkScript {
    pub ready: VecDeque<A>,
    pub send: VecDeque<bool>,
    pub flush: VecDeque<A>,
    pub close: VecDeque<A>,
}

impl SinkScript {
    /// `r=RPE;s=OE;f=;c=R` (any part may be empty or missing)
    pub fn parse(t: &str) -> SinkScript {
        let mut s = SinkScript::default();
        if t == "_" { return s; }
        for part in t.split(';') {
            if part.is_empty() { continue; }
            let (k, v) = part.split_once('=').unwrap_or((part, ""));
            match k {
                "r" => s.ready = v.chars().map(A::parse).collect(),
                "s" => s.send = v.chars().map(|c| c == 'O').collect(),
                "f" => s.flush = v.chars().map(A::parse).collect(),
                "c" => s.close = v.chars().map(A::parse).collect(),
                _ => panic!("bad sink script part {part}"),
            }
        }
        s
    }
    pub fn text(&self) -> String {
        let a = |q: &VecDeque<A>| q.iter().map(|x| x.ch()).collect::<String>();
        format!("r={};s={};f={};c={}", a(&self.ready), self.send.iter().map(|b| if *b { 'O' } else { 'E' }).collect::<String>(), a(&self.flush), a(&self.close))
    }
}

#[derive(Clone, Debug, PartialEq)]
pub enum SAns<T> {
    Item(T),
    Err,
    Pending,
}

#[derive(Clone, Debug, PartialEq)]
pub enum Ev<T> {
    SinkReady(usize, A),
    SinkSend(usize, T, bool),
    SinkFlush(usize, A),
    SinkClose(usize, A),
    StreamItem(usize, T),
    StreamErr(usize),
    StreamPending(usize),
    StreamEnd(usize),
    Dropped(char, usize),
}

pub struct Log<T> {
    pub events: Vec<Ev<T>>,
    /// when set: a child call that would make `events` longer than this panics with "SPIN" (a poll that never
    /// returns would otherwise hang the harness)
    pub spin_guard: Option<usize>,
    /// wakers stored by children that answered Pending, with the child that holds each
    pub wakers: Vec<(char, usize, Waker)>,
}

impl<T> Log<T> {
    pub fn push(&mut self, e: Ev<T>) {
        if let Some(g) = self.spin_guard {
            if self.events.len() >= g {
                self.spin_guard = None;
                panic!("SPIN: the future under test keeps calling its children without returning");
            }
        }
        self.events.push(e);
    }
}

pub type SharedLog<T> = Arc<Mutex<Log<T>>>;

pub fn new_log<T>() -> SharedLog<T> {
    Arc::new(Mutex::new(Log { events: vec![], spin_guard: None, wakers: vec![] }))
}

pub struct MockSink<T> {
    pub id: usize,
    pub kind: char, // 'k' subscriber/requestor sink, 'v' replier sink
    pub script: SinkScript,
    pub log: SharedLog<T>,
    /// a silent child answers Pending without ever firing the waker (a peer that stays stalled)
    pub silent: bool,
}

impl<T> Drop for MockSink<T> {
    fn drop(&mut self) {
        if let Ok(mut l) = self.log.lock() {
            l.events.push(Ev::Dropped(self.kind, self.id));
        }
    }
}

fn answer<T>(me: char, id: usize, silent: bool, log: &SharedLog<T>, a: A, cx: &mut Context<'_>) -> Poll<Result<(), String>> {
    match a {
        A::Ready => Poll::Ready(Ok(())),
        A::Err => Poll::Ready(Err(format!("mock {me}{id} failed"))),
        A::Pending => {
            if !silent { log.lock().unwrap_or_else(|e| e.into_inner()).wakers.push((me, id, cx.waker().clone())); }
            Poll::Pending
        }
    }
}

impl<T: Clone + Unpin> Sink<T> for MockSink<T> {
    type Error = String;
    fn poll_ready(mut self: Pin<&mut Self>, cx: &mut Context<'_>) -> Poll<Result<(), String>> {
        let a = self.script.ready.pop_front().unwrap_or(A::Ready);
        self.log.lock().unwrap_or_else(|e| e.into_inner()).push(Ev::SinkReady(self.id, a));
        answer(self.kind, self.id, self.silent, &self.log, a, cx)
    }
    fn start_send(mut self: Pin<&mut Self>, item: T) -> Result<(), String> {
        let ok = self.script.send.pop_front().unwrap_or(true);
        self.log.lock().unwrap_or_else(|e| e.into_inner()).push(Ev::SinkSend(self.id, item, ok));
        if ok { Ok(()) } else { Err(format!("mock {}{} refused the item", self.kind, self.id)) }
    }
    fn poll_flush(mut self: Pin<&mut Self>, cx: &mut Context<'_>) -> Poll<Result<(), String>> {
        let a = self.script.flush.pop_front().unwrap_or(A::Ready);
        self.log.lock().unwrap_or_else(|e| e.into_inner()).push(Ev::SinkFlush(self.id, a));
        answer(self.kind, self.id, self.silent, &self.log, a, cx)
    }
    fn poll_close(mut self: Pin<&mut Self>, cx: &mut Context<'_>) -> Poll<Result<(), String>> {
        let a = self.script.close.pop_front().unwrap_or(A::Ready);
        self.log.lock().unwrap_or_else(|e| e.into_inner()).push(Ev::SinkClose(self.id, a));
        answer(self.kind, self.id, self.silent, &self.log, a, cx)
    }
}

pub struct MockStream<T> {
    pub id: usize,
    pub kind: char, // 't' publisher/requestor stream, 'w' replier stream
    pub script: VecDeque<SAns<T>>,
    pub log: SharedLog<T>,
    pub silent: bool,
}

impl<T: Clone + Unpin> Stream for MockStream<T> {
    type Item = Result<T, SeliumError>;
    fn poll_next(mut self: Pin<&mut Self>, cx: &mut Context<'_>) -> Poll<Option<Self::Item>> {
        let id = self.id;
        match self.script.pop_front() {
            None => { self.log.lock().unwrap_or_else(|e| e.into_inner()).push(Ev::StreamEnd(id)); Poll::Ready(None) }
            Some(SAns::Item(t)) => { self.log.lock().unwrap_or_else(|e| e.into_inner()).push(Ev::StreamItem(id, t.clone())); Poll::Ready(Some(Ok(t))) }
            Some(SAns::Err) => { self.log.lock().unwrap_or_else(|e| e.into_inner()).push(Ev::StreamErr(id)); Poll::Ready(Some(Err(SeliumError::RequestFailed))) }
            Some(SAns::Pending) => {
                let mut l = self.log.lock().unwrap_or_else(|e| e.into_inner());
                l.push(Ev::StreamPending(id));
                if !self.silent { l.wakers.push((self.kind, id, cx.waker().clone())); }
                Poll::Pending
            }
        }
    }
}

/// a waker that counts how often it was woken
pub struct CountWake(pub std::sync::atomic::AtomicUsize);
impl std::task::Wake for CountWake {
    fn wake(self: Arc<Self>) { self.0.fetch_add(1, std::sync::atomic::Ordering::SeqCst); }
}
