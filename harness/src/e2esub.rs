//! C06 / C03 (consuming side): a library `Subscriber` fed arbitrary frames by a raw publisher through a real server.
//!   ppraw <codec: string|bytes|bincode> <algo|-> <frame>;<frame>;…
//! frames: `M=<hx>` a Message frame with that payload, `B=<hx>` a BatchMessage frame, `OK`, `E` (frames a
//! subscriber does not expect). With a compression algorithm every payload is annotated by the harness as
//! `<hx>><hx>` (what the library's decompressor makes of it) or `<hx>>!` (it reports an error), so that the model,
//! which has no DEFLATE/zstd/… of its own, can follow the rest of the pipeline (unbatch, decode).
//! Implementation line: what the subscriber yields, `ok:<hx of the value's bytes>` / `err`, in order, then
//! `end` (the stream returned None) or `open` (nothing more came).
use crate::codec::{compressor, decompressor, DynDecomp};
use crate::e2e::*;
use crate::util::*;
use bytes::Bytes;
use futures::{SinkExt, StreamExt};
use selium::keep_alive::BackoffStrategy;
use selium::prelude::*;
use selium::std::codecs::{BincodeCodec, BytesCodec, StringCodec};
use selium_protocol::{Frame, MessagePayload, PublisherPayload, TopicName};
use std::net::SocketAddr;
use std::sync::atomic::{AtomicUsize, Ordering};
use std::time::Duration;

static TOPIC: AtomicUsize = AtomicUsize::new(0);

fn frame_of(tok: &str) -> Frame {
    let wire = |t: &str| unhx(t.split('>').next().unwrap());
    if let Some(p) = tok.strip_prefix("M=") { Frame::Message(MessagePayload { headers: None, message: Bytes::from(wire(p)) }) }
    else if let Some(p) = tok.strip_prefix("B=") { Frame::BatchMessage(Bytes::from(wire(p))) }
    else if tok == "OK" { Frame::Ok }
    else { Frame::Error(selium_protocol::ErrorPayload { code: 1, message: Bytes::from_static(b"x") }) }
}

async fn run_case(addr: SocketAddr, certs: &Certs, codec: &str, algo: &str, frames: &[&str]) -> anyhow::Result<String> {
    let topic = format!("/verif/raw{}", TOPIC.fetch_add(1, Ordering::SeqCst));
    let client = client(addr, certs, BackoffStrategy::constant().with_max_attempts(0)).await?;
    macro_rules! drive {
        ($dec:expr, $show:expr) => {{
            let mut sb = client.subscriber(&topic).with_decoder($dec);
            if algo != "-" { sb = sb.with_decompression(DynDecomp(decompressor(algo))); }
            let mut sub = sb.open().await?;
            tokio::time::sleep(Duration::from_millis(40)).await;
            let conn = raw_connect(addr, &certs.client("ca.der"), Some((&certs.client("localhost.der"), &certs.client("localhost.key.der")))).await?;
            let mut s = raw_stream(&conn).await?;
            s.send(Frame::RegisterPublisher(PublisherPayload { topic: TopicName::try_from(topic.as_str())?, retention_policy: 0, operations: vec![] })).await?;
            match s.next().await { Some(Ok(Frame::Ok)) => {}, other => anyhow::bail!("publisher registration answered {other:?}") }
            for f in frames { s.send(frame_of(f)).await?; }
            let mut outs: Vec<String> = vec![];
            let mut tail = "open";
            // how long nothing has to come before the subscriber counts as at rest: thousands of frames that yield nothing
            // take their time on a busy machine
            let quiet_ms: u64 = if frames.len() > 1000 { 8000 } else { 400 };
            // the subscriber is driven by a task of its own: a panic inside it is an observation, not the harness's end
            let h = tokio::spawn(async move {
                let mut v = vec![];
                let mut tail = "open";
                loop {
                    match tokio::time::timeout(Duration::from_millis(quiet_ms), sub.next()).await {
                        Err(_) => break,
                        Ok(None) => { tail = "end"; break; }
                        Ok(Some(Ok(x))) => v.push(format!("ok:{}", hx(&$show(x)))),
                        // the inner stream ended (an unexpected frame): with a retry budget of 0 the keep-alive wrapper
                        // reports exhaustion from then on
                        Ok(Some(Err(selium::std::errors::SeliumError::Quic(selium::std::errors::QuicError::TooManyRetries)))) => { tail = "end"; break; }
                        Ok(Some(Err(_))) => v.push("err".to_string()),
                    }
                    if v.len() > 400 { break; }
                }
                (v, tail)
            });
            match h.await { Ok((v, t)) => { outs = v; tail = t; } Err(e) => { outs.push(if e.is_panic() { "PANIC".into() } else { "aborted".into() }); } }
            drop(s);
            format!("{} {tail}", if outs.is_empty() { "-".to_string() } else { outs.join(",") })
        }};
    }
    Ok(match codec {
        "string" => drive!(StringCodec, |v: String| v.into_bytes()),
        "bytes" => drive!(BytesCodec, |v: Vec<u8>| v),
        _ => drive!(BincodeCodec::<(u32, String)>::default(), |v: (u32, String)| bincode::serialize(&v).unwrap()),
    })
}

fn item(r: &mut Rng, codec: &str) -> Vec<u8> {
    let texts = ["", "a", "hello", "日本", "x|y", "0123456789012345678901234567890123456789"];
    let s = r.pick(&texts[..]).to_string();
    match codec { "bincode" => bincode::serialize(&(r.below(1000) as u32, s)).unwrap(), _ => s.into_bytes() }
}

fn batch_of(items: &[Vec<u8>]) -> Vec<u8> {
    let mut v = (items.len() as u64).to_be_bytes().to_vec();
    for i in items { v.extend_from_slice(&(i.len() as u64).to_be_bytes()); v.extend_from_slice(i); }
    v
}

fn damage(r: &mut Rng, mut v: Vec<u8>) -> Vec<u8> {
    match r.below(5) {
        0 => { let k = r.below(v.len() as u64 + 1) as usize; v.truncate(k); }
        1 => { if !v.is_empty() { let k = r.below(v.len() as u64) as usize; v[k] ^= 1 << r.below(8); } }
        2 => { if v.len() >= 8 { let x: u64 = *r.pick(&[u64::MAX, 1 << 40, 1 << 33, 3, 0]); let k = r.below((v.len() - 7) as u64) as usize; v[k..k + 8].copy_from_slice(&x.to_be_bytes()); } }
        3 => { let n = r.below(5) as usize; v.extend(r.bytes(n)); }
        _ => { let n = r.below(20) as usize; v = r.bytes(n); }
    }
    v
}

fn gen_frames(r: &mut Rng, codec: &str, algo: &str) -> Vec<String> {
    let n = r.below(5) + 1;
    let mut out = vec![];
    let wrap = |r: &mut Rng, inner: Vec<u8>| -> Vec<u8> {
        if algo == "-" { return inner; }
        // mostly a genuine compression of the (possibly damaged) inner bytes, sometimes damaged after compression
        let z = compressor(&algo.replace(":-", ":bal")).compress(Bytes::from(inner.clone())).map(|b| b.to_vec()).unwrap_or_default();
        match r.below(6) { 0 => damage(r, z), 1 => inner, _ => z }
    };
    for _ in 0..n {
        match r.below(12) {
            0 => out.push("OK".to_string()),
            1 => out.push("E".to_string()),
            2..=5 => { let it = item(r, codec); let it = if r.chance(1, 3) { damage(r, it) } else { it }; out.push(format!("M={}", hx(&wrap(r, it)))); }
            _ => {
                let k = r.below(4) as usize;
                let items: Vec<Vec<u8>> = (0..k).map(|_| { let it = item(r, codec); if r.chance(1, 6) { damage(r, it) } else { it } }).collect();
                let b = batch_of(&items);
                let b = if r.chance(1, 3) { damage(r, b) } else { b };
                out.push(format!("B={}", hx(&wrap(r, b))));
            }
        }
    }
    out
}

/// What the property prescribes for the items a subscriber yields, computed here without the subscriber: a payload that
/// does not decompress is one error; a `Message` payload is decoded; a `BatchMessage` payload that is no well-formed
/// batch is one error, otherwise each member is decoded (an undecodable member is an error of its own). Returns the items
/// up to the first frame a subscriber does not expect, and whether there was one.
fn expected_items(codec: &str, frames: &[&str]) -> (Vec<String>, bool) {
    fn decode1(codec: &str, b: &[u8]) -> String {
        match codec {
            "string" => match std::str::from_utf8(b) { Ok(_) => format!("ok:{}", hx(b)), Err(_) => "err".into() },
            "bytes" => format!("ok:{}", hx(b)),
            _ => match bincode::deserialize::<(u32, String)>(b) { Ok(v) => format!("ok:{}", hx(&bincode::serialize(&v).unwrap())), Err(_) => "err".into() },
        }
    }
    fn unbatch(b: &[u8]) -> Option<Vec<Vec<u8>>> {
        if b.len() < 8 { return None; }
        let n = u64::from_be_bytes(b[..8].try_into().unwrap());
        let (mut i, mut out) = (8usize, vec![]);
        for _ in 0..n {
            if b.len() - i < 8 { return None; }
            let l = u64::from_be_bytes(b[i..i + 8].try_into().unwrap());
            i += 8;
            if ((b.len() - i) as u64) < l { return None; }
            out.push(b[i..i + l as usize].to_vec());
            i += l as usize;
        }
        Some(out)
    }
    let mut out = vec![];
    for f in frames {
        let (kind, p) = if let Some(p) = f.strip_prefix("M=") { ('M', p) } else if let Some(p) = f.strip_prefix("B=") { ('B', p) } else { return (out, true) };
        // `<wire>><plain>` / `<wire>>!` with a decompressor, `<wire>` without
        let plain = match p.split_once('>') { Some((_, "!")) => None, Some((_, d)) => Some(unhx(d)), None => Some(unhx(p)) };
        match (kind, plain) {
            (_, None) => out.push("err".to_string()),
            ('M', Some(b)) => out.push(decode1(codec, &b)),
            (_, Some(b)) => match unbatch(&b) { None => out.push("err".to_string()), Some(ms) => for m in ms { out.push(decode1(codec, &m)); } },
        }
    }
    (out, false)
}

/// annotate payloads with what the library's decompressor makes of them
fn annotate(tok: &str, algo: &str) -> String {
    if algo == "-" || !(tok.starts_with("M=") || tok.starts_with("B=")) { return tok.to_string(); }
    let (k, p) = tok.split_at(2);
    let wire = p.split('>').next().unwrap();
    let d = crate::childrun::guarded("dcx", format!("{algo} {wire}").as_bytes());
    let shown = match d { crate::childrun::Outcome::Value(v) => v, _ => "?".into() };
    format!("{k}{wire}>{shown}")
}

/// child side of `annotate`: `<algo> <hx>` -> `<hx of the decompressed bytes>` | `!`
pub fn dcx(input: &[u8]) -> String {
    let t = String::from_utf8_lossy(input).to_string();
    let (algo, w) = t.split_once(' ').unwrap();
    match decompressor(algo).decompress(Bytes::from(unhx(w))) { Ok(b) => hx(&b), Err(_) => "!".into() }
}

/// child side of a case that is run in the guarded child process (its own server and certificates), so that a
/// subscriber that brings the whole process down is an observation: `<codec> <algo> <frames>` -> implementation line
pub fn child_case(input: &[u8]) -> String {
    let t = String::from_utf8_lossy(input).to_string();
    let t: Vec<&str> = t.split(' ').collect();
    let frames = expand(t[2], t[1]);
    let fr: Vec<&str> = frames.iter().map(|s| s.as_str()).collect();
    let rt = runtime();
    let certs = match Certs::generate(&scratch_dir("subchild")) { Ok(c) => c, Err(e) => return format!("ERROR certs {e}") };
    let addr = match rt.block_on(async { start_server(&certs) }) { Ok(a) => a, Err(e) => return format!("ERROR server {e}") };
    let res = rt.block_on(async { tokio::time::timeout(Duration::from_secs(40), run_case(addr, &certs, t[0], t[1], &fr)).await });
    let _ = std::fs::remove_dir_all(&certs.dir);
    match res { Err(_) => "TIMEOUT".into(), Ok(Err(e)) => format!("ERROR {}", format!("{e:?}").replace('\n', " ").chars().take(160).collect::<String>()), Ok(Ok(l)) => l }
}

/// `<n>*<frame>` stands for n copies of the frame
fn expand(frames: &str, algo: &str) -> Vec<String> {
    frames.split(';').flat_map(|f| match f.split_once('*') {
        Some((n, g)) if n.chars().all(|c| c.is_ascii_digit()) && !n.is_empty() => vec![annotate(g, algo); n.parse::<usize>().unwrap_or(1)],
        _ => vec![annotate(f, algo)],
    }).collect()
}

pub fn run(cfg: &Cfg) {
    let mut out = Out::new(&cfg.out, "e2esub");
    let rt = runtime();
    let certs = Certs::generate(&scratch_dir("sub")).expect("certificates");
    let addr = rt.block_on(async { start_server(&certs) }).expect("server");
    let mut cases: Vec<String> = vec![];
    if let Some(lines) = cfg.replay_lines() {
        cases = lines;
    } else {
        let b = |items: &[&[u8]]| hx(&batch_of(&items.iter().map(|i| i.to_vec()).collect::<Vec<_>>()));
        // hand-written: order inside and across batches, empty batch, garbage, unexpected kinds, adversarial counts
        for c in [
            format!("ppraw string - M=6869;B={};M=7a", b(&[b"a", b"b", b"c"])),
            format!("ppraw string - B={};B={};M=78", b(&[]), b(&[b"q"])),
            "ppraw string - M=ff;M=6f6b".to_string(),
            "ppraw string - B=0000000000000002+0000000000000001+61;M=6f6b".to_string(),
            "ppraw string - B=~8*ff;M=6f6b".to_string(),
            "ppraw string - B=0000000000000001+~8*ff;M=6f6b".to_string(),
            "ppraw bytes - B=-;M=-".to_string(),
            "ppraw bytes - M=61;OK;M=62".to_string(),
            "ppraw bytes - E;M=62".to_string(),
            "ppraw bincode - M=07000000+0100000000000000+61;M=0700;M=07000000+~8*ff".to_string(),
            // long runs of frames that yield nothing (empty batches), already buffered when the subscriber first polls
            "ppraw bytes - 30000*B=~8*00;M=61".to_string(),
            "ppraw string - 2000*B=~8*00;B=0000000000000001+0000000000000001+62;5000*B=~8*00;M=61".to_string(),
        ] { cases.push(c); }
        // frames with an empty body reaching a subscriber that decompresses (some decompressors make an empty value of
        // nothing, others report an error: either way the subscriber yields something and goes on)
        for algo in ["gzip:-", "zlib:-", "zstd:-", "lz4:-", "brg:-"] {
            cases.push(format!("ppraw bytes {algo} M=-;M=-;B=-;M=-"));
            cases.push(format!("ppraw string {algo} B=-;M=-"));
        }
        let mut r = Rng::new(cfg.seed, "e2esub");
        let algos = ["-", "-", "gzip:-", "zlib:-", "zstd:-", "lz4:-", "brg:-"];
        for i in 0..cfg.n(36, 600) {
            let codec = ["string", "bytes", "bincode"][i as usize % 3];
            let algo = *r.pick(&algos[..]);
            cases.push(format!("ppraw {codec} {algo} {}", gen_frames(&mut r, codec, algo).join(";")));
        }
    }
    for c in &cases {
        let t: Vec<&str> = c.split(' ').collect();
        let frames: Vec<String> = expand(t[3], t[2]);
        let fr: Vec<&str> = frames.iter().map(|s| s.as_str()).collect();
        let line = if c.contains('*') && t[2] == "-" { c.clone() } else { format!("ppraw {} {} {}", t[1], t[2], frames.join(";")) };
        // long runs of frames go through the guarded child: a subscriber that overflows its stack aborts the process
        let big = c.contains('*');
        let res = if big {
            match crate::childrun::guarded_timeout("ppraw1", format!("{} {} {}", t[1], t[2], t[3]).as_bytes(), Duration::from_secs(90)) {
                crate::childrun::Outcome::Value(v) => Ok(Ok(v)),
                crate::childrun::Outcome::Panic(p) => Ok(Ok(format!("PANIC {p}"))),
                crate::childrun::Outcome::Abort(st) => Ok(Ok(format!("ABORT {st}"))),
                crate::childrun::Outcome::Hang => Ok(Ok("TIMEOUT".to_string())),
            }
        } else {
            rt.block_on(async { tokio::time::timeout(Duration::from_secs(30), run_case(addr, &certs, t[1], t[2], &fr)).await })
        };
        let (imp, mon) = match res {
            Err(_) => ("TIMEOUT".to_string(), Err("C06: the subscriber did not come to rest within 30 s".to_string())),
            Ok(Err(e)) => (format!("ERROR {}", format!("{e:?}").replace('\n', " ").chars().take(160).collect::<String>()), Err(format!("{e}"))),
            Ok(Ok(l)) => {
                let m = if l.contains("PANIC") { Err("C06: the subscriber panicked on what a publisher sent".to_string()) }
                    else if l.starts_with("ABORT") { Err("C06: the consuming process was aborted (stack overflow / allocation failure) by frames a publisher sent".to_string()) }
                    else if l.starts_with("TIMEOUT") { Err("C06: the subscriber did not come to rest".to_string()) }
                    else {
                        // the values: what decompress / unbatch / decode make of each frame, item by item (a batch of 30 000 empty
                        // batches is left to the comparison with the model)
                        let (want, cut) = if big { (vec![], true) } else { expected_items(t[1], &fr) };
                        let got: Vec<&str> = l.split(' ').next().unwrap_or("-").split(',').filter(|x| *x != "-").collect();
                        let same = if cut { got.len() >= want.len() && got[..want.len()].iter().zip(want.iter()).all(|(a, b)| a == b) } else { got.len() == want.len() && got.iter().zip(want.iter()).all(|(a, b)| a == b) };
                        if same { Ok(()) } else { Err(format!("C03/C14: the subscriber yielded [{}] where decompress / unbatch / decode of the frames it was sent give [{}]{}", got.join(","), want.join(","), if cut { " (then a frame it does not expect)" } else { "" })) }
                    };
                (l, m)
            }
        };
        out.stat(&format!("codec_{}", t[1]));
        out.stat(&format!("algo_{}", t[2].split(':').next().unwrap()));
        if imp.contains("err") { out.stat("with_error_item"); }
        if imp.ends_with("end") { out.stat("ended_by_unexpected_frame"); }
        out.case(&line, &imp, mon);
    }
    let _ = std::fs::remove_dir_all(&certs.dir);
    out.finish();
}
