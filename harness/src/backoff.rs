//! C13: BackoffStrategy schedules. Case line:
//!   bo <L|C|E> <factor> <step_secs> <step_nanos> <attempts> <-|max_secs:max_nanos> <take>
//! Implementation line: `n:secs:nanos:max ...|more=<0|1>` or `... PANIC` when next() panicked.
use crate::util::*;
use selium::keep_alive::BackoffStrategy;
use std::time::Duration;

const NANOS: u128 = 1_000_000_000;

#[derive(Clone, Debug)]
struct Case {
    strat: char,
    factor: u64,
    step: Duration,
    attempts: u32,
    max: Option<Duration>,
    take: u32,
}

impl Case {
    fn line(&self) -> String {
        let max = match self.max {
            None => "-".to_string(),
            Some(d) => format!("{}:{}", d.as_secs(), d.subsec_nanos()),
        };
        format!(
            "bo {} {} {} {} {} {} {}",
            self.strat, self.factor, self.step.as_secs(), self.step.subsec_nanos(), self.attempts, max, self.take
        )
    }
    fn parse(l: &str) -> Case {
        let t: Vec<&str> = l.split_whitespace().collect();
        assert_eq!(t[0], "bo");
        let max = if t[6] == "-" {
            None
        } else {
            let (s, n) = t[6].split_once(':').unwrap();
            Some(Duration::new(s.parse().unwrap(), n.parse().unwrap()))
        };
        Case {
            strat: t[1].chars().next().unwrap(),
            factor: t[2].parse().unwrap(),
            step: Duration::new(t[3].parse().unwrap(), t[4].parse().unwrap()),
            attempts: t[5].parse().unwrap(),
            max,
            take: t[7].parse().unwrap(),
        }
    }
}

fn dur_nanos(d: Duration) -> u128 {
    d.as_secs() as u128 * NANOS + d.subsec_nanos() as u128
}

/// The law of C13 computed independently of the implementation, in saturating 128-bit arithmetic.
fn law(c: &Case, attempt: u32) -> u128 {
    let dmax = dur_nanos(Duration::MAX);
    let step = dur_nanos(c.step);
    let raw: Option<u128> = match c.strat {
        'C' => Some(step),
        'L' => step.checked_mul(attempt as u128),
        'E' => {
            let mut m: Option<u128> = Some(1);
            for _ in 0..(attempt - 1) {
                m = m.and_then(|x| x.checked_mul(c.factor as u128));
                if m.is_none() { break; }
                // keep going only while it can still matter: once > dmax and step > 0 it saturates, but
                // a zero step keeps the product at zero whatever the multiplier
                if m.unwrap() > dmax && c.factor > 1 { m = None; break; }
            }
            match m {
                Some(m) => step.checked_mul(m),
                None => if step == 0 { Some(0) } else { None },
            }
        }
        _ => unreachable!(),
    };
    let sat = raw.map(|x| x.min(dmax)).unwrap_or(dmax);
    match c.max {
        Some(mx) => sat.min(dur_nanos(mx)),
        None => sat,
    }
}

/// The configuration is what the last call of each setter said, in whatever order the setters were called and whatever
/// they were given before: `order` picks one of the six orders of (attempts, step, maximum) and whether each setter is
/// first called with another value.
fn build(c: &Case, order: u64) -> BackoffStrategy {
    let mut b = match c.strat {
        'L' => BackoffStrategy::linear(),
        'C' => BackoffStrategy::constant(),
        'E' => BackoffStrategy::exponential(c.factor),
        _ => unreachable!(),
    };
    let perms = [[0, 1, 2], [0, 2, 1], [1, 0, 2], [1, 2, 0], [2, 0, 1], [2, 1, 0]];
    let twice = (order / 6) % 8;
    if twice & 1 != 0 { b = b.with_max_attempts(c.attempts.wrapping_add(7)); }
    if twice & 2 != 0 { b = b.with_step(c.step.saturating_add(Duration::from_millis(1500))); }
    if twice & 4 != 0 { if let Some(m) = c.max { b = b.with_max_duration(Duration::from_nanos((dur_nanos(m) / 3) as u64)); } }
    for k in perms[(order % 6) as usize] {
        match k {
            0 => b = b.with_max_attempts(c.attempts),
            1 => b = b.with_step(c.step),
            _ => if let Some(m) = c.max { b = b.with_max_duration(m); },
        }
    }
    b
}

fn run_case(c: &Case) -> (String, Result<(), String>) {
    // (the order is a function of the case, so that a replay builds the same way)
    let order = c.line().bytes().fold(0u64, |h, x| h.wrapping_mul(131).wrapping_add(x as u64));
    let b = build(c, order);
    let mut it = b.into_iter();
    let mut out = String::new();
    let mut mon: Result<(), String> = Ok(());
    let mut produced = 0u32;
    let mut more = false;
    let mut panicked = false;
    loop {
        if produced == c.take {
            // one more draw tells whether the schedule continues past the window we print
            match catch(|| it.next()) {
                Ok(x) => more = x.is_some(),
                Err(_) => panicked = true,
            }
            break;
        }
        match catch(|| it.next()) {
            Err(_) => { panicked = true; break; }
            Ok(None) => break,
            Ok(Some(n)) => {
                produced += 1;
                out.push_str(&format!(
                    "{}:{}:{}:{} ", n.attempt_num, n.duration.as_secs(), n.duration.subsec_nanos(), n.max_attempts
                ));
                if mon.is_ok() {
                    if n.attempt_num != produced {
                        mon = Err(format!("C13: attempt {} numbered {}", produced, n.attempt_num));
                    } else if n.max_attempts != c.attempts {
                        mon = Err(format!("C13: max_attempts reported {} configured {}", n.max_attempts, c.attempts));
                    } else if dur_nanos(n.duration) != law(c, produced) {
                        mon = Err(format!("C13: attempt {}: delay {}ns, law gives {}ns", produced, dur_nanos(n.duration), law(c, produced)));
                    }
                }
            }
        }
    }
    // the same schedule through the rest of the Iterator protocol (what `collect`, `zip`, `len`-style callers use): the
    // size hints of a fresh and of an exhausted iterator, and `collect()`, must not panic and must agree with `next()`
    if !panicked && mon.is_ok() && c.attempts <= 4096 {
        let r = catch(|| {
            let mut it = build(c, order / 7).into_iter();
            let h0 = it.size_hint();
            let v: Vec<_> = it.by_ref().collect();
            let h1 = it.size_hint();
            let again = it.next().is_some();
            (h0, v.iter().map(|n| (n.attempt_num, dur_nanos(n.duration))).collect::<Vec<_>>(), h1, again)
        });
        match r {
            Err(p) => mon = Err(format!("C12/C13: the schedule iterator panicked outside next() (size_hint / collect): {p}")),
            Ok((h0, v, h1, again)) => {
                let n = c.attempts as usize;
                if v.len() != n { mon = Err(format!("C12/C13: collect() yields {} attempts, configured {n}", v.len())); }
                else if let Some((i, (num, d))) = v.iter().enumerate().find(|(i, (num, d))| *num as usize != i + 1 || *d != law(c, *i as u32 + 1)) { mon = Err(format!("C13: collect(): attempt {} is numbered {num} with delay {d}ns, law gives {}ns", i + 1, law(c, i as u32 + 1))); }
                else if h0.0 > n || h0.1.map(|u| u < n).unwrap_or(false) { mon = Err(format!("C13: size_hint {h0:?} of a fresh schedule of {n} attempts")); }
                else if h1.0 != 0 || again { mon = Err(format!("C12/C13: an exhausted schedule reports size_hint {h1:?} / yields again: {again}")); }
            }
        }
    }
    if panicked {
        out.push_str("PANIC");
        if mon.is_ok() {
            mon = Err(format!("C12/C13: next() panicked producing attempt {}", produced + 1));
        }
    } else {
        out.push_str(&format!("|more={}", more as u8));
        if mon.is_ok() {
            let expect_total = c.attempts;
            if produced < c.take && produced != expect_total {
                mon = Err(format!("C12/C13: the schedule ended after {} attempts, configured {} (a stream gives up before its budget is used)", produced, expect_total));
            }
            if produced == c.take && more != (expect_total > c.take) {
                mon = Err(format!("C12/C13: after {} attempts more={}, configured {}", produced, more, expect_total));
            }
        }
    }
    (out, mon)
}

pub fn run(cfg: &Cfg) {
    let mut out = Out::new(&cfg.out, "backoff");
    let mut cases: Vec<Case> = vec![];
    if let Some(lines) = cfg.replay_lines() {
        cases = lines.iter().map(|l| Case::parse(l)).collect();
    } else {
        // structured grid: every strategy x steps x factors x attempt counts x max on/off
        let steps = [
            Duration::ZERO, Duration::new(0, 1), Duration::from_micros(750), Duration::from_micros(1500), Duration::from_millis(50), Duration::from_secs(1),
            Duration::from_millis(1750), Duration::from_millis(1900), Duration::from_millis(2500),
            Duration::new(3, 999_999_999), Duration::from_secs(u32::MAX as u64), Duration::from_secs(1 << 40),
            Duration::new(u64::MAX / 2, 5), Duration::MAX,
        ];
        let factors = [0u64, 1, 2, 3, 10, 1 << 16, (1 << 32) - 1, 1 << 32, u64::MAX];
        let attempts = [0u32, 1, 2, 5, 21, 64, 65, 70, 100];
        let maxes = [None, Some(Duration::ZERO), Some(Duration::from_secs(8)), Some(Duration::from_secs(3600)), Some(Duration::MAX)];
        for &st in &['L', 'C', 'E'] {
            for &step in &steps {
                for &f in if st == 'E' { &factors[..] } else { &factors[..1] } {
                    for &a in &attempts {
                        for &m in &maxes {
                            cases.push(Case { strat: st, factor: f, step, attempts: a, max: m, take: 128 });
                        }
                    }
                }
            }
        }
        // long schedules and the u32 edge of the attempt counter
        for &st in &['L', 'C', 'E'] {
            for &a in &[1000u32, 5000] {
                cases.push(Case { strat: st, factor: 2, step: Duration::from_millis(10), attempts: a, max: Some(Duration::from_secs(30)), take: a + 5 });
                cases.push(Case { strat: st, factor: 2, step: Duration::from_millis(10), attempts: a, max: None, take: a + 5 });
            }
            cases.push(Case { strat: st, factor: 2, step: Duration::from_secs(1), attempts: u32::MAX, max: Some(Duration::from_secs(5)), take: 200 });
        }
        // random structured configurations
        let mut r = Rng::new(cfg.seed, "backoff");
        for _ in 0..cfg.n(3000, 200_000) {
            let st = *r.pick(&['L', 'C', 'E', 'E']);
            let step = match r.below(6) {
                0 => Duration::new(0, r.below(1_000_000_000) as u32),
                1 => Duration::from_millis(r.below(10_000)),
                2 => Duration::new(r.below(100), r.below(1_000_000_000) as u32),
                3 => Duration::new(r.next() >> r.below(64), r.below(1_000_000_000) as u32),
                4 => Duration::from_secs(1 << r.below(64)),
                _ => *r.pick(&steps),
            };
            let f = match r.below(5) {
                0 => r.below(5),
                1 => r.below(20),
                2 => r.next() >> r.below(64),
                3 => 1 << r.below(64),
                _ => *r.pick(&factors),
            };
            let a = match r.below(4) { 0 => r.below(8) as u32, 1 => r.below(80) as u32, 2 => r.below(300) as u32, _ => r.below(70) as u32 + 60 };
            let m = match r.below(4) {
                0 => None,
                1 => Some(Duration::from_secs(r.below(100))),
                2 => Some(Duration::new(r.next() >> r.below(64), r.below(1_000_000_000) as u32)),
                _ => Some(Duration::from_millis(r.below(100_000))),
            };
            cases.push(Case { strat: st, factor: f, step, attempts: a, max: m, take: 320 });
        }
    }
    for c in &cases {
        let (imp, mon) = run_case(c);
        out.stat(&format!("strategy_{}", c.strat));
        out.stat(if c.max.is_some() { "max_set" } else { "max_unset" });
        out.stat(match c.attempts { 0 => "attempts_0", 1..=5 => "attempts_1_5", 6..=64 => "attempts_6_64", 65..=1000 => "attempts_65_1000", _ => "attempts_gt_1000" });
        // does the un-clamped law exceed Duration::MAX somewhere in the schedule? (the overflow region)
        let unc = Case { max: None, ..c.clone() };
        if c.attempts > 0 && law(&unc, c.attempts.min(c.take.max(1))) == dur_nanos(Duration::MAX) && c.step != Duration::MAX {
            out.stat("saturating_schedule");
        }
        if imp.ends_with("PANIC") { out.stat("impl_panicked"); }
        if c.attempts == 0 { out.mark_trivial(); }
        out.case(&c.line(), &imp, mon);
    }
    out.finish();
}
