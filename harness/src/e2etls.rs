//! C15: mutual TLS. Every pairing of client identity {trusted, otherca, selfsigned, none} and server identity
//! {trusted, otherca}, with keys generated afresh each run (two independent runs of the bundled generator give
//! CA A = the configured one and CA B = "another CA"; the self-signed certificate is made with rcgen).
//!   tls <client identity> <server identity>
//!   tls noexp noexp      both sides use a set made by the bundled generator with `--no-expiry`
//!   tls rotate <n>       CA rotation: see `rotate`
//! Throughout, the platform trust store (SSL_CERT_FILE / SSL_CERT_DIR) holds CA B only.
//! Implementation line: `accept` (connected and a publisher registration was acknowledged) or `refuse`.
use crate::e2e::*;
use crate::util::*;
use futures::{SinkExt, StreamExt};
use selium::keep_alive::BackoffStrategy;
use selium::prelude::*;
use selium::std::codecs::StringCodec;
use selium_protocol::{Frame, PublisherPayload, TopicName};
use std::net::SocketAddr;
use std::path::PathBuf;
use std::time::Duration;

fn self_signed(dir: &std::path::Path) -> anyhow::Result<(PathBuf, PathBuf)> {
    let mut params = rcgen::CertificateParams::new(vec!["localhost".to_string()]);
    params.extended_key_usages.push(rcgen::ExtendedKeyUsagePurpose::ClientAuth);
    params.key_usages.push(rcgen::KeyUsagePurpose::DigitalSignature);
    let cert = rcgen::Certificate::from_params(params)?;
    std::fs::create_dir_all(dir)?;
    let c = dir.join("self.der");
    let k = dir.join("self.key.der");
    std::fs::write(&c, cert.serialize_der()?)?;
    std::fs::write(&k, cert.serialize_private_key_der())?;
    Ok((c, k))
}

/// client certificates whose validity lapsed years ago: one self-signed, one signed by a CA of our own making
/// (neither chains to the configured CA; that they are out of date must not make them any more acceptable)
fn lapsed(dir: &std::path::Path) -> anyhow::Result<[(PathBuf, PathBuf); 2]> {
    std::fs::create_dir_all(dir)?;
    let mk = |name: &str, signer: Option<&rcgen::Certificate>| -> anyhow::Result<(PathBuf, PathBuf)> {
        let mut params = rcgen::CertificateParams::new(vec!["localhost".to_string()]);
        params.extended_key_usages.push(rcgen::ExtendedKeyUsagePurpose::ClientAuth);
        params.key_usages.push(rcgen::KeyUsagePurpose::DigitalSignature);
        params.not_before = rcgen::date_time_ymd(2020, 1, 1);
        params.not_after = rcgen::date_time_ymd(2020, 1, 6);
        let cert = rcgen::Certificate::from_params(params)?;
        let c = dir.join(format!("{name}.der"));
        let k = dir.join(format!("{name}.key.der"));
        std::fs::write(&c, match signer { Some(ca) => cert.serialize_der_with_signer(ca)?, None => cert.serialize_der()? })?;
        std::fs::write(&k, cert.serialize_private_key_der())?;
        Ok((c, k))
    };
    let mut cap = rcgen::CertificateParams::new(vec![]);
    cap.is_ca = rcgen::IsCa::Ca(rcgen::BasicConstraints::Unconstrained);
    cap.key_usages.push(rcgen::KeyUsagePurpose::KeyCertSign);
    cap.key_usages.push(rcgen::KeyUsagePurpose::DigitalSignature);
    let ca = rcgen::Certificate::from_params(cap)?;
    Ok([mk("lapsed-self", None)?, mk("lapsed-other", Some(&ca))?])
}

fn b64(d: &[u8]) -> String {
    const T: &[u8; 64] = b"ABCDEFGHIJKLMNOPQRSTUVWXYZabcdefghijklmnopqrstuvwxyz0123456789+/";
    let mut s = String::new();
    for c in d.chunks(3) {
        let n = (c[0] as u32) << 16 | (*c.get(1).unwrap_or(&0) as u32) << 8 | *c.get(2).unwrap_or(&0) as u32;
        s.push(T[(n >> 18) as usize & 63] as char);
        s.push(T[(n >> 12) as usize & 63] as char);
        s.push(if c.len() > 1 { T[(n >> 6) as usize & 63] as char } else { '=' });
        s.push(if c.len() > 2 { T[n as usize & 63] as char } else { '=' });
    }
    s
}

/// a client identity file in PEM form that bundles further certificates behind the leaf: the leaf is A's client
/// certificate, the extra one is CA B's certificate (a "full chain" file that names a foreign issuer)
fn bundle(dir: &std::path::Path, a: &Certs, b: &Certs) -> anyhow::Result<PathBuf> {
    std::fs::create_dir_all(dir)?;
    let mut pem = String::new();
    for der in [std::fs::read(a.client("localhost.der"))?, std::fs::read(b.client("ca.der"))?] {
        pem.push_str("-----BEGIN CERTIFICATE-----\n");
        let e = b64(&der);
        for line in e.as_bytes().chunks(64) { pem.push_str(std::str::from_utf8(line)?); pem.push('\n'); }
        pem.push_str("-----END CERTIFICATE-----\n");
    }
    let p = dir.join("bundle.pem");
    std::fs::write(&p, pem)?;
    Ok(p)
}

async fn attempt(addr: SocketAddr, a: &Certs, b: &Certs, selfsigned: &(PathBuf, PathBuf), bundle: &PathBuf, client_id: &str, topic: &str) -> String {
    attempt_with(addr, a, b, selfsigned, bundle, client_id, topic, None).await
}

#[allow(clippy::too_many_arguments)]
async fn attempt_with(addr: SocketAddr, a: &Certs, b: &Certs, selfsigned: &(PathBuf, PathBuf), bundle: &PathBuf, client_id: &str, topic: &str, explicit: Option<&(PathBuf, PathBuf)>) -> String {
    let r = async {
        match client_id {
            "none" => {
                // the client library always presents a certificate: a raw peer without client auth
                let conn = raw_connect(addr, &a.client("ca.der"), None).await?;
                let mut s = raw_stream(&conn).await?;
                s.send(Frame::RegisterPublisher(PublisherPayload { topic: TopicName::try_from(topic)?, retention_policy: 0, operations: vec![] })).await?;
                match s.next().await { Some(Ok(Frame::Ok)) => Ok::<_, anyhow::Error>("accept".to_string()), other => anyhow::bail!("answer {other:?}") }
            }
            _ => {
                let (cert, key) = match client_id {
                    "trusted" | "wrongca" => (a.client("localhost.der"), a.client("localhost.key.der")),
                    "otherca" => (b.client("localhost.der"), b.client("localhost.key.der")),
                    "bundle" => (bundle.clone(), a.client("localhost.key.der")),
                    _ => explicit.cloned().unwrap_or_else(|| selfsigned.clone()),
                };
                // the client is configured with CA A, whatever the server turns out to present ("wrongca": the same
                // client certificate, but configured with CA B - it must not talk to a server certified by A, however
                // many clients of this process have done so before)
                let ca = if client_id == "wrongca" { b.client("ca.der") } else { a.client("ca.der") };
                let client = client_with(addr, &ca, &cert, &key, BackoffStrategy::constant().with_max_attempts(0)).await?;
                let mut p = client.publisher(topic).with_encoder(StringCodec).open().await?;
                p.send("hello".to_string()).await?;
                Ok("accept".to_string())
            }
        }
    };
    match tokio::time::timeout(Duration::from_secs(8), r).await {
        Ok(Ok(s)) => s,
        Ok(Err(_)) => "refuse".into(),
        Err(_) => "refuse".into(),
    }
}

fn pem_of(der: &[u8]) -> String {
    let mut pem = String::from("-----BEGIN CERTIFICATE-----\n");
    let e = b64(der);
    for line in e.as_bytes().chunks(64) { pem.push_str(std::str::from_utf8(line).unwrap()); pem.push('\n'); }
    pem.push_str("-----END CERTIFICATE-----\n");
    pem
}

/// `tls rotate <n>`: the server is restarted with a different CA (same certificate and key, `--ca` now names CA B) while
/// a client certified by the old CA A keeps its TLS state - one client configuration, hence one session cache, used for
/// both connections. First a full handshake with the server that still trusts A (accepted, tickets received), then the
/// same configuration against the restarted server: it must be refused, n times over.
async fn rotate(addr_old: SocketAddr, addr_new: SocketAddr, a: &Certs, n: usize, topic: &str) -> String {
    let r = async {
        let mut roots = rustls::RootCertStore::empty();
        roots.add(&rustls::Certificate(std::fs::read(a.client("ca.der"))?))?;
        let mut crypto = rustls::ClientConfig::builder().with_safe_defaults().with_root_certificates(roots)
            .with_client_auth_cert(vec![rustls::Certificate(std::fs::read(a.client("localhost.der"))?)], rustls::PrivateKey(std::fs::read(a.client("localhost.key.der"))?))?;
        crypto.alpn_protocols = vec![b"hq-29".to_vec()];
        let cc = quinn::ClientConfig::new(std::sync::Arc::new(crypto));
        let mut endpoint = quinn::Endpoint::client("127.0.0.1:0".parse().unwrap())?;
        endpoint.set_default_client_config(cc);
        let register = |conn: quinn::Connection, topic: String| async move {
            let mut s = raw_stream(&conn).await?;
            s.send(Frame::RegisterPublisher(PublisherPayload { topic: TopicName::try_from(topic.as_str())?, retention_policy: 0, operations: vec![] })).await?;
            match s.next().await { Some(Ok(Frame::Ok)) => { conn.close(0u32.into(), b"done"); Ok::<_, anyhow::Error>(()) }, other => anyhow::bail!("answer {other:?}") }
        };
        // the old server: accepted (otherwise the scenario is void)
        let conn = endpoint.connect(addr_old, "localhost")?.await?;
        register(conn, topic.to_string()).await.map_err(|e| anyhow::anyhow!("the old server refused its own client: {e}"))?;
        tokio::time::sleep(Duration::from_millis(150)).await;
        let mut accepted = 0;
        for _ in 0..n {
            let attempt = async { let conn = endpoint.connect(addr_new, "localhost")?.await?; register(conn, topic.to_string()).await };
            if let Ok(Ok(())) = tokio::time::timeout(Duration::from_secs(6), attempt).await { accepted += 1; }
        }
        Ok::<_, anyhow::Error>(if accepted == 0 { "refuse".to_string() } else { "accept".to_string() })
    };
    match tokio::time::timeout(Duration::from_secs(40), r).await { Ok(Ok(s)) => s, Ok(Err(e)) => format!("void:{}", format!("{e}").replace(' ', "_").chars().take(80).collect::<String>()), Err(_) => "void:timeout".into() }
}

/// `tls cafile trusted`: within one process, the CA file a client is configured with is replaced between two `connect()`s
/// that name the same path: first it holds CA A (the client talks to the server certified by A: accepted, otherwise the
/// scenario is void), then CA B. The second client is configured with CA B — it must refuse the server certified by A.
async fn cafile(addr_a: SocketAddr, a: &Certs, b: &Certs, topic: &str) -> String {
    let r = async {
        let dir = scratch_dir("tlsP");
        std::fs::create_dir_all(&dir)?;
        let p = dir.join("configured-ca.der");
        std::fs::copy(a.client("ca.der"), &p)?;
        let (cert, key) = (a.client("localhost.der"), a.client("localhost.key.der"));
        {
            let client = client_with(addr_a, &p, &cert, &key, BackoffStrategy::constant().with_max_attempts(0)).await.map_err(|e| anyhow::anyhow!("void: {e}"))?;
            let mut pb = client.publisher(topic).with_encoder(StringCodec).open().await.map_err(|e| anyhow::anyhow!("void: {e}"))?;
            pb.send("hello".to_string()).await.map_err(|e| anyhow::anyhow!("void: {e}"))?;
        }
        std::fs::copy(b.client("ca.der"), &p)?;
        let second = async {
            let client = client_with(addr_a, &p, &cert, &key, BackoffStrategy::constant().with_max_attempts(0)).await?;
            let mut pb = client.publisher(topic).with_encoder(StringCodec).open().await?;
            pb.send("hello".to_string()).await?;
            Ok::<_, anyhow::Error>(())
        };
        Ok::<_, anyhow::Error>(match tokio::time::timeout(Duration::from_secs(8), second).await { Ok(Ok(())) => "accept".to_string(), _ => "refuse".to_string() })
    };
    match tokio::time::timeout(Duration::from_secs(30), r).await { Ok(Ok(s)) => s, Ok(Err(e)) => format!("void:{}", format!("{e}").replace(' ', "_").chars().take(80).collect::<String>()), Err(_) => "void:timeout".into() }
}

/// `tls skew <seconds>`: a set generated just now, judged by peers whose clock is <seconds> behind (negative: ahead) of
/// the machine that generated it: the verifiers the two sides are configured with (webpki over the set's CA) accept the
/// server's and the client's certificate. Clocks of two machines are never exactly in step.
/// `tls expiring <secs>`: a CA of the scenario's own, a server certified by it and configured with it, and a client certificate
/// issued by it that stops being valid <secs> seconds from now. The client registers twice while the certificate is valid and
/// once after it has lapsed, each time on a new connection: what the server decided for a certificate before says nothing
/// about it now.
async fn expiring(secs: i64, topic: &str) -> String {
    let r = async {
        let dir = scratch_dir("tlsX");
        let _ = std::fs::remove_dir_all(&dir);
        std::fs::create_dir_all(&dir)?;
        let mut cap = rcgen::CertificateParams::new(vec![]);
        cap.is_ca = rcgen::IsCa::Ca(rcgen::BasicConstraints::Unconstrained);
        cap.key_usages.push(rcgen::KeyUsagePurpose::KeyCertSign);
        cap.key_usages.push(rcgen::KeyUsagePurpose::DigitalSignature);
        let ca = rcgen::Certificate::from_params(cap)?;
        let w = |name: &str, cert: &rcgen::Certificate| -> anyhow::Result<(PathBuf, PathBuf)> {
            let (c, k) = (dir.join(format!("{name}.der")), dir.join(format!("{name}.key.der")));
            std::fs::write(&c, cert.serialize_der_with_signer(&ca)?)?;
            std::fs::write(&k, cert.serialize_private_key_der())?;
            Ok((c, k))
        };
        let ca_path = dir.join("ca.der");
        std::fs::write(&ca_path, ca.serialize_der()?)?;
        let mut sp = rcgen::CertificateParams::new(vec!["localhost".to_string()]);
        sp.extended_key_usages.push(rcgen::ExtendedKeyUsagePurpose::ServerAuth);
        sp.key_usages.push(rcgen::KeyUsagePurpose::DigitalSignature);
        let server = w("server", &rcgen::Certificate::from_params(sp)?)?;
        let until = time::OffsetDateTime::now_utc() + time::Duration::seconds(secs);
        let mut cp = rcgen::CertificateParams::new(vec!["localhost".to_string()]);
        cp.extended_key_usages.push(rcgen::ExtendedKeyUsagePurpose::ClientAuth);
        cp.key_usages.push(rcgen::KeyUsagePurpose::DigitalSignature);
        cp.not_before = time::OffsetDateTime::now_utc() - time::Duration::days(1);
        cp.not_after = until;
        let client = w("client", &rcgen::Certificate::from_params(cp)?)?;
        let addr = start_server_with(&ca_path, &server.0, &server.1)?;
        let mut verdicts = vec![];
        for round in 0..3 {
            if round == 2 {
                let left = until - time::OffsetDateTime::now_utc();
                tokio::time::sleep(Duration::from_millis((left.whole_milliseconds().max(0) as u64) + 2500)).await;
            }
            let one = async {
                let conn = raw_connect(addr, &ca_path, Some((&client.0, &client.1))).await?;
                let mut s = raw_stream(&conn).await?;
                s.send(Frame::RegisterPublisher(PublisherPayload { topic: TopicName::try_from(topic)?, retention_policy: 0, operations: vec![] })).await?;
                match s.next().await { Some(Ok(Frame::Ok)) => { conn.close(0u32.into(), b"bye"); Ok::<_, anyhow::Error>(()) } other => anyhow::bail!("answer {other:?}") }
            };
            let still_valid = time::OffsetDateTime::now_utc() + time::Duration::milliseconds(700) < until;
            let v = match tokio::time::timeout(Duration::from_secs(8), one).await { Ok(Ok(())) => "accept", _ => "refuse" };
            // (a machine so slow that the certificate lapsed before the first two rounds were over shows nothing)
            if round < 2 && !still_valid { anyhow::bail!("the certificate lapsed before round {round} was over"); }
            verdicts.push(v);
        }
        let _ = std::fs::remove_dir_all(&dir);
        Ok::<_, anyhow::Error>(verdicts.join("+"))
    };
    match tokio::time::timeout(Duration::from_secs(60), r).await { Ok(Ok(s)) => s, Ok(Err(e)) => format!("void:{}", format!("{e}").replace(' ', "_").chars().take(80).collect::<String>()), Err(_) => "void:timeout".into() }
}

fn skew(c: &Certs, secs: i64) -> String {
    use rustls::client::ServerCertVerifier;
    use rustls::server::ClientCertVerifier;
    let r = (|| -> anyhow::Result<String> {
        let now = if secs >= 0 { std::time::SystemTime::now() - Duration::from_secs(secs as u64) } else { std::time::SystemTime::now() + Duration::from_secs((-secs) as u64) };
        let mut croots = rustls::RootCertStore::empty();
        croots.add(&rustls::Certificate(std::fs::read(c.client("ca.der"))?))?;
        let mut sroots = rustls::RootCertStore::empty();
        sroots.add(&rustls::Certificate(std::fs::read(c.server("ca.der"))?))?;
        let server_cert = rustls::Certificate(std::fs::read(c.server("localhost.der"))?);
        let client_cert = rustls::Certificate(std::fs::read(c.client("localhost.der"))?);
        let v = rustls::client::WebPkiVerifier::new(croots, None);
        let name = rustls::ServerName::try_from("localhost").map_err(|e| anyhow::anyhow!("{e}"))?;
        let s_ok = v.verify_server_cert(&server_cert, &[], &name, &mut std::iter::empty(), &[], now).is_ok();
        let cv = rustls::server::AllowAnyAuthenticatedClient::new(sroots);
        let c_ok = cv.verify_client_cert(&client_cert, &[], now).is_ok();
        Ok(if s_ok && c_ok { "accept".to_string() } else { format!("refuse:server_cert_{}_client_cert_{}", if s_ok { "ok" } else { "refused" }, if c_ok { "ok" } else { "refused" }) })
    })();
    r.unwrap_or_else(|e| format!("void:{}", format!("{e}").replace(' ', "_").chars().take(80).collect::<String>()))
}

pub fn run(cfg: &Cfg) {
    let mut out = Out::new(&cfg.out, "e2etls");
    let rt = runtime();
    let a = Certs::generate(&scratch_dir("tlsA")).expect("certificates A");
    let b = Certs::generate(&scratch_dir("tlsB")).expect("certificates B");
    // the machine's own trust store (what OpenSSL-style tooling and `rustls-native-certs` consult) holds "another CA" and
    // nothing else: whom a selium peer trusts is what it was configured with, never what the platform happens to trust
    {
        let d = scratch_dir("tlsP");
        let _ = std::fs::create_dir_all(d.join("empty"));
        let bundle = d.join("platform-roots.pem");
        std::fs::write(&bundle, pem_of(&std::fs::read(b.client("ca.der")).expect("CA B"))).expect("platform bundle");
        std::env::set_var("SSL_CERT_FILE", &bundle);
        std::env::set_var("SSL_CERT_DIR", d.join("empty"));
    }
    let ss = self_signed(&scratch_dir("tlsS")).expect("self-signed");
    let bun = bundle(&scratch_dir("tlsS"), &a, &b).expect("bundle");
    // server "trusted": CA A verifies clients, presents A's server certificate;
    // server "otherca": presents B's server certificate (and verifies clients against A all the same)
    let (addr_t, addr_o) = rt.block_on(async {
        (start_server(&a).expect("server A"),
         start_server_with(&a.server("ca.der"), &b.server("localhost.der"), &b.server("localhost.key.der")).expect("server B"))
    });
    // every flavour of set the bundled generator can produce must work in both directions: `--no-expiry`
    let ne = Certs::generate_with(&scratch_dir("tlsN"), true).expect("certificates (no expiry)");
    let addr_n = rt.block_on(async { start_server(&ne).expect("server N") });
    let old = lapsed(&scratch_dir("tlsL")).expect("lapsed certificates");
    // the generator run a second time for one more client (same server directory, a new client directory): the set
    // that is on disk afterwards - server directory and new client directory - must work
    let rr = Certs::generate(&scratch_dir("tlsR")).expect("certificates R");
    {
        use selium_tools::traits::CommandRunner;
        let args = selium_tools::cli::GenCertsArgs { server_out_path: rr.dir.join("server"), client_out_path: rr.dir.join("client2"), no_expiry: false };
        let gag = Gag::stdout();
        let r = selium_tools::commands::gen_certs::GenCertsRunner::from(args).run();
        drop(gag);
        r.expect("second generator run");
    }
    let addr_r = rt.block_on(async { start_server(&rr).expect("server R") });
    // a server certified by CA B that appends CA A's certificate (public, anybody has it) to the chain it presents
    let chain_pem = scratch_dir("tlsP").join("server-chain.pem");
    std::fs::write(&chain_pem, format!("{}{}", pem_of(&std::fs::read(b.server("localhost.der")).expect("B leaf")), pem_of(&std::fs::read(a.client("ca.der")).expect("CA A")))).expect("chain file");
    let addr_chain = rt.block_on(async { start_server_with(&a.server("ca.der"), &chain_pem, &b.server("localhost.key.der")).expect("server with a padded chain") });
    // CA rotation: the same server certificate and key, restarted with `--ca` naming CA B
    let addr_rot = rt.block_on(async { start_server_with(&b.server("ca.der"), &a.server("localhost.der"), &a.server("localhost.key.der")).expect("server rotated") });
    let mut cases: Vec<String> = vec![];
    if let Some(lines) = cfg.replay_lines() { cases = lines; } else {
        cases.push("tls noexp noexp".into());
        cases.push("tls rerun rerun".into());
        cases.push("tls lapsedself trusted".into());
        cases.push("tls lapsedother trusted".into());
        for s in ["trusted", "otherca"] { for c in ["trusted", "otherca", "selfsigned", "none"] { cases.push(format!("tls {c} {s}")); } }
        // a trusted client whose identity file also carries another CA's certificate: the trust anchors stay the
        // configured ones
        for s in ["trusted", "otherca"] { cases.push(format!("tls bundle {s}")); }
        // after trusted clients have connected: the same client certificate configured with the other CA
        cases.push("tls wrongca trusted".into());
        cases.push("tls trusted trusted".into());
        cases.push("tls wrongca trusted".into());
        cases.push("tls rotate 3".into());
        cases.push("tls cafile trusted".into());
        cases.push("tls expiring 6".into());
        for sk in [0i64, 5, 120, 3600, 86_400, -120, -86_400] { cases.push(format!("tls skew {sk}")); }
        for c in ["trusted", "otherca", "selfsigned", "none"] { cases.push(format!("tlsd {c}")); }
        // whoever presents a certificate of CA A somewhere in its chain is not thereby certified by CA A
        cases.push("tls trusted otherca+chain".into());
    }
    let mut addr_default: Option<SocketAddr> = None;
    for (i, c) in cases.iter().enumerate() {
        let t: Vec<&str> = c.split(' ').collect();
        if t[0] == "tlsd" {
            // a server started the way the README's quick start does it - no `--ca`, `--cert`, `--key`: the files under
            // `certs/server/` of its working directory - in a process of its own, whose working directory holds set A
            out.stat("default_arguments");
            let dir = scratch_dir("tlsD");
            let _ = std::fs::create_dir_all(&dir);
            let f = dir.join("one.cases");
            std::fs::write(&f, format!("tls default {}\n", t[1])).unwrap();
            let st = std::process::Command::new(std::env::current_exe().unwrap())
                .args(["e2etls", "--replay", f.to_str().unwrap(), "--out", dir.join("out").to_str().unwrap(), "--seed", &cfg.seed.to_string()])
                .current_dir(&dir).stdout(std::process::Stdio::null()).stderr(std::process::Stdio::null()).status();
            let line = std::fs::read_to_string(dir.join("out").join("e2etls.impl")).unwrap_or_default().trim().to_string();
            let want = if t[1] == "trusted" { "accept" } else { "refuse" };
            let (imp, mon) = match st {
                Ok(x) if x.success() && line == want => (line, Ok(())),
                Ok(x) if x.success() => (line.clone(), Err(format!("C15: a server started with its default arguments (the CA next to its certificate) and a client with identity {}: {line}, must {want}", t[1]))),
                _ => ("CRASH".to_string(), Err("C15: the server process with default arguments could not be run".to_string())),
            };
            let _ = std::fs::remove_dir_all(&dir);
            out.case(c, &imp, mon);
            continue;
        }
        if t[1] == "default" && addr_default.is_none() {
            // (child side of `tlsd`) the working directory is a scratch directory of the parent's
            let d = std::path::Path::new("certs").join("server");
            std::fs::create_dir_all(&d).expect("certs/server");
            for f in ["ca.der", "localhost.der", "localhost.key.der"] { std::fs::copy(a.server(f), d.join(f)).expect("copy"); }
            addr_default = Some(rt.block_on(async { start_server_default_arguments() }).expect("server with default arguments"));
        }
        let addr = if t[1] == "default" { addr_default.unwrap() } else if t[2] == "trusted" { addr_t } else if t[2] == "noexp" { addr_n } else if t[2] == "otherca+chain" { addr_chain } else { addr_o };
        let topic = format!("/verif/tls{i}");
        let res = if t[1] == "skew" { skew(&a, t[2].parse().unwrap_or(0)) }
            else if t[1] == "cafile" { rt.block_on(cafile(addr_t, &a, &b, &topic)) }
            else if t[1] == "expiring" { rt.block_on(expiring(t[2].parse().unwrap_or(6), &topic)) }
            else if t[1] == "default" { rt.block_on(attempt(addr, &a, &b, &ss, &bun, t[2], &topic)) }
            else if t[1] == "rotate" { rt.block_on(rotate(addr_t, addr_rot, &a, t[2].parse().unwrap_or(1), &topic)) }
            else if t[1] == "noexp" { rt.block_on(attempt(addr, &ne, &b, &ss, &bun, "trusted", &topic)) }
            else if t[1] == "rerun" {
                // the client half written by the second run
                let c2 = Certs { dir: rr.dir.clone() };
                let ids = (c2.dir.join("client2").join("localhost.der"), c2.dir.join("client2").join("localhost.key.der"));
                let ca = c2.dir.join("client2").join("ca.der");
                rt.block_on(async {
                    let r = async {
                        let client = client_with(addr_r, &ca, &ids.0, &ids.1, BackoffStrategy::constant().with_max_attempts(0)).await?;
                        let mut p = client.publisher(&topic).with_encoder(StringCodec).open().await?;
                        p.send("hello".to_string()).await?;
                        Ok::<_, anyhow::Error>("accept".to_string())
                    };
                    match tokio::time::timeout(Duration::from_secs(8), r).await { Ok(Ok(s)) => s, _ => "refuse".into() }
                })
            }
            else if t[1] == "lapsedself" { rt.block_on(attempt_with(addr, &a, &b, &ss, &bun, "explicit", &topic, Some(&old[0]))) }
            else if t[1] == "lapsedother" { rt.block_on(attempt_with(addr, &a, &b, &ss, &bun, "explicit", &topic, Some(&old[1]))) }
            else { rt.block_on(attempt(addr, &a, &b, &ss, &bun, t[1], &topic)) };
        let want = if t[1] == "skew" { "accept" } else if t[1] == "expiring" { "accept+accept+refuse" } else if t[1] == "default" { if t[2] == "trusted" { "accept" } else { "refuse" } } else if t[1] == "rotate" || t[1] == "cafile" { "refuse" } else if t[1] == "rerun" { "accept" } else if (t[1] == "trusted" || t[1] == "bundle" || t[1] == "noexp") && (t[2] == "trusted" || t[2] == "noexp") && (t[1] == "noexp") == (t[2] == "noexp") { "accept" } else { "refuse" };
        let mon = if res == want || (t[1] == "expiring" && res.starts_with("void:the_certificate_lapsed")) { Ok(()) } else { Err(format!("C15: client identity {} against server identity {}: {res}, must {want}", t[1], t[2])) };
        out.stat(&format!("client_{}", t[1]));
        out.case(c, &res, mon);
    }
    let _ = std::fs::remove_dir_all(scratch_dir("tlsL"));
    let _ = std::fs::remove_dir_all(scratch_dir("tlsP"));
    for d in [&a.dir, &b.dir, &ne.dir, &rr.dir] { let _ = std::fs::remove_dir_all(d); }
    let _ = std::fs::remove_dir_all(scratch_dir("tlsS"));
    out.finish();
}
