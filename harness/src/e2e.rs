//! End-to-end infrastructure: an in-process `selium_server::server::Server` on 127.0.0.1:0, certificates made at
//! run time by the repository's own generator (`selium_tools` gen-certs), library clients and raw QUIC peers
//! that speak the wire protocol directly through `selium_protocol::BiStream`.
use anyhow::{Context, Result};
use clap::Parser;
use selium::keep_alive::BackoffStrategy;
use selium::Client;
use selium_protocol::BiStream;
use selium_server::args::UserArgs;
use selium_server::server::Server;
use selium_tools::cli::GenCertsArgs;
use selium_tools::commands::gen_certs::GenCertsRunner;
use selium_tools::traits::CommandRunner;
use std::net::SocketAddr;
use std::path::{Path, PathBuf};
use std::sync::Arc;

pub struct Certs {
    pub dir: PathBuf,
}

impl Certs {
    /// one run of the bundled generator: <dir>/server/{ca,localhost,localhost.key}.der and <dir>/client/…
    pub fn generate(dir: &Path) -> Result<Certs> { Certs::generate_with(dir, false) }
    /// `no_expiry`: the generator's `--no-expiry` switch
    pub fn generate_with(dir: &Path, no_expiry: bool) -> Result<Certs> {
        let _ = std::fs::remove_dir_all(dir);
        std::fs::create_dir_all(dir)?;
        // the generator prints to stdout; keep the harness's own stdout clean
        let args = GenCertsArgs { server_out_path: dir.join("server"), client_out_path: dir.join("client"), no_expiry };
        let gag = Gag::stdout();
        let r = GenCertsRunner::from(args).run();
        drop(gag);
        r?;
        Ok(Certs { dir: dir.to_path_buf() })
    }
    pub fn server(&self, f: &str) -> PathBuf { self.dir.join("server").join(f) }
    pub fn client(&self, f: &str) -> PathBuf { self.dir.join("client").join(f) }
}

/// silences fd 1 / fd 2 while alive
pub struct Gag { fd: i32, saved: i32 }
impl Gag {
    pub fn stdout() -> Gag { Gag::new(1) }
    fn new(fd: i32) -> Gag {
        unsafe {
            let saved = libc::dup(fd);
            let null = libc::open(b"/dev/null\0".as_ptr() as *const _, libc::O_WRONLY);
            libc::dup2(null, fd);
            libc::close(null);
            Gag { fd, saved }
        }
    }
}
impl Drop for Gag {
    fn drop(&mut self) {
        unsafe { libc::dup2(self.saved, self.fd); libc::close(self.saved); }
    }
}

pub fn scratch_dir(name: &str) -> PathBuf {
    let base = std::env::var("VERIF_SCRATCH").map(PathBuf::from).unwrap_or_else(|_| std::env::temp_dir());
    base.join(format!("selium-verif-{}-{}", name, std::process::id()))
}

pub fn start_server_with(ca: &Path, cert: &Path, key: &Path) -> Result<SocketAddr> {
    start_server_on("127.0.0.1:0", ca, cert, key)
}

pub fn start_server_on(bind: &str, ca: &Path, cert: &Path, key: &Path) -> Result<SocketAddr> {
    let args = UserArgs::parse_from([
        "selium-server", "--bind-addr", bind,
        "--cert", cert.to_str().unwrap(), "--key", key.to_str().unwrap(), "--ca", ca.to_str().unwrap(),
    ]);
    let server = Server::try_from(args)?;
    let addr = server.addr()?;
    tokio::spawn(async move { let _ = server.listen().await; });
    Ok(addr)
}

/// a server on a runtime of its own with ONE worker thread (what a one-core host gives it): whatever one topic's router does,
/// it has to yield for the others to run at all
pub fn start_server_single_worker(c: &Certs) -> Result<SocketAddr> {
    let (ca, cert, key) = (c.server("ca.der"), c.server("localhost.der"), c.server("localhost.key.der"));
    let (tx, rx) = std::sync::mpsc::channel();
    std::thread::spawn(move || {
        let rt = tokio::runtime::Builder::new_current_thread().enable_all().build().expect("runtime");
        rt.block_on(async move {
            let args = UserArgs::parse_from([
                "selium-server", "--bind-addr", "127.0.0.1:0",
                "--cert", cert.to_str().unwrap(), "--key", key.to_str().unwrap(), "--ca", ca.to_str().unwrap(),
            ]);
            match Server::try_from(args) {
                Ok(server) => { let _ = tx.send(server.addr().map_err(|e| format!("{e}"))); let _ = server.listen().await; }
                Err(e) => { let _ = tx.send(Err(format!("{e}"))); }
            }
        });
    });
    match rx.recv_timeout(std::time::Duration::from_secs(10)) { Ok(Ok(a)) => Ok(a), Ok(Err(e)) => anyhow::bail!("server: {e}"), Err(_) => anyhow::bail!("server did not start") }
}

/// the server as `selium-server --bind-addr …` alone starts it: certificate, key and CA from their default paths
pub fn start_server_default_arguments() -> Result<SocketAddr> {
    let server = Server::try_from(UserArgs::parse_from(["selium-server", "--bind-addr", "127.0.0.1:0"]))?;
    let addr = server.addr()?;
    tokio::spawn(async move { let _ = server.listen().await; });
    Ok(addr)
}

pub fn start_server(c: &Certs) -> Result<SocketAddr> {
    start_server_with(&c.server("ca.der"), &c.server("localhost.der"), &c.server("localhost.key.der"))
}

pub async fn client_with(addr: SocketAddr, ca: &Path, cert: &Path, key: &Path, backoff: BackoffStrategy) -> Result<Client> {
    let c = selium::custom()
        .keep_alive(5_000)?
        .backoff_strategy(backoff)
        .endpoint(&addr.to_string())
        .with_certificate_authority(ca)?
        .with_cert_and_key(cert, key)?
        .connect()
        .await?;
    Ok(c)
}

/// a library client that pings every `keep_alive_ms` (for servers started with a short idle limit)
pub async fn client_pinging(addr: SocketAddr, c: &Certs, backoff: BackoffStrategy, keep_alive_ms: u64) -> Result<Client> {
    let cl = selium::custom()
        .keep_alive(keep_alive_ms)?
        .backoff_strategy(backoff)
        .endpoint(&addr.to_string())
        .with_certificate_authority(c.client("ca.der"))?
        .with_cert_and_key(c.client("localhost.der"), c.client("localhost.key.der"))?
        .connect()
        .await?;
    Ok(cl)
}

pub async fn client(addr: SocketAddr, c: &Certs, backoff: BackoffStrategy) -> Result<Client> {
    client_with(addr, &c.client("ca.der"), &c.client("localhost.der"), &c.client("localhost.key.der"), backoff).await
}

/// a QUIC connection that bypasses the client library
pub async fn raw_connect(addr: SocketAddr, ca: &Path, cert: Option<(&Path, &Path)>) -> Result<quinn::Connection> {
    raw_connect_window(addr, ca, cert, None).await
}

/// `stream_window`: the receive window this peer grants per stream (a peer that takes almost nothing)
pub async fn raw_connect_window(addr: SocketAddr, ca: &Path, cert: Option<(&Path, &Path)>, stream_window: Option<u32>) -> Result<quinn::Connection> {
    let mut roots = rustls::RootCertStore::empty();
    roots.add(&rustls::Certificate(std::fs::read(ca)?))?;
    let builder = rustls::ClientConfig::builder().with_safe_defaults().with_root_certificates(roots);
    let mut crypto = match cert {
        Some((c, k)) => builder.with_client_auth_cert(vec![rustls::Certificate(std::fs::read(c)?)], rustls::PrivateKey(std::fs::read(k)?))?,
        None => builder.with_no_client_auth(),
    };
    crypto.alpn_protocols = vec![b"hq-29".to_vec()];
    let mut endpoint = quinn::Endpoint::client("127.0.0.1:0".parse().unwrap())?;
    let mut cc = quinn::ClientConfig::new(Arc::new(crypto));
    if let Some(w) = stream_window {
        let mut tc = quinn::TransportConfig::default();
        tc.stream_receive_window(quinn::VarInt::from_u32(w));
        cc.transport_config(Arc::new(tc));
    }
    endpoint.set_default_client_config(cc);
    let conn = endpoint.connect(addr, "localhost")?.await.context("raw connect")?;
    Ok(conn)
}

/// a raw peer that never gives up on its connection by itself (no idle timeout of its own, no keep-alive): whether a
/// silent connection is ever declared dead is then up to the other side
pub async fn raw_connect_patient(addr: SocketAddr, ca: &Path, cert: (&Path, &Path)) -> Result<quinn::Connection> {
    let mut roots = rustls::RootCertStore::empty();
    roots.add(&rustls::Certificate(std::fs::read(ca)?))?;
    let mut crypto = rustls::ClientConfig::builder().with_safe_defaults().with_root_certificates(roots)
        .with_client_auth_cert(vec![rustls::Certificate(std::fs::read(cert.0)?)], rustls::PrivateKey(std::fs::read(cert.1)?))?;
    crypto.alpn_protocols = vec![b"hq-29".to_vec()];
    let mut endpoint = quinn::Endpoint::client("127.0.0.1:0".parse().unwrap())?;
    let mut cc = quinn::ClientConfig::new(Arc::new(crypto));
    let mut tc = quinn::TransportConfig::default();
    tc.max_idle_timeout(None);
    tc.keep_alive_interval(None);
    cc.transport_config(Arc::new(tc));
    endpoint.set_default_client_config(cc);
    let conn = endpoint.connect(addr, "localhost")?.await.context("raw connect")?;
    Ok(conn)
}

/// a raw peer that keeps its connection alive with pings (a peer that is there, whatever it does or does not read)
pub async fn raw_connect_keepalive(addr: SocketAddr, ca: &Path, cert: (&Path, &Path)) -> Result<quinn::Connection> {
    let mut roots = rustls::RootCertStore::empty();
    roots.add(&rustls::Certificate(std::fs::read(ca)?))?;
    let mut crypto = rustls::ClientConfig::builder().with_safe_defaults().with_root_certificates(roots)
        .with_client_auth_cert(vec![rustls::Certificate(std::fs::read(cert.0)?)], rustls::PrivateKey(std::fs::read(cert.1)?))?;
    crypto.alpn_protocols = vec![b"hq-29".to_vec()];
    let mut endpoint = quinn::Endpoint::client("127.0.0.1:0".parse().unwrap())?;
    let mut cc = quinn::ClientConfig::new(Arc::new(crypto));
    let mut tc = quinn::TransportConfig::default();
    tc.keep_alive_interval(Some(std::time::Duration::from_secs(2)));
    cc.transport_config(Arc::new(tc));
    endpoint.set_default_client_config(cc);
    let conn = endpoint.connect(addr, "localhost")?.await.context("raw connect")?;
    Ok(conn)
}

/// a UDP relay in front of `server`: datagrams from the (one) client are forwarded to the server and back, until the
/// returned task is aborted - from then on the client is gone without a word
pub async fn udp_relay(server: SocketAddr) -> Result<(SocketAddr, tokio::task::JoinHandle<()>)> {
    let sock = tokio::net::UdpSocket::bind("127.0.0.1:0").await?;
    let addr = sock.local_addr()?;
    let h = tokio::spawn(async move {
        let mut client: Option<SocketAddr> = None;
        let mut buf = vec![0u8; 65536];
        loop {
            let Ok((n, from)) = sock.recv_from(&mut buf).await else { return };
            if from == server { if let Some(c) = client { let _ = sock.send_to(&buf[..n], c).await; } }
            else { client = Some(from); let _ = sock.send_to(&buf[..n], server).await; }
        }
    });
    Ok((addr, h))
}

/// a server whose `--max-idle-timeout` (milliseconds, as documented) is given
pub fn start_server_idle(c: &Certs, idle_ms: u32) -> Result<SocketAddr> {
    let (ca, cert, key) = (c.server("ca.der"), c.server("localhost.der"), c.server("localhost.key.der"));
    let ms = idle_ms.to_string();
    let args = UserArgs::parse_from([
        "selium-server", "--bind-addr", "127.0.0.1:0", "--max-idle-timeout", ms.as_str(),
        "--cert", cert.to_str().unwrap(), "--key", key.to_str().unwrap(), "--ca", ca.to_str().unwrap(),
    ]);
    let server = Server::try_from(args)?;
    let addr = server.addr()?;
    tokio::spawn(async move { let _ = server.listen().await; });
    Ok(addr)
}

pub async fn raw_stream(conn: &quinn::Connection) -> Result<BiStream> {
    Ok(BiStream::try_from_connection(conn).await?)
}

/// the suites' runtime: dropping it does not wait for its workers — a task of the code under test that never returns from
/// a poll (reported by the case's own time limit) must not keep the suite from finishing
pub struct Rt(Option<tokio::runtime::Runtime>);
impl std::ops::Deref for Rt {
    type Target = tokio::runtime::Runtime;
    fn deref(&self) -> &Self::Target { self.0.as_ref().unwrap() }
}
impl Drop for Rt {
    fn drop(&mut self) { if let Some(r) = self.0.take() { r.shutdown_background(); } }
}

pub fn runtime() -> Rt {
    Rt(Some(tokio::runtime::Builder::new_multi_thread().worker_threads(6).enable_all().build().unwrap()))
}
