//! C07: topic names. Strings travel as dot-separated decimal code points (`-` = empty).
//!   tn <cps>            TopicName::try_from      -> `ok <ns> <topic> <display>` | `err parse` | `err reserved` | `PANIC`
//!   tc <ns> <topic>     TopicName::create         -> `ok` | `err`
use crate::util::*;
use selium_protocol::TopicName;

fn cps(s: &str) -> String {
    if s.is_empty() { "-".into() } else { s.chars().map(|c| (c as u32).to_string()).collect::<Vec<_>>().join(".") }
}
fn from_cps(t: &str) -> String {
    if t == "-" { String::new() } else { t.split('.').map(|n| char::from_u32(n.parse().unwrap()).expect("not a scalar value")).collect() }
}

fn ascii_word(c: char) -> bool { c.is_ascii_alphanumeric() || c == '_' || c == '-' }

/// definite knowledge about the rule, independent of the regex engine:
/// Some(true) must accept, Some(false) must reject, None = depends on the Unicode class of a non-ASCII char
pub fn oracle(s: &str) -> Option<bool> {
    let parts: Vec<&str> = s.split('/').collect();
    if parts.len() != 3 || !parts[0].is_empty() { return Some(false); }
    let (ns, tp) = (parts[1], parts[2]);
    for p in [ns, tp] {
        let n = p.chars().count();
        if !(3..=64).contains(&n) { return Some(false); }
        if p.chars().any(|c| c.is_ascii() && !ascii_word(c)) { return Some(false); }
        if p.chars().any(|c| c.is_whitespace() || c.is_control()) { return Some(false); }
    }
    if ns.starts_with("selium") { return Some(false); }
    if ns.chars().all(ascii_word) && tp.chars().all(ascii_word) { return Some(true); }
    None
}

fn case_tn(out: &mut Out, s: &str, tag: &str) {
    out.stat(&format!("tn_{tag}"));
    let line = format!("tn {}", cps(s));
    let owned = s.to_string();
    let res = catch(move || TopicName::try_from(owned.as_str()));
    let want = oracle(s);
    let (imp, mon) = match res {
        Err(p) => ("PANIC".to_string(), Err(format!("TopicName::try_from panicked: {p}"))),
        Ok(Ok(n)) => {
            out.stat("tn_accepted");
            let shown = n.to_string();
            let mut m = Ok(());
            if want == Some(false) { m = Err("accepted a string that is not /namespace/topic with 3-64 allowed characters and an unreserved namespace".into()); }
            else if shown != s { m = Err(format!("accepted name prints back as {shown:?}")); }
            else if !n.is_valid() { m = Err("client-side parser accepts a name the server-side rule (is_valid) refuses".into()); }
            (format!("ok {} {} {}", cps(n.namespace()), cps(n.topic()), cps(&shown)), m)
        }
        Ok(Err(e)) => {
            // classified by the variant's name, not by its shape: a variant that gains a field stays the same kind of refusal
            let dbg = format!("{e:?}");
            let cls = if dbg.starts_with("ReservedNamespaceError") { "reserved" } else if dbg.starts_with("ParseTopicNameError") { "parse" } else { "other" };
            let m = if want == Some(true) { Err(format!("rejected a well-formed name ({cls})")) } else { Ok(()) };
            (format!("err {cls}"), m)
        }
    };
    out.case(&line, &imp, mon);
}

fn case_tc(out: &mut Out, ns: &str, tp: &str) {
    out.stat("tc");
    let line = format!("tc {} {}", cps(ns), cps(tp));
    let (a, b) = (ns.to_string(), tp.to_string());
    let res = catch(move || TopicName::create(&a, &b).map(|n| n.to_string()));
    // the server applies is_valid (= create) to names from the wire; the client parses the printed form
    let printed = format!("/{ns}/{tp}");
    let parsed = catch(move || TopicName::try_from(printed.as_str()).map(|n| (n.namespace().to_string(), n.topic().to_string())));
    let (imp, mon) = match res {
        Err(p) => ("PANIC".to_string(), Err(format!("TopicName::create panicked: {p}"))),
        Ok(r) => {
            let ok = r.is_ok();
            let same = match &parsed { Ok(Ok((a, b))) => ok && a == ns && b == tp, Ok(Err(_)) => !ok, Err(_) => false };
            let m = if same { Ok(()) } else { Err(format!("create({ns:?},{tp:?}) ok={ok} but try_from of its printed form gives {parsed:?}")) };
            ((if ok { "ok" } else { "err" }).to_string(), m)
        }
    };
    out.case(&line, &imp, mon);
}

fn class_ranges() -> Vec<(u32, u32)> {
    use regex_syntax::hir::{Class, HirKind};
    let h = regex_syntax::Parser::new().parse(r"[\w-]").unwrap();
    match h.kind() { HirKind::Class(Class::Unicode(u)) => u.ranges().iter().map(|r| (r.start() as u32, r.end() as u32)).collect(), _ => vec![] }
}

pub fn run(cfg: &Cfg) {
    let mut out = Out::new(&cfg.out, "topic");
    if let Some(lines) = cfg.replay_lines() {
        for l in lines {
            let t: Vec<&str> = l.split(' ').collect();
            match t[0] { "tn" => case_tn(&mut out, &from_cps(t[1]), "replay"), "tc" => case_tc(&mut out, &from_cps(t[1]), &from_cps(t[2])), _ => panic!("bad topic case") }
        }
        out.finish();
        return;
    }
    let mut r = Rng::new(cfg.seed, "topic");
    // hand-picked
    for s in ["", "/", "//", "///", "namespace", "/namespace/", "/namespace/topic/other", "/namespace/topic!", "/namespace/topic", "/name_space/to-pic",
              "/selium/topic", "/seliumx/topic", "/Selium/topic", "/seliu/topic", "/xselium/topic", "xselium/abc", "/sel/ium", "/abc/selium", "selium", "/selium",
              "é/abc/def", "éé/abc/def", "/é/abc", "/ñandú/topic", "/abc‿/topic", "日/abc/def", "🚀/abc/def", "/abc/def\n", "\n/abc/def", "/abc/def/", " /abc/def", "/abc /def",
              "/ab/def", "/abc/de", "/abc/def", "a/bcd/efg", "/a/b/c", "/abc//def", "/abc/d/f", "/ａｂｃ/ｄｅｆ", "/a\u{301}bc/def", "/abc/\u{200d}\u{200d}\u{200d}", "/١٢٣/٤٥٦"] {
        case_tn(&mut out, s, "handpicked");
    }
    // boundary lengths in characters, with single- and multi-byte characters
    for unit in ["a", "é", "日", "-", "_", "9"] {
        for n in [2usize, 3, 4, 63, 64, 65] {
            for m in [2usize, 3, 64, 65] {
                let s = format!("/{}/{}", unit.repeat(n), unit.repeat(m));
                case_tn(&mut out, &s, "boundary_len");
            }
        }
    }
    // every ASCII character in each position class
    for c in 0u8..128 {
        let ch = c as char;
        case_tn(&mut out, &format!("/ab{ch}c/topic"), "ascii_inside_ns");
        case_tn(&mut out, &format!("/name/to{ch}pic"), "ascii_inside_topic");
        case_tn(&mut out, &format!("{ch}/name/topic"), "ascii_first");
        case_tn(&mut out, &format!("{ch}name/topic"), "ascii_instead_of_slash");
    }
    // every boundary of the Unicode class table
    let ranges = class_ranges();
    out.stat_n("class_ranges", ranges.len() as u64);
    for (lo, hi) in &ranges {
        for cp in [lo.wrapping_sub(1), *lo, *hi, hi + 1] {
            if let Some(ch) = char::from_u32(cp) {
                case_tn(&mut out, &format!("/a{ch}b/topic"), "class_boundary");
            }
        }
    }
    // multi-byte first / second characters, slashes anywhere, reserved variants
    let alphabet: Vec<char> = "abcXYZ019_-/é日🚀 .!selium".chars().collect();
    for _ in 0..cfg.n(4000, 200_000) {
        let n = match r.below(4) { 0 => r.below(6), 1 => r.below(20), _ => r.below(12) + 5 } as usize;
        let mut s: String = (0..n).map(|_| *r.pick(&alphabet)).collect();
        if r.chance(2, 3) { s.insert(0, '/'); }
        if r.chance(1, 3) { let k = r.below(s.chars().count() as u64 + 1) as usize; let b = s.char_indices().nth(k).map(|x| x.0).unwrap_or(s.len()); s.insert_str(b, "selium"); }
        case_tn(&mut out, &s, "random");
    }
    // structured mostly-valid
    let word = |r: &mut Rng| -> String {
        let n = *r.pick(&[2usize, 3, 3, 5, 8, 20, 64, 65]);
        let pool: Vec<char> = match r.below(4) { 0 => "abcdefghijklmnopqrstuvwxyz".chars().collect(), 1 => "abc-_09XYZ".chars().collect(), 2 => "añ日é_x".chars().collect(), _ => "ab c.!".chars().collect() };
        (0..n).map(|_| *r.pick(&pool)).collect()
    };
    for _ in 0..cfg.n(3000, 100_000) {
        let (a, b) = (word(&mut r), word(&mut r));
        let a = if r.chance(1, 8) { format!("selium{a}") } else { a };
        case_tn(&mut out, &format!("/{a}/{b}"), "structured");
        case_tc(&mut out, &a, &b);
    }
    for (a, b) in [("", ""), ("abc", ""), ("selium", "abc"), ("seliumabc", "abc"), ("abc", "selium"), ("a/b", "abc"), ("abc", "d/f"), ("abc/def", "ghi"), ("ab", "abc"), ("日本語", "é__")] {
        case_tc(&mut out, a, b);
    }
    out.finish();
}
