//! C04: library `Requestor`s (clones and separate streams) against a scripted replier that speaks the wire
//! protocol directly, through a real server over loopback QUIC.
//!   rq <streams> <clones> <timeout_ms> <perm: fwd|rev|rot> <actions> <order>
//! Every clone of every stream issues one `request()` concurrently. The replier waits for all of them, then
//! answers in the permuted order with one action per request (by arrival): `r` reply, `d` drop, `u` reply twice,
//! `l` reply late (after the timeout), `x` reply with a foreign req_id. Afterwards every stream issues one more
//! request which is answered normally (a late reply must not be handed to it).
//!   rqcut <clones> <outages>        a requestor with clones survives outages (the harness closes its connection); after
//!                                   each recovery all clones have overlapping requests in flight against a slow replier
//!   rqreuse <n>                     a request times out, every requestor stream of the topic closes, a new requestor
//!                                   opens and calls; the replier then sends the late reply before the new one (n rounds)
//!   rqstagger <clones> <outages>    like rqcut, but nobody re-establishes itself beforehand: after each cut the clones call 60 ms
//!                                   apart against a slow replier, so that one clone notices the loss and recovers while
//!                                   another clone's re-issued request is in flight
//!   rqlate <n>                      a request times out; the same requestor (odd rounds: a clone) calls again at once; the
//!                                   replier sends the late reply to the first just before the reply to the second (n rounds)
//!   rqstall <n> <kib>               a replier that registers and then never reads; a requestor (400 ms timeout) issues n
//!                                   requests of <kib> KiB one after the other: each must fail with a timeout in time
//!   rqwrap <calls>                  a call stays outstanding while <calls> more are made, then its late reply arrives just before the
//!                                   reply to one more call (thorough tier, and whenever a proof obligation of the property is broken)
//!   rqmany <n>                      nobody is bound: n concurrent calls time out, so does one more; then a replier binds and
//!                                   three more calls on the same requestor are answered
//!   rqretry                         two separately opened requestor streams, equal ids; one is cut and calls: it gets its own reply
//!   rqfrac <micros>                 a request timeout that is not a whole number of milliseconds bounds the call all the same
//!   rqdead <n> <victim>            n requestor streams, each on a connection of its own, have one request in flight (all with
//!                                   the same req_id: every stream counts from 0); the connection of requestor <victim> is
//!                                   cut; the replier answers the victim's request first (the router finds the dead sink and
//!                                   evicts it), then the others, then one follow-up call each: only the server's routing
//!                                   id keeps the survivors' replies apart
//! `<order>` (written by the harness) is the arrival order as `stream.clone` tokens.
//! Implementation line: per arrival the outcome of that call (`ok`, `timeout`, `wrong:<payload>`, `err:<e>`),
//! then `| ` + the outcomes of the follow-up calls per stream.
use crate::e2e::*;
use crate::util::*;
use futures::{SinkExt, StreamExt};
use selium::keep_alive::BackoffStrategy;
use selium::prelude::*;
use selium::std::codecs::StringCodec;
use selium::std::errors::SeliumError;
use selium_protocol::{Frame, MessagePayload, ReplierPayload, TopicName};
use std::collections::HashMap;
use std::net::SocketAddr;
use std::sync::atomic::{AtomicUsize, Ordering};
use std::time::Duration;

static TOPIC: AtomicUsize = AtomicUsize::new(0);

fn outcome(res: &Result<String, SeliumError>, own: &str) -> String {
    match res {
        Ok(s) if *s == format!("r:{own}") => "ok".into(),
        Ok(s) => format!("wrong:{s}"),
        Err(SeliumError::RequestTimeout) => "timeout".into(),
        Err(e) => format!("err:{}", format!("{e:?}").split(|c: char| !c.is_alphanumeric()).next().unwrap_or("?")),
    }
}

async fn run_case(addr: SocketAddr, certs: &Certs, t: &[&str]) -> anyhow::Result<(String, String)> {
    let (ns, nc, timeout_ms, perm, actions) = (t[1].parse::<usize>()?, t[2].parse::<usize>()?, t[3].parse::<u64>()?, t[4], t[5]);
    let acts: Vec<char> = actions.split(',').map(|a| a.chars().next().unwrap()).collect();
    let n = ns * nc;
    let topic = format!("/verif/rpc{}", TOPIC.fetch_add(1, Ordering::SeqCst));
    // ---- the scripted replier
    let conn = raw_connect(addr, &certs.client("ca.der"), Some((&certs.client("localhost.der"), &certs.client("localhost.key.der")))).await?;
    let mut rs = raw_stream(&conn).await?;
    rs.send(Frame::RegisterReplier(ReplierPayload { topic: TopicName::try_from(topic.as_str())? })).await?;
    match rs.next().await { Some(Ok(Frame::Ok)) => {}, other => anyhow::bail!("replier registration answered {other:?}") }
    let late = Duration::from_millis(timeout_ms + 200);
    let perm = perm.to_string();
    let has_late = acts.contains(&'l');
    let stop = std::sync::Arc::new(tokio::sync::Notify::new());
    let stop2 = stop.clone();
    let replier = tokio::spawn(async move {
        let mut reqs: Vec<MessagePayload> = vec![];
        while reqs.len() < n {
            match rs.next().await { Some(Ok(Frame::Message(p))) => reqs.push(p), _ => return (reqs, rs) }
        }
        let mut order: Vec<usize> = (0..n).collect();
        match perm.as_str() { "rev" => order.reverse(), "rot" => order.rotate_left(1.min(n)), _ => {} }
        let mut late_replies = vec![];
        for j in order {
            let p = &reqs[j];
            let body = format!("r:{}", String::from_utf8_lossy(&p.message));
            let reply = |headers: Option<HashMap<String, String>>| Frame::Message(MessagePayload { headers, message: body.clone().into() });
            match acts.get(j).copied().unwrap_or('r') {
                'r' => { let _ = rs.send(reply(p.headers.clone())).await; }
                'u' => { let _ = rs.send(reply(p.headers.clone())).await; let _ = rs.send(reply(p.headers.clone())).await; }
                'l' => late_replies.push(reply(p.headers.clone())),
                'x' => { let mut h = p.headers.clone().unwrap_or_default(); h.insert("req_id".into(), "999".into()); let _ = rs.send(reply(Some(h))).await; }
                _ => {}
            }
        }
        if !late_replies.is_empty() {
            tokio::time::sleep(late).await;
            for f in late_replies { let _ = rs.send(f).await; }
        }
        // follow-up requests: answer everything normally from now on
        let mut all = reqs;
        loop {
            let next = tokio::select! { x = rs.next() => Ok(x), _ = stop2.notified() => Err(()), _ = tokio::time::sleep(Duration::from_secs(5)) => Err(()) };
            match next {
                Ok(Some(Ok(Frame::Message(p)))) => {
                    let body = format!("r:{}", String::from_utf8_lossy(&p.message));
                    let _ = rs.send(Frame::Message(MessagePayload { headers: p.headers.clone(), message: body.into() })).await;
                    all.push(p);
                }
                _ => break,
            }
        }
        (all, rs)
    });
    tokio::time::sleep(Duration::from_millis(30)).await;
    // ---- the requestors
    let client = client(addr, certs, BackoffStrategy::constant().with_max_attempts(0)).await?;
    let mut streams = vec![];
    for _ in 0..ns {
        let r = client.requestor(&topic).with_request_encoder(StringCodec).with_reply_decoder(StringCodec).with_request_timeout(timeout_ms)?.open().await?;
        streams.push(r);
    }
    let mut calls = vec![];
    for (s, r) in streams.iter().enumerate() {
        for c in 0..nc {
            let mut rq = r.clone();
            let own = format!("q{s}.{c}");
            calls.push(tokio::spawn(async move { let res = rq.request(own.clone()).await; (own, res) }));
        }
    }
    let mut results: HashMap<String, Result<String, SeliumError>> = HashMap::new();
    for c in calls { let (own, res) = c.await?; results.insert(own, res); }
    // wait for late replies to have been sent, then one more call per stream
    if has_late { tokio::time::sleep(Duration::from_millis(450)).await; }
    let mut follow = vec![];
    for (s, r) in streams.iter_mut().enumerate() {
        let own = format!("z{s}");
        let res = r.request(own.clone()).await;
        follow.push(outcome(&res, &own));
    }
    drop(streams);
    stop.notify_one();
    let (seen, _rs) = replier.await?;
    let arrival: Vec<String> = seen.iter().take(n).map(|p| String::from_utf8_lossy(&p.message).trim_start_matches('q').to_string()).collect();
    let outs: Vec<String> = seen.iter().take(n).map(|p| { let own = String::from_utf8_lossy(&p.message).to_string(); outcome(results.get(&own).unwrap_or(&Err(SeliumError::RequestFailed)), &own) }).collect();
    Ok((arrival.join(","), format!("{} | {}", outs.join(","), follow.join(","))))
}

/// a raw replier that answers every request correctly (echoing its headers) after `delay`, `hold_first`: the
/// first request of the topic is only answered when the second one has arrived (late), just before it
async fn scripted_replier(addr: SocketAddr, certs: &Certs, topic: &str, delay: Duration, hold_first: bool) -> anyhow::Result<tokio::task::JoinHandle<()>> {
    let conn = raw_connect(addr, &certs.client("ca.der"), Some((&certs.client("localhost.der"), &certs.client("localhost.key.der")))).await?;
    let mut rs = raw_stream(&conn).await?;
    rs.send(Frame::RegisterReplier(ReplierPayload { topic: TopicName::try_from(topic)? })).await?;
    match rs.next().await { Some(Ok(Frame::Ok)) => {}, other => anyhow::bail!("replier registration answered {other:?}") }
    Ok(tokio::spawn(async move {
        let _keep = conn;
        let (mut sink, mut stream) = rs.split();
        let (tx, mut rx) = tokio::sync::mpsc::unbounded_channel::<Frame>();
        let writer = tokio::spawn(async move { while let Some(f) = rx.recv().await { if sink.send(f).await.is_err() { break; } } });
        let mut held: Option<MessagePayload> = None;
        let mut first = true;
        while let Some(Ok(Frame::Message(p))) = stream.next().await {
            let reply = |p: &MessagePayload| Frame::Message(MessagePayload { headers: p.headers.clone(), message: format!("r:{}", String::from_utf8_lossy(&p.message)).into() });
            if hold_first && first { first = false; held = Some(p); continue; }
            if let Some(h) = held.take() { let _ = tx.send(reply(&h)); }
            let tx2 = tx.clone();
            let f = reply(&p);
            tokio::spawn(async move { tokio::time::sleep(delay).await; let _ = tx2.send(f); });
        }
        writer.abort();
    }))
}

async fn run_cut(addr: SocketAddr, certs: &Certs, clones: usize, outages: usize) -> anyhow::Result<String> {
    let topic = format!("/verif/rpc{}", TOPIC.fetch_add(1, Ordering::SeqCst));
    let rep = scripted_replier(addr, certs, &topic, Duration::from_millis(250), false).await?;
    tokio::time::sleep(Duration::from_millis(30)).await;
    let client = client(addr, certs, BackoffStrategy::constant().with_max_attempts(5).with_step(Duration::from_millis(20))).await?;
    let rq = client.requestor(&topic).with_request_encoder(StringCodec).with_reply_decoder(StringCodec).with_request_timeout(2500u64)?.open().await?;
    let mut outs = vec![];
    for k in 0..=outages {
        if k > 0 {
            client.verif_close_connection().await;
            // every clone notices the loss and re-establishes itself with a throw-away call
            for c in 0..clones { let mut r = rq.clone(); let _ = tokio::time::timeout(Duration::from_secs(5), r.request(format!("w{k}.{c}"))).await; }
        }
        let mut calls = vec![];
        for c in 0..clones {
            let mut r = rq.clone();
            let own = format!("q{k}.{c}");
            calls.push(tokio::spawn(async move { let res = tokio::time::timeout(Duration::from_secs(6), r.request(own.clone())).await; (own, res) }));
            tokio::time::sleep(Duration::from_millis(15)).await;
        }
        for c in calls {
            let (own, res) = c.await?;
            outs.push(match res { Err(_) => "hang".to_string(), Ok(r) => outcome(&r, &own) });
        }
    }
    rep.abort();
    Ok(outs.join(","))
}

async fn run_stagger(addr: SocketAddr, certs: &Certs, clones: usize, outages: usize) -> anyhow::Result<String> {
    let topic = format!("/verif/rpc{}", TOPIC.fetch_add(1, Ordering::SeqCst));
    let rep = scripted_replier(addr, certs, &topic, Duration::from_millis(300), false).await?;
    tokio::time::sleep(Duration::from_millis(30)).await;
    let client = client(addr, certs, BackoffStrategy::constant().with_max_attempts(5).with_step(Duration::from_millis(20))).await?;
    let rq = client.requestor(&topic).with_request_encoder(StringCodec).with_reply_decoder(StringCodec).with_request_timeout(2500u64)?.open().await?;
    // every clone has used the first stream once
    for c in 0..clones { let mut r = rq.clone(); let _ = tokio::time::timeout(Duration::from_secs(5), r.request(format!("w.{c}"))).await; }
    let mut outs = vec![];
    let held: Vec<_> = (0..clones).map(|_| rq.clone()).collect();
    let mut held = held;
    for k in 1..=outages {
        client.verif_close_connection().await;
        let mut calls = vec![];
        for (c, r) in held.drain(..).enumerate() {
            let mut r = r;
            let own = format!("q{k}.{c}");
            calls.push(tokio::spawn(async move { let res = tokio::time::timeout(Duration::from_secs(8), r.request(own.clone())).await; (own, res, r) }));
            tokio::time::sleep(Duration::from_millis(60)).await;
        }
        for c in calls {
            let (own, res, r) = c.await?;
            outs.push(match res { Err(_) => "hang".to_string(), Ok(x) => outcome(&x, &own) });
            held.push(r);
        }
    }
    rep.abort();
    Ok(outs.join(","))
}

async fn run_late(addr: SocketAddr, certs: &Certs, rounds: usize) -> anyhow::Result<String> {
    let mut outs = vec![];
    for k in 0..rounds {
        let topic = format!("/verif/rpc{}", TOPIC.fetch_add(1, Ordering::SeqCst));
        let rep = scripted_replier(addr, certs, &topic, Duration::from_millis(120), true).await?;
        tokio::time::sleep(Duration::from_millis(30)).await;
        let client = client(addr, certs, BackoffStrategy::constant().with_max_attempts(0)).await?;
        let mut a = client.requestor(&topic).with_request_encoder(StringCodec).with_reply_decoder(StringCodec).with_request_timeout(250u64)?.open().await?;
        let ra = a.request("slow".to_string()).await;
        outs.push(outcome(&ra, "slow"));
        // nothing else is pending now; the next call (same requestor, or a clone of it) is still waiting when the
        // late reply to the first one comes in, followed by its own
        let mut b = if k % 2 == 1 { a.clone() } else { a };
        let rb = b.request("second".to_string()).await;
        outs.push(outcome(&rb, "second"));
        let rc = b.request("third".to_string()).await;
        outs.push(outcome(&rc, "third"));
        rep.abort();
    }
    Ok(outs.join(","))
}

async fn run_stall(addr: SocketAddr, certs: &Certs, n: usize, kib: usize) -> anyhow::Result<String> {
    let topic = format!("/verif/rpc{}", TOPIC.fetch_add(1, Ordering::SeqCst));
    let conn = raw_connect(addr, &certs.client("ca.der"), Some((&certs.client("localhost.der"), &certs.client("localhost.key.der")))).await?;
    let mut rs = raw_stream(&conn).await?;
    rs.send(Frame::RegisterReplier(ReplierPayload { topic: TopicName::try_from(topic.as_str())? })).await?;
    match rs.next().await { Some(Ok(Frame::Ok)) => {}, other => anyhow::bail!("replier registration answered {other:?}") }
    // from here on the replier reads nothing
    tokio::time::sleep(Duration::from_millis(30)).await;
    let client = client(addr, certs, BackoffStrategy::constant().with_max_attempts(0)).await?;
    let rq = client.requestor(&topic).with_request_encoder(StringCodec).with_reply_decoder(StringCodec).with_request_timeout(400u64)?.open().await?;
    let body = "x".repeat(kib * 1024);
    let mut outs = vec![];
    for i in 0..n {
        let mut r = rq.clone();
        let own = format!("{i}|{body}");
        // the call runs in a task of its own: one that never returns does not take the harness with it
        let h = tokio::spawn(async move { r.request(own).await });
        match tokio::time::timeout(Duration::from_secs(4), h).await {
            Err(_) => { outs.push("hang".to_string()); break; }
            Ok(Err(_)) => outs.push("panic".to_string()),
            Ok(Ok(res)) => outs.push(outcome(&res, "?")),
        }
    }
    drop(rs);
    Ok(outs.join(","))
}

async fn run_dead(addr: SocketAddr, certs: &Certs, n: usize, victim: usize) -> anyhow::Result<String> {
    let topic = format!("/verif/rpc{}", TOPIC.fetch_add(1, Ordering::SeqCst));
    let conn = raw_connect(addr, &certs.client("ca.der"), Some((&certs.client("localhost.der"), &certs.client("localhost.key.der")))).await?;
    let mut rs = raw_stream(&conn).await?;
    rs.send(Frame::RegisterReplier(ReplierPayload { topic: TopicName::try_from(topic.as_str())? })).await?;
    match rs.next().await { Some(Ok(Frame::Ok)) => {}, other => anyhow::bail!("replier registration answered {other:?}") }
    tokio::time::sleep(Duration::from_millis(30)).await;
    // requestors register one after the other (routing ids in this order), each on its own connection
    let mut clients = vec![];
    let mut rqs = vec![];
    for _ in 0..n {
        let c = client(addr, certs, BackoffStrategy::constant().with_max_attempts(0)).await?;
        let r = c.requestor(&topic).with_request_encoder(StringCodec).with_reply_decoder(StringCodec).with_request_timeout(2500u64)?.open().await?;
        tokio::time::sleep(Duration::from_millis(40)).await;
        clients.push(c);
        rqs.push(r);
    }
    let mut calls = vec![];
    for (i, r) in rqs.iter().enumerate() {
        let mut r = r.clone();
        let own = format!("q{i}");
        calls.push(tokio::spawn(async move { let res = r.request(own.clone()).await; (own, res) }));
    }
    let mut reqs: Vec<MessagePayload> = vec![];
    while reqs.len() < n {
        match tokio::time::timeout(Duration::from_secs(5), rs.next()).await {
            Ok(Some(Ok(Frame::Message(p)))) => reqs.push(p),
            other => anyhow::bail!("the replier saw {} of {n} requests, then {other:?}", reqs.len()),
        }
    }
    clients[victim].verif_close_connection().await;
    tokio::time::sleep(Duration::from_millis(200)).await;
    let reply = |p: &MessagePayload| Frame::Message(MessagePayload { headers: p.headers.clone(), message: format!("r:{}", String::from_utf8_lossy(&p.message)).into() });
    let vname = format!("q{victim}");
    // the victim's reply first, twice with a pause: the router meets the dead sink, evicts it, and carries on
    for _ in 0..2 {
        for p in reqs.iter().filter(|p| p.message.as_ref() == vname.as_bytes()) { let _ = rs.send(reply(p)).await; }
        tokio::time::sleep(Duration::from_millis(150)).await;
    }
    for p in reqs.iter().filter(|p| p.message.as_ref() != vname.as_bytes()) { let _ = rs.send(reply(p)).await; }
    let mut outs = vec![String::new(); n];
    for (i, c) in calls.into_iter().enumerate() {
        let (own, res) = c.await?;
        outs[i] = if i == victim { "gone".to_string() } else { outcome(&res, &own) };
    }
    // follow-up calls of the survivors, answered normally
    let answer = tokio::spawn(async move {
        loop {
            match tokio::time::timeout(Duration::from_secs(4), rs.next()).await {
                Ok(Some(Ok(Frame::Message(p)))) => { let f = Frame::Message(MessagePayload { headers: p.headers.clone(), message: format!("r:{}", String::from_utf8_lossy(&p.message)).into() }); let _ = rs.send(f).await; }
                _ => break,
            }
        }
    });
    let mut follow = vec![];
    for (i, r) in rqs.iter_mut().enumerate() {
        if i == victim { continue; }
        let own = format!("z{i}");
        let res = r.request(own.clone()).await;
        follow.push(outcome(&res, &own));
    }
    answer.abort();
    Ok(format!("{} | {}", outs.join(","), follow.join(",")))
}

/// `rqwrap <calls>`: a call whose reply is held back stays outstanding while <calls> further calls are made on clones of the
/// same requestor (all answered at once), then one more call: the replier answers the old one first, then the new one.
/// Request ids must not have come round in between (fewer than 2^32 calls): each of the two gets its own reply.
async fn run_wrap(addr: SocketAddr, certs: &Certs, calls: usize) -> anyhow::Result<String> {
    let topic = format!("/verif/rpc{}", TOPIC.fetch_add(1, Ordering::SeqCst));
    let conn = raw_connect(addr, &certs.client("ca.der"), Some((&certs.client("localhost.der"), &certs.client("localhost.key.der")))).await?;
    let mut rs = raw_stream(&conn).await?;
    rs.send(Frame::RegisterReplier(ReplierPayload { topic: TopicName::try_from(topic.as_str())? })).await?;
    match rs.next().await { Some(Ok(Frame::Ok)) => {}, other => anyhow::bail!("replier registration answered {other:?}") }
    let replier = tokio::spawn(async move {
        let _keep = conn;
        let mut held: Option<MessagePayload> = None;
        let reply = |p: &MessagePayload| Frame::Message(MessagePayload { headers: p.headers.clone(), message: format!("r:{}", String::from_utf8_lossy(&p.message)).into() });
        while let Some(Ok(Frame::Message(p))) = rs.next().await {
            if &p.message[..] == b"first" { held = Some(p); continue; }
            if &p.message[..] == b"last" { if let Some(h) = held.take() { let _ = rs.send(reply(&h)).await; } }
            let _ = rs.send(reply(&p)).await;
        }
    });
    tokio::time::sleep(Duration::from_millis(30)).await;
    let client = client(addr, certs, BackoffStrategy::constant().with_max_attempts(0)).await?;
    let rq = client.requestor(&topic).with_request_encoder(StringCodec).with_reply_decoder(StringCodec).with_request_timeout(120_000u64)?.open().await?;
    let mut a = rq.clone();
    let first = tokio::spawn(async move { a.request("first".to_string()).await });
    tokio::time::sleep(Duration::from_millis(100)).await;
    let workers = 16usize;
    let mut hs = vec![];
    for w in 0..workers {
        let mut r = rq.clone();
        let n = calls / workers + if w < calls % workers { 1 } else { 0 };
        hs.push(tokio::spawn(async move {
            let mut bad = 0usize;
            for k in 0..n { let own = format!("e{w}.{k}"); match r.request(own.clone()).await { Ok(s) if s == format!("r:{own}") => {}, _ => bad += 1 } }
            bad
        }));
    }
    let mut bad = 0;
    for h in hs { bad += h.await?; }
    let mut b = rq.clone();
    let last = b.request("last".to_string()).await;
    let first = tokio::time::timeout(Duration::from_secs(10), first).await;
    replier.abort();
    let f = match first { Ok(Ok(r)) => outcome(&r, "first"), _ => "hang".to_string() };
    Ok(format!("{},{}{}", f, outcome(&last, "last"), if bad == 0 { String::new() } else { format!(",wrong:{bad}_of_the_calls_in_between") }))
}

/// `rqstallc <n> <kib>`: like `rqstall`, but the n calls are made at the same time on clones of one requestor (400 ms
/// timeout): every one of them must fail with a timeout in time, not one after the other
async fn run_stall_concurrent(addr: SocketAddr, certs: &Certs, n: usize, kib: usize) -> anyhow::Result<String> {
    let topic = format!("/verif/rpc{}", TOPIC.fetch_add(1, Ordering::SeqCst));
    let conn = raw_connect(addr, &certs.client("ca.der"), Some((&certs.client("localhost.der"), &certs.client("localhost.key.der")))).await?;
    let mut rs = raw_stream(&conn).await?;
    rs.send(Frame::RegisterReplier(ReplierPayload { topic: TopicName::try_from(topic.as_str())? })).await?;
    match rs.next().await { Some(Ok(Frame::Ok)) => {}, other => anyhow::bail!("replier registration answered {other:?}") }
    tokio::time::sleep(Duration::from_millis(30)).await;
    let client = client(addr, certs, BackoffStrategy::constant().with_max_attempts(0)).await?;
    let rq = client.requestor(&topic).with_request_encoder(StringCodec).with_reply_decoder(StringCodec).with_request_timeout(400u64)?.open().await?;
    let body = "x".repeat(kib * 1024);
    let t0 = std::time::Instant::now();
    let mut hs = vec![];
    for i in 0..n {
        let mut r = rq.clone();
        let own = format!("{i}|{body}");
        hs.push(tokio::spawn(async move { let res = r.request(own).await; (res, t0.elapsed()) }));
    }
    let mut outs = vec![];
    for h in hs {
        match tokio::time::timeout(Duration::from_secs(12), h).await {
            Err(_) => outs.push("hang".to_string()),
            Ok(Err(_)) => outs.push("panic".to_string()),
            // a timeout of 400 ms reported more than 2 s after the call was made is not a timely error
            Ok(Ok((res, dt))) => outs.push(if dt > Duration::from_millis(2000) { format!("late:{}ms", dt.as_millis()) } else { outcome(&res, "?") }),
        }
    }
    drop(rs);
    Ok(outs.join(","))
}

/// `rqmany <n>`: nobody is bound to the topic; n calls on clones of one requestor all time out; so does one more (however
/// many went unanswered before); then a replier binds and three further calls on the same requestor are answered.
/// Line: `timeout | timeout | ok,ok,ok` (the first field is `timeout` when all n calls timed out).
async fn run_many(addr: SocketAddr, certs: &Certs, n: usize) -> anyhow::Result<String> {
    let topic = format!("/verif/rpc{}", TOPIC.fetch_add(1, Ordering::SeqCst));
    let client = client(addr, certs, BackoffStrategy::constant().with_max_attempts(0)).await?;
    let mut rq = client.requestor(&topic).with_request_encoder(StringCodec).with_reply_decoder(StringCodec).with_request_timeout(1500u64)?.open().await?;
    let mut hs = vec![];
    for i in 0..n {
        let mut r = rq.clone();
        hs.push(tokio::spawn(async move { r.request(format!("u{i}")).await }));
    }
    let mut other: Vec<String> = vec![];
    for h in hs {
        match tokio::time::timeout(Duration::from_secs(15), h).await {
            Err(_) => other.push("hang".to_string()),
            Ok(Err(_)) => other.push("panic".to_string()),
            Ok(Ok(res)) => { let o = outcome(&res, "?"); if o != "timeout" { other.push(o); } }
        }
    }
    let first = if other.is_empty() { "timeout".to_string() } else { other[0].clone() };
    let one_more = match tokio::time::timeout(Duration::from_secs(8), rq.request("one-more".to_string())).await { Err(_) => "hang".to_string(), Ok(res) => outcome(&res, "?") };
    // now somebody answers
    let c2 = crate::e2e::client(addr, certs, BackoffStrategy::constant().with_max_attempts(0)).await?;
    let mut replier = c2.replier(&topic).with_request_decoder(StringCodec).with_reply_encoder(StringCodec)
        .with_handler(|req: String| async move { Ok::<_, anyhow::Error>(format!("r:{req}")) }).open().await?;
    let rep = tokio::spawn(async move { let _ = replier.listen().await; });
    // (the requests nobody answered are handed to it first; their replies find no caller)
    tokio::time::sleep(Duration::from_millis(1200)).await;
    let mut last = vec![];
    for i in 0..3 {
        // (the replier may still be working through the backlog: a call that times out is made again)
        let mut o = "timeout".to_string();
        for attempt in 0..8 {
            let want = format!("after{i}.{attempt}");
            o = match tokio::time::timeout(Duration::from_secs(8), rq.request(want.clone())).await { Err(_) => "hang".to_string(), Ok(res) => outcome(&res, &want) };
            if o != "timeout" { break; }
        }
        last.push(o);
    }
    rep.abort();
    Ok(format!("{first} | {one_more} | {}", last.join(",")))
}

/// `rqretry`: two separately opened requestor streams (each counts its request ids from 0) and a library replier. The first
/// stream's call 0 is answered; the second stream's connection is cut and its call 0 is made: whatever the keep-alive wrapper
/// re-sends after reconnecting, the caller gets the reply to *its* request. Line: `ok,ok`.
async fn run_retry(addr: SocketAddr, certs: &Certs) -> anyhow::Result<String> {
    let topic = format!("/verif/rpc{}", TOPIC.fetch_add(1, Ordering::SeqCst));
    let rc = client(addr, certs, BackoffStrategy::constant().with_max_attempts(3).with_step(Duration::from_millis(30))).await?;
    let mut replier = rc.replier(&topic).with_request_decoder(StringCodec).with_reply_encoder(StringCodec)
        .with_handler(|req: String| async move { Ok::<_, anyhow::Error>(format!("r:{req}")) }).open().await?;
    let rep = tokio::spawn(async move { let _ = replier.listen().await; });
    tokio::time::sleep(Duration::from_millis(60)).await;
    let ca = client(addr, certs, BackoffStrategy::constant().with_max_attempts(3).with_step(Duration::from_millis(30))).await?;
    let cb = client(addr, certs, BackoffStrategy::constant().with_max_attempts(3).with_step(Duration::from_millis(30))).await?;
    let mut a = ca.requestor(&topic).with_request_encoder(StringCodec).with_reply_decoder(StringCodec).with_request_timeout(1500u64)?.open().await?;
    let mut b = cb.requestor(&topic).with_request_encoder(StringCodec).with_reply_decoder(StringCodec).with_request_timeout(1500u64)?.open().await?;
    let ra = match tokio::time::timeout(Duration::from_secs(8), a.request("first0".to_string())).await { Err(_) => "hang".to_string(), Ok(r) => outcome(&r, "first0") };
    cb.verif_close_connection().await;
    let mut rb = "timeout".to_string();
    for _ in 0..4 {
        rb = match tokio::time::timeout(Duration::from_secs(8), b.request("second0".to_string())).await { Err(_) => "hang".to_string(), Ok(r) => outcome(&r, "second0") };
        if rb != "timeout" { break; }
    }
    rep.abort();
    Ok(format!("{ra},{rb}"))
}

/// `rqfrac <micros>`: nobody is bound; a requestor whose timeout is not a whole number of milliseconds: the call fails with
/// a timeout error in time (the configured duration is what bounds the call, whatever its unit). Line: `timeout`.
async fn run_frac(addr: SocketAddr, certs: &Certs, micros: u64) -> anyhow::Result<String> {
    let topic = format!("/verif/rpc{}", TOPIC.fetch_add(1, Ordering::SeqCst));
    let client = client(addr, certs, BackoffStrategy::constant().with_max_attempts(0)).await?;
    let mut rq = client.requestor(&topic).with_request_encoder(StringCodec).with_reply_decoder(StringCodec).with_request_timeout(Duration::from_micros(micros))?.open().await?;
    let t0 = std::time::Instant::now();
    Ok(match tokio::time::timeout(Duration::from_secs(6), rq.request("x".to_string())).await {
        Err(_) => "hang".to_string(),
        Ok(r) => { let o = outcome(&r, "x"); if o == "timeout" && t0.elapsed() > Duration::from_micros(micros) + Duration::from_secs(3) { format!("late:{}ms", t0.elapsed().as_millis()) } else { o } }
    })
}

async fn run_reuse(addr: SocketAddr, certs: &Certs, rounds: usize) -> anyhow::Result<String> {
    let mut outs = vec![];
    for _ in 0..rounds {
        let topic = format!("/verif/rpc{}", TOPIC.fetch_add(1, Ordering::SeqCst));
        let rep = scripted_replier(addr, certs, &topic, Duration::from_millis(1), true).await?;
        tokio::time::sleep(Duration::from_millis(30)).await;
        let client = client(addr, certs, BackoffStrategy::constant().with_max_attempts(0)).await?;
        let mut a = client.requestor(&topic).with_request_encoder(StringCodec).with_reply_decoder(StringCodec).with_request_timeout(250u64)?.open().await?;
        let ra = a.request("slow".to_string()).await;
        outs.push(outcome(&ra, "slow"));
        drop(a);
        // the router sees that its last requestor stream has ended
        tokio::time::sleep(Duration::from_millis(200)).await;
        let mut b = client.requestor(&topic).with_request_encoder(StringCodec).with_reply_decoder(StringCodec).with_request_timeout(1500u64)?.open().await?;
        let rb = b.request("second".to_string()).await;
        outs.push(outcome(&rb, "second"));
        let rb2 = b.request("third".to_string()).await;
        outs.push(outcome(&rb2, "third"));
        rep.abort();
    }
    Ok(outs.join(","))
}

pub fn run(cfg: &Cfg) {
    let mut out = Out::new(&cfg.out, "e2ereq");
    let rt = runtime();
    let certs = Certs::generate(&scratch_dir("req")).expect("certificates");
    let addr = rt.block_on(async { start_server(&certs) }).expect("server");
    let mut cases: Vec<String> = vec![];
    if let Some(lines) = cfg.replay_lines() {
        cases = lines;
    } else {
        let mut r = Rng::new(cfg.seed, "e2ereq");
        for (ns, nc) in [(1usize, 1usize), (1, 3), (2, 2), (3, 1), (2, 3)] {
            let n = ns * nc;
            for perm in ["fwd", "rev", "rot"] {
                cases.push(format!("rq {ns} {nc} 400 {perm} {}", vec!["r"; n].join(",")));
                for _ in 0..cfg.n(2, 12) {
                    let acts: Vec<&str> = (0..n).map(|_| *r.pick(&["r", "r", "r", "d", "u", "l", "x"])).collect();
                    cases.push(format!("rq {ns} {nc} 400 {perm} {}", acts.join(",")));
                }
            }
        }
        cases.push("rqcut 3 1".into());
        cases.push("rqcut 2 2".into());
        cases.push("rqreuse 2".into());
        cases.push("rqlate 2".into());
        cases.push("rqstagger 3 2".into());
        cases.push("rqdead 3 0".into());
        cases.push("rqdead 4 1".into());
        cases.push("rqstall 3 1".into());
        cases.push("rqstall 8 900".into());
        if cfg.tier == Tier::Thorough { cases.push("rqcut 6 3".into()); cases.push("rqreuse 6".into()); }
        // ids that have come round (only when looking hard: 65 535 calls take a few seconds)
        cases.push("rqwrap 65535".into());
        cases.push("rqwrap 255".into());
        if cfg.tier == Tier::Thorough || searching() { cases.push("rqwrap 131071".into()); }
        cases.push("rqstallc 16 900".into());
        cases.push("rqmany 1100".into());
        cases.push("rqretry".into());
        for us in [400_500u64, 1_333_333, 999, 250_001] { cases.push(format!("rqfrac {us}")); }
        cases.push("rq 2 1 400 rev l,l".into());
        cases.push("rq 1 4 400 rev l,r,d,u".into());
    }
    for c in &cases {
        let t: Vec<&str> = c.split(' ').collect();
        if t[0] == "rqretry" || t[0] == "rqfrac" || t[0] == "rqmany" || t[0] == "rqstallc" || t[0] == "rqwrap" || t[0] == "rqdead" || t[0] == "rqcut" || t[0] == "rqreuse" || t[0] == "rqstall" || t[0] == "rqlate" || t[0] == "rqstagger" {
            let res = rt.block_on(async {
                tokio::time::timeout(Duration::from_secs(90), async {
                    if t[0] == "rqstallc" { run_stall_concurrent(addr, &certs, t[1].parse()?, t[2].parse()?).await }
                    else if t[0] == "rqmany" { run_many(addr, &certs, t[1].parse()?).await }
                    else if t[0] == "rqretry" { run_retry(addr, &certs).await }
                    else if t[0] == "rqfrac" { run_frac(addr, &certs, t[1].parse()?).await }
                    else if t[0] == "rqwrap" { run_wrap(addr, &certs, t[1].parse()?).await }
                    else if t[0] == "rqdead" { run_dead(addr, &certs, t[1].parse()?, t[2].parse()?).await }
                    else if t[0] == "rqcut" { run_cut(addr, &certs, t[1].parse()?, t[2].parse()?).await }
                    else if t[0] == "rqstall" { run_stall(addr, &certs, t[1].parse()?, t[2].parse()?).await }
                    else if t[0] == "rqlate" { run_late(addr, &certs, t[1].parse()?).await }
                    else if t[0] == "rqstagger" { run_stagger(addr, &certs, t[1].parse()?, t[2].parse()?).await }
                    else { run_reuse(addr, &certs, t[1].parse()?).await }
                }).await
            });
            // scenarios with outages speak for C12 as well (requests issued after recovery are answered)
            let tag = if t[0] == "rqcut" || t[0] == "rqstagger" || t[0] == "rqretry" { "C04/C12" } else { "C04" };
            let (imp, mon) = match res {
                Err(_) => ("TIMEOUT".to_string(), Err(format!("{tag}: the exchange did not complete within 90 s"))),
                Ok(Err(e)) => (format!("ERROR {}", format!("{e:?}").replace('\n', " ").chars().take(200).collect::<String>()), Err(format!("{tag}: {e}"))),
                Ok(Ok(line)) => {
                    let mut m = Ok(());
                    for (j, o) in line.replace(" | ", ",").split(',').enumerate() {
                        if o == "gone" { continue; }
                        if o.starts_with("wrong") { m = Err(format!("{tag}: request() returned another request's reply ({o}) [{line}]")); break; }
                        if o.starts_with("late") { m = Err(format!("{tag}: a request that cannot be handed over (the replier reads nothing, other clones are stuck in the same send) reported its timeout late ({o}) [{line}]")); break; }
                        if o == "hang" { m = Err(format!("{tag}: a request whose reply cannot arrive did not fail with a timeout error: request() never returned [{line}]")); break; }
                        let want = if ((t[0] == "rqreuse" || t[0] == "rqlate") && j % 3 == 0) || t[0] == "rqstall" || t[0] == "rqstallc" || t[0] == "rqfrac" || (t[0] == "rqmany" && j < 2) { "timeout" } else { "ok" };
                        if o != want { m = Err(format!("{tag}: call {j} ended with {o}, expected {want} [{line}]")); break; }
                    }
                    (line, m)
                }
            };
            out.stat(t[0]);
            out.case(c, &imp, mon);
            continue;
        }
        let res = rt.block_on(async { tokio::time::timeout(Duration::from_secs(40), run_case(addr, &certs, &t)).await });
        let acts: Vec<&str> = t[5].split(',').collect();
        let (case_line, imp, mon) = match res {
            Err(_) => (c.clone(), "TIMEOUT".to_string(), Err("C04: the exchange did not complete within 40 s".to_string())),
            Ok(Err(e)) => (c.clone(), format!("ERROR {}", format!("{e:?}").replace('\n', " ").chars().take(200).collect::<String>()), Err(format!("C04: {e}"))),
            Ok(Ok((arrival, line))) => {
                let (first, follow) = line.split_once(" | ").unwrap();
                let mut m = Ok(());
                for (j, o) in first.split(',').enumerate() {
                    let want = match acts.get(j).copied().unwrap_or("r") { "r" | "u" => "ok", _ => "timeout" };
                    if o.starts_with("wrong") { m = Err(format!("C04: request() returned another request's reply ({o})")); break; }
                    if o != want { m = Err(format!("C04: call whose request arrived {j}-th (replier action {}) ended with {o}, expected {want}", acts.get(j).copied().unwrap_or("r"))); break; }
                }
                if m.is_ok() { for o in follow.split(',') { if o != "ok" { m = Err(format!("C04: a follow-up request ended with {o} (a late or stray reply was handed to it, or it was lost)")); } } }
                (format!("{} {}", t[..6].join(" "), arrival), line, m)
            }
        };
        out.stat(&format!("streams_{}", t[1]));
        out.stat(&format!("clones_{}", t[2]));
        for a in &acts { out.stat(&format!("action_{a}")); }
        out.case(&case_line, &imp, mon);
    }
    let _ = std::fs::remove_dir_all(&certs.dir);
    out.finish();
}
