//! C11 (registration half), C07 (server side), C17: raw peers speaking the wire protocol to a real server.
//!   reg first <frame…>                      open a stream, send that first frame, report the server's answer
//!   reg mismatch <RP|RS|RR|RQ> <RP|RS|RR|RQ>  register the first role on a fresh topic, then the second on the same
//!   reg abuse <RP|RQ|RR> <frame>;<frame>…    register in that role, then send those frames; afterwards the topic
//!                                            must still serve well-behaved library clients
//!   reg pipeline <RP|RQ>                     first frames sent in the same write as the registration
//!   reg mute                                 a peer that grants no stream credit registers (wrong pattern, invalid name, valid)
//!   reg abandon <role> <n>                   n registrations whose peer stops reading before it registers and then leaves
//!   reg stall <n>                            a subscriber on topic A that never reads, > 1.25 MB published to A,
//!                                            n further registrations on A; then a pub/sub round trip on topic B
//!   reg big <RP|RQ> <L>                      a raw publisher / requestor sends one Message frame whose payload length
//!                                            (`Frame::get_length`) is L, then a small one; a library subscriber /
//!                                            replier is attached. Frames up to the limit must pass; a request that
//!                                            outgrows the limit once the router tags it is dropped, nothing else
//!   reg lib <RP|RR> <pub|sub|req>           a raw peer makes the topic a pub/sub (RP) or request/reply (RR) one; then a
//!                                            LIBRARY client opens a stream in the given role: `open()` must succeed or
//!                                            report the server's refusal as an error carrying its code
//!   reg iso <nsA> <tpA> <nsB> <tpB>         (hex) raw subscribers and publishers on two names; each publisher sends one
//!                                            message; every subscriber must see exactly the traffic of its own name
//! Frames use the notation of wire.rs (`RP ns topic ret ops`, `M headers msg`, `OK`, …), `_` for spaces inside.
//! Implementation line: the answer(s) (`Ok`, `Error<code>`, `closed`, `timeout`) and `probe=<ok|FAILED …>`.
use crate::e2e::*;
use crate::util::*;
use crate::wire::parse_frame;
use futures::{SinkExt, StreamExt};
use selium::keep_alive::BackoffStrategy;
use selium::prelude::*;
use selium::std::codecs::StringCodec;
use selium_protocol::*;
use std::net::SocketAddr;
use std::sync::atomic::{AtomicUsize, Ordering};
use std::time::Duration;

static TOPIC: AtomicUsize = AtomicUsize::new(0);

fn fresh() -> (String, String) { ("verif".to_string(), format!("reg{}", TOPIC.fetch_add(1, Ordering::SeqCst))) }

fn reg_frame(kind: &str, ns: &str, tp: &str) -> Frame {
    let topic = TopicName::_create_unchecked(ns, tp);
    match kind {
        "RP" => Frame::RegisterPublisher(PublisherPayload { topic, retention_policy: 0, operations: vec![] }),
        "RS" => Frame::RegisterSubscriber(SubscriberPayload { topic, retention_policy: 0, operations: vec![] }),
        "RR" => Frame::RegisterReplier(ReplierPayload { topic }),
        _ => Frame::RegisterRequestor(RequestorPayload { topic }),
    }
}

async fn answer(s: &mut BiStream) -> String {
    match tokio::time::timeout(Duration::from_millis(1500), s.next()).await {
        Err(_) => "timeout".into(),
        Ok(None) => "closed".into(),
        Ok(Some(Ok(Frame::Ok))) => "Ok".into(),
        Ok(Some(Ok(Frame::Error(e)))) => format!("Error{}", e.code),
        Ok(Some(Ok(f))) => format!("frame:{}", crate::wire::frame_text(&f, true).split(' ').next().unwrap_or("?")),
        Ok(Some(Err(_))) => "closed".into(),
    }
}

/// a well-behaved pub/sub round trip on (ns, tp) through the client library
async fn probe_pubsub(addr: SocketAddr, certs: &Certs, ns: &str, tp: &str) -> String {
    match client(addr, certs, BackoffStrategy::constant().with_max_attempts(0)).await {
        Ok(c) => probe_pubsub_on(&c, ns, tp).await,
        Err(e) => format!("FAILED:{}", format!("{e}").chars().take(60).collect::<String>().replace(' ', "_")),
    }
}

/// a pub/sub round trip on topic /ns/tp over raw streams of an existing QUIC connection
async fn probe_raw_on(conn: &quinn::Connection, ns: &str, tp: &str) -> String {
    let r = async {
        let mut sub = raw_stream(conn).await?;
        sub.send(reg_frame("RS", ns, tp)).await?;
        let a = answer(&mut sub).await;
        if a != "Ok" { return Ok::<_, anyhow::Error>(format!("FAILED:subscriber_{a}")); }
        tokio::time::sleep(Duration::from_millis(40)).await;
        let mut publ = raw_stream(conn).await?;
        publ.send(reg_frame("RP", ns, tp)).await?;
        let a = answer(&mut publ).await;
        if a != "Ok" { return Ok(format!("FAILED:publisher_{a}")); }
        publ.send(Frame::Message(selium_protocol::MessagePayload { headers: None, message: bytes::Bytes::from_static(b"probe") })).await?;
        match tokio::time::timeout(Duration::from_millis(1500), sub.next()).await {
            Ok(Some(Ok(Frame::Message(m)))) if &m.message[..] == b"probe" => Ok("ok".to_string()),
            other => Ok(format!("FAILED:{}", format!("{other:?}").chars().take(60).collect::<String>().replace(' ', "_"))),
        }
    };
    match tokio::time::timeout(Duration::from_secs(6), r).await {
        Err(_) => "FAILED:hang".into(),
        Ok(Err(e)) => format!("FAILED:{}", format!("{e}").chars().take(60).collect::<String>().replace(' ', "_")),
        Ok(Ok(s)) => s,
    }
}

async fn probe_pubsub_on(client: &selium::Client, ns: &str, tp: &str) -> String {
    let r = async {
        let topic = format!("/{ns}/{tp}");
        let mut sub = client.subscriber(&topic).with_decoder(StringCodec).open().await?;
        tokio::time::sleep(Duration::from_millis(40)).await;
        let mut publ = client.publisher(&topic).with_encoder(StringCodec).open().await?;
        publ.send("probe".to_string()).await?;
        match tokio::time::timeout(Duration::from_millis(1500), sub.next()).await {
            Ok(Some(Ok(s))) if s == "probe" => Ok::<_, anyhow::Error>("ok".to_string()),
            other => Ok(format!("FAILED:{}", format!("{other:?}").chars().take(60).collect::<String>().replace(' ', "_"))),
        }
    };
    match tokio::time::timeout(Duration::from_secs(6), r).await {
        Err(_) => "FAILED:hang".into(),
        Ok(Err(e)) => format!("FAILED:{}", format!("{e}").chars().take(60).collect::<String>().replace(' ', "_")),
        Ok(Ok(s)) => s,
    }
}

async fn probe_reqrep(addr: SocketAddr, certs: &Certs, ns: &str, tp: &str) -> String {
    let r = async {
        let client = client(addr, certs, BackoffStrategy::constant().with_max_attempts(0)).await?;
        let topic = format!("/{ns}/{tp}");
        let c2 = client.clone();
        let t2 = topic.clone();
        let rep = tokio::spawn(async move {
            let mut replier = c2.replier(&t2).with_request_decoder(StringCodec).with_reply_encoder(StringCodec)
                .with_handler(|req: String| async move { Ok::<_, anyhow::Error>(format!("r:{req}")) }).open().await?;
            replier.listen().await
        });
        tokio::time::sleep(Duration::from_millis(80)).await;
        let mut rq = client.requestor(&topic).with_request_encoder(StringCodec).with_reply_decoder(StringCodec).with_request_timeout(1500u64)?.open().await?;
        let out = match rq.request("probe".to_string()).await { Ok(s) if s == "r:probe" => "ok".to_string(), other => format!("FAILED:{}", format!("{other:?}").chars().take(60).collect::<String>().replace(' ', "_")) };
        rep.abort();
        Ok::<_, anyhow::Error>(out)
    };
    match tokio::time::timeout(Duration::from_secs(6), r).await {
        Err(_) => "FAILED:hang".into(),
        Ok(Err(e)) => format!("FAILED:{}", format!("{e}").chars().take(60).collect::<String>().replace(' ', "_")),
        Ok(Ok(s)) => s,
    }
}

async fn raw(addr: SocketAddr, certs: &Certs) -> anyhow::Result<quinn::Connection> {
    raw_connect(addr, &certs.client("ca.der"), Some((&certs.client("localhost.der"), &certs.client("localhost.key.der")))).await
}

async fn run_case(addr: SocketAddr, certs: &Certs, t: &[&str]) -> anyhow::Result<String> {
    match t[1] {
        "first" => {
            let toks: Vec<String> = t[2..].iter().map(|s| s.replace('_', " ")).collect();
            let toks: Vec<&str> = toks.iter().map(|s| s.as_str()).collect();
            let f = parse_frame(&toks);
            let conn = raw(addr, certs).await?;
            let mut s = raw_stream(&conn).await?;
            s.send(f.clone()).await?;
            let mut a = answer(&mut s).await;
            if a.starts_with("Error") {
                // a refusal is final: the stream carries nothing further and is closed
                let then = match tokio::time::timeout(Duration::from_millis(700), s.next()).await {
                    Err(_) => "open".to_string(),
                    Ok(None) | Ok(Some(Err(_))) => "closed".to_string(),
                    Ok(Some(Ok(Frame::Ok))) => "Ok".to_string(),
                    Ok(Some(Ok(f))) => format!("frame:{}", crate::wire::frame_text(&f, true).split(' ').next().unwrap_or("?")),
                };
                a = format!("{a} then={then}");
            }
            // the raw peer leaves again
            drop(s);
            conn.close(0u32.into(), b"done");
            tokio::time::sleep(Duration::from_millis(120)).await;
            // whatever happened, other topics (and this one, if the name is valid) keep working
            let (ns, tp) = fresh();
            let mut probe = probe_pubsub(addr, certs, &ns, &tp).await;
            if a == "Ok" {
                if let Some(tn) = f.get_topic() {
                    let p2 = if matches!(f, Frame::RegisterPublisher(_) | Frame::RegisterSubscriber(_)) { probe_pubsub(addr, certs, tn.namespace(), tn.topic()).await } else { probe_reqrep(addr, certs, tn.namespace(), tn.topic()).await };
                    if p2 != "ok" { probe = format!("same-topic-{p2}"); }
                }
            }
            Ok(format!("{a} probe={probe}"))
        }
        "mismatch" => {
            let (ns, tp) = fresh();
            let conn = raw(addr, certs).await?;
            let mut s1 = raw_stream(&conn).await?;
            s1.send(reg_frame(t[2], &ns, &tp)).await?;
            let a1 = answer(&mut s1).await;
            tokio::time::sleep(Duration::from_millis(50)).await;
            let mut s2 = raw_stream(&conn).await?;
            s2.send(reg_frame(t[3], &ns, &tp)).await?;
            let a2 = answer(&mut s2).await;
            tokio::time::sleep(Duration::from_millis(50)).await;
            drop(s1); drop(s2);
            conn.close(0u32.into(), b"done");
            tokio::time::sleep(Duration::from_millis(120)).await;
            // the topic keeps its original kind and keeps serving it
            let probe = if t[2] == "RP" || t[2] == "RS" { probe_pubsub(addr, certs, &ns, &tp).await } else { probe_reqrep(addr, certs, &ns, &tp).await };
            Ok(format!("{a1} {a2} probe={probe}"))
        }
        "abuse" => {
            let (ns, tp) = fresh();
            let conn = raw(addr, certs).await?;
            // a well-behaved counterpart first, so that the router actually processes what the abuser sends
            let client = client(addr, certs, BackoffStrategy::constant().with_max_attempts(0)).await?;
            let topic = format!("/{ns}/{tp}");
            let is_pubsub = t[2] == "RP";
            let mut keep_sub = None;
            let mut keep_rep = None;
            if is_pubsub {
                keep_sub = Some(client.subscriber(&topic).with_decoder(StringCodec).open().await?);
            } else if t[2] == "RQ" {
                let c2 = client.clone(); let t2 = topic.clone();
                keep_rep = Some(tokio::spawn(async move {
                    let mut replier = c2.replier(&t2).with_request_decoder(StringCodec).with_reply_encoder(StringCodec)
                        .with_handler(|req: String| async move { Ok::<_, anyhow::Error>(format!("r:{req}")) }).open().await?;
                    replier.listen().await
                }));
                tokio::time::sleep(Duration::from_millis(60)).await;
            }
            let mut s = raw_stream(&conn).await?;
            s.send(reg_frame(t[2], &ns, &tp)).await?;
            let a = answer(&mut s).await;
            for ft in t[3].split(';') {
                let toks: Vec<String> = ft.split('~').map(|x| x.to_string()).collect();
                let toks: Vec<&str> = toks.iter().map(|x| x.as_str()).collect();
                let _ = s.send(parse_frame(&toks)).await;
            }
            tokio::time::sleep(Duration::from_millis(120)).await;
            drop(s);
            drop(keep_sub);
            if let Some(h) = keep_rep { h.abort(); tokio::time::sleep(Duration::from_millis(60)).await; }
            let probe = if is_pubsub { probe_pubsub(addr, certs, &ns, &tp).await } else { probe_reqrep(addr, certs, &ns, &tp).await };
            Ok(format!("{a} probe={probe}"))
        }
        "big" => {
            let l: usize = t[3].parse()?;
            let (ns, tp) = fresh();
            let topic = format!("/{ns}/{tp}");
            let client = client(addr, certs, BackoffStrategy::constant().with_max_attempts(0)).await?;
            let conn = raw(addr, certs).await?;
            let big = Frame::Message(MessagePayload { headers: None, message: bytes::Bytes::from(vec![b'x'; l.saturating_sub(9)]) });
            let small = |m: &str| Frame::Message(MessagePayload { headers: None, message: bytes::Bytes::from(m.as_bytes().to_vec()) });
            if t[2] == "RP" {
                let mut sub = client.subscriber(&topic).with_decoder(selium::std::codecs::BytesCodec).open().await?;
                tokio::time::sleep(Duration::from_millis(60)).await;
                let mut s = raw_stream(&conn).await?;
                s.send(reg_frame("RP", &ns, &tp)).await?;
                let a = answer(&mut s).await;
                let sent = s.send(big).await.is_ok();
                let _ = s.send(small("after")).await;
                let mut got = vec![];
                for _ in 0..(if sent { 2 } else { 1 }) {
                    match tokio::time::timeout(Duration::from_millis(2500), sub.next()).await { Ok(Some(Ok(b))) => got.push(b.len().to_string()), _ => break }
                }
                drop(s); drop(sub);
                let probe = probe_pubsub(addr, certs, &ns, &tp).await;
                Ok(format!("{a} {} got={} probe={probe}", if sent { "sent" } else { "refused" }, got.join(",")))
            } else {
                let c2 = client.clone(); let t2 = topic.clone();
                let rep = tokio::spawn(async move {
                    let mut replier = c2.replier(&t2).with_request_decoder(selium::std::codecs::BytesCodec).with_reply_encoder(StringCodec)
                        .with_handler(|req: Vec<u8>| async move { Ok::<_, anyhow::Error>(format!("len{}", req.len())) }).open().await?;
                    replier.listen().await
                });
                tokio::time::sleep(Duration::from_millis(100)).await;
                let mut s = raw_stream(&conn).await?;
                s.send(reg_frame("RQ", &ns, &tp)).await?;
                let a = answer(&mut s).await;
                let sent = s.send(big).await.is_ok();
                let mut reply = "no".to_string();
                if sent {
                    if let Ok(Some(Ok(Frame::Message(m)))) = tokio::time::timeout(Duration::from_millis(2500), s.next()).await { reply = String::from_utf8_lossy(&m.message).to_string(); }
                }
                let _ = s.send(small("after")).await;
                let after = match tokio::time::timeout(Duration::from_millis(2500), s.next()).await { Ok(Some(Ok(Frame::Message(m)))) => String::from_utf8_lossy(&m.message).to_string(), _ => "no".into() };
                drop(s);
                rep.abort();
                tokio::time::sleep(Duration::from_millis(60)).await;
                let probe = probe_reqrep(addr, certs, &ns, &tp).await;
                Ok(format!("{a} {} reply={reply} after={after} probe={probe}", if sent { "sent" } else { "refused" }))
            }
        }
        "lib" => {
            let (ns, tp) = fresh();
            let conn = raw(addr, certs).await?;
            let mut s1 = raw_stream(&conn).await?;
            s1.send(reg_frame(t[2], &ns, &tp)).await?;
            let a1 = answer(&mut s1).await;
            tokio::time::sleep(Duration::from_millis(50)).await;
            let topic = format!("/{ns}/{tp}");
            let client = client(addr, certs, BackoffStrategy::constant().with_max_attempts(0)).await?;
            let code = |e: &selium::std::errors::SeliumError| match e { selium::std::errors::SeliumError::OpenStream(c, _) => format!("err:{c}"), other => format!("err:{}", format!("{other:?}").split(|c: char| !c.is_alphanumeric()).next().unwrap_or("?")) };
            let a2 = match t[3] {
                "pub" => match tokio::time::timeout(Duration::from_secs(4), client.publisher(&topic).with_encoder(StringCodec).open()).await { Err(_) => "hang".to_string(), Ok(Ok(_)) => "ok".to_string(), Ok(Err(e)) => code(&e) },
                "sub" => match tokio::time::timeout(Duration::from_secs(4), client.subscriber(&topic).with_decoder(StringCodec).open()).await { Err(_) => "hang".to_string(), Ok(Ok(_)) => "ok".to_string(), Ok(Err(e)) => code(&e) },
                _ => match tokio::time::timeout(Duration::from_secs(4), client.requestor(&topic).with_request_encoder(StringCodec).with_reply_decoder(StringCodec).open()).await { Err(_) => "hang".to_string(), Ok(Ok(_)) => "ok".to_string(), Ok(Err(e)) => code(&e) },
            };
            drop(s1);
            Ok(format!("{a1} lib={a2} probe=ok"))
        }
        "iso" => {
            let name = |i: usize| (String::from_utf8_lossy(&unhx(t[i])).to_string(), String::from_utf8_lossy(&unhx(t[i + 1])).to_string());
            let (a, b) = (name(2), name(4));
            let conn = raw(addr, certs).await?;
            let mut answers = vec![];
            let mut subs = vec![];
            for n in [&a, &b] {
                let mut s = raw_stream(&conn).await?;
                s.send(reg_frame("RS", &n.0, &n.1)).await?;
                answers.push(answer(&mut s).await);
                subs.push(s);
            }
            tokio::time::sleep(Duration::from_millis(60)).await;
            for (n, text) in [(&a, "from-a"), (&b, "from-b")] {
                let mut p = raw_stream(&conn).await?;
                p.send(reg_frame("RP", &n.0, &n.1)).await?;
                answers.push(answer(&mut p).await);
                let _ = p.send(Frame::Message(MessagePayload { headers: None, message: bytes::Bytes::from(text) })).await;
                // … and one batch frame (what a publisher with batching enabled sends): forwarded like any message
                let _ = p.send(Frame::BatchMessage(bytes::Bytes::from(text))).await;
                let _ = p.finish().await;
                // the next publisher only after this one's message has had time to go through
                tokio::time::sleep(Duration::from_millis(60)).await;
            }
            let mut seen = vec![];
            for s in subs.iter_mut() {
                let mut got = vec![];
                loop {
                    match tokio::time::timeout(Duration::from_millis(250), s.next()).await {
                        Ok(Some(Ok(Frame::Message(m)))) => got.push(String::from_utf8_lossy(&m.message).to_string()),
                        Ok(Some(Ok(Frame::BatchMessage(b)))) => got.push(format!("B:{}", String::from_utf8_lossy(&b))),
                        _ => break,
                    }
                }
                seen.push(if got.is_empty() { "-".to_string() } else { got.join("+") });
            }
            drop(subs);
            Ok(format!("{} a={} b={} probe=ok", answers.join(" "), seen[0], seen[1]))
        }
        "pipeline" => {
            // a peer that does not wait for the acknowledgement: its first frames follow the registration in the same write
            // (they may sit in the server's read buffer when the registration is decoded). Nothing of them may be lost.
            use tokio_util::codec::Encoder;
            let enc = |frames: Vec<Frame>| -> bytes::BytesMut { let mut b = bytes::BytesMut::new(); for f in frames { selium_protocol::MessageCodec.encode(f, &mut b).expect("encode"); } b };
            let msg = |t: &str, h: Option<std::collections::HashMap<String, String>>| Frame::Message(MessagePayload { headers: h, message: bytes::Bytes::from(t.to_string()) });
            let (ns, tp) = fresh();
            let conn = raw(addr, certs).await?;
            let out = if t[2] == "RP" {
                let mut sub = raw_stream(&conn).await?;
                sub.send(reg_frame("RS", &ns, &tp)).await?;
                let a0 = answer(&mut sub).await;
                tokio::time::sleep(Duration::from_millis(60)).await;
                let (mut send, recv) = conn.open_bi().await?;
                // … and the write ends in the middle of a frame, whose rest follows once the server has had time to answer
                let second = enc(vec![msg("second", None)]);
                let mut head = enc(vec![reg_frame("RP", &ns, &tp), msg("first", None)]);
                head.extend_from_slice(&second[..4]);
                send.write_all(&head).await?;
                tokio::time::sleep(Duration::from_millis(200)).await;
                send.write_all(&second[4..]).await?;
                let mut p = selium_protocol::BiStream::from((send, recv));
                let a = answer(&mut p).await;
                p.send(msg("third", None)).await?;
                p.send(msg("fourth", None)).await?;
                let mut got = vec![];
                while got.len() < 4 { match tokio::time::timeout(Duration::from_millis(1200), sub.next()).await { Ok(Some(Ok(Frame::Message(m)))) => got.push(String::from_utf8_lossy(&m.message).to_string()), _ => break } }
                format!("{a0} {a} got={}", if got.is_empty() { "-".to_string() } else { got.join("+") })
            } else {
                // a requestor that pipelines its first request behind the registration, against a library replier
                let client = client(addr, certs, BackoffStrategy::constant().with_max_attempts(0)).await?;
                let topic = format!("/{ns}/{tp}");
                let c2 = client.clone(); let t2 = topic.clone();
                let rep = tokio::spawn(async move {
                    let mut replier = c2.replier(&t2).with_request_decoder(StringCodec).with_reply_encoder(StringCodec)
                        .with_handler(|req: String| async move { Ok::<_, anyhow::Error>(format!("r:{req}")) }).open().await?;
                    replier.listen().await
                });
                tokio::time::sleep(Duration::from_millis(120)).await;
                let hdr = |id: u32| Some([("req_id".to_string(), id.to_string())].into_iter().collect());
                let (mut send, recv) = conn.open_bi().await?;
                send.write_all(&enc(vec![reg_frame("RQ", &ns, &tp), msg("first", hdr(0)), msg("second", hdr(1))])).await?;
                let mut q = selium_protocol::BiStream::from((send, recv));
                let a = answer(&mut q).await;
                q.send(msg("third", hdr(2))).await?;
                let mut got = vec![];
                while got.len() < 3 { match tokio::time::timeout(Duration::from_millis(1500), q.next()).await { Ok(Some(Ok(Frame::Message(m)))) => got.push(String::from_utf8_lossy(&m.message).to_string()), _ => break } }
                rep.abort();
                got.sort();
                format!("Ok {a} got={}", if got.is_empty() { "-".to_string() } else { got.join("+") })
            };
            Ok(format!("{out} probe=ok"))
        }
        "mute" => {
            // a peer that grants the server no credit on its streams (it never reads) and so can take no answer: whatever it
            // registers as - a role the topic does not have, an invalid name, a perfectly good subscriber - the answer meant for
            // it must not be waited for in a place where it holds anybody else up
            let (ns, tp) = fresh();
            // the topic exists as request/reply
            let holder = raw(addr, certs).await?;
            let mut rep = raw_stream(&holder).await?;
            rep.send(reg_frame("RR", &ns, &tp)).await?;
            let a = answer(&mut rep).await;
            let mute = raw_connect_window(addr, &certs.client("ca.der"), Some((&certs.client("localhost.der"), &certs.client("localhost.key.der"))), Some(0)).await?;
            let mut kept = vec![];
            for (kind, n, t2) in [("RS", ns.as_str(), tp.as_str()), ("RP", ns.as_str(), tp.as_str()), ("RS", "ab", "c"), ("RS", "verif", "mutegood")] {
                let mut s = raw_stream(&mute).await?;
                let _ = tokio::time::timeout(Duration::from_millis(300), s.send(reg_frame(kind, n, t2))).await;
                kept.push(s);
            }
            tokio::time::sleep(Duration::from_millis(400)).await;
            let (ns2, tp2) = fresh();
            let probe = probe_pubsub(addr, certs, &ns2, &tp2).await;
            let (ns3, tp3) = fresh();
            let probe2 = probe_reqrep(addr, certs, &ns3, &tp3).await;
            drop(kept); drop(rep);
            Ok(format!("{a} probe={probe} other-names={probe2}"))
        }
        "abandon" => {
            // registrations that die half-way: the peer refuses to read (STOP_SENDING on its receiving side) before it sends
            // its registration, so the acknowledgement cannot be written; it then ends the stream. Nothing of such a
            // registration may stay behind: a genuine peer in the same role on the same topic is served afterwards.
            let n: usize = t[3].parse()?;
            let (ns, tp) = fresh();
            let conn = raw(addr, certs).await?;
            for _ in 0..n {
                let (send, mut recv) = conn.open_bi().await?;
                let _ = recv.stop(0u32.into());
                let mut s = selium_protocol::BiStream::from((send, recv));
                let _ = s.send(reg_frame(t[2], &ns, &tp)).await;
                let _ = s.finish().await;
                tokio::time::sleep(Duration::from_millis(30)).await;
            }
            tokio::time::sleep(Duration::from_millis(150)).await;
            let probe = if t[2] == "RP" || t[2] == "RS" { probe_pubsub(addr, certs, &ns, &tp).await } else { probe_reqrep(addr, certs, &ns, &tp).await };
            Ok(format!("probe={probe}"))
        }
        "race" => {
            // <subs> subscribers on connections of their own register at the same instant on a topic nobody has used yet
            // (<topics> times, a new topic each time): they are all on ONE topic — what is published there reaches each
            let (subs, topics): (usize, usize) = (t[2].parse()?, t[3].parse()?);
            let mut conns = vec![];
            for _ in 0..subs { conns.push(raw(addr, certs).await?); }
            let pconn = raw(addr, certs).await?;
            let mut verdict = "ok".to_string();
            'rounds: for round in 0..topics {
                let (ns, tp) = fresh();
                let barrier = std::sync::Arc::new(tokio::sync::Barrier::new(subs));
                let mut hs = vec![];
                for c in &conns {
                    let (c, ns, tp, b) = (c.clone(), ns.clone(), tp.clone(), barrier.clone());
                    hs.push(tokio::spawn(async move {
                        let mut s = raw_stream(&c).await?;
                        b.wait().await;
                        s.send(reg_frame("RS", &ns, &tp)).await?;
                        let a = answer(&mut s).await;
                        Ok::<_, anyhow::Error>((s, a))
                    }));
                }
                let mut streams = vec![];
                for h in hs {
                    match tokio::time::timeout(Duration::from_secs(5), h).await {
                        Ok(Ok(Ok((s, a)))) if a == "Ok" => streams.push(s),
                        Ok(Ok(Ok((_, a)))) => { verdict = format!("FAILED:round{round}:registration_answered_{a}"); break 'rounds; }
                        Ok(Ok(Err(e))) => { verdict = format!("FAILED:round{round}:registration_{}", format!("{e}").chars().take(40).collect::<String>().replace(' ', "_")); break 'rounds; }
                        _ => { verdict = format!("FAILED:round{round}:registration_hang"); break 'rounds; }
                    }
                }
                tokio::time::sleep(Duration::from_millis(60)).await;
                let mut publ = raw_stream(&pconn).await?;
                publ.send(reg_frame("RP", &ns, &tp)).await?;
                let a = answer(&mut publ).await;
                if a != "Ok" { verdict = format!("FAILED:round{round}:publisher_{a}"); break; }
                publ.send(Frame::Message(selium_protocol::MessagePayload { headers: None, message: bytes::Bytes::from_static(b"to-all") })).await?;
                let mut missing = 0;
                for s in streams.iter_mut() {
                    match tokio::time::timeout(Duration::from_millis(6000), s.next()).await {
                        Ok(Some(Ok(Frame::Message(m)))) if &m.message[..] == b"to-all" => {}
                        _ => missing += 1,
                    }
                }
                if missing > 0 { verdict = format!("FAILED:round{round}:{missing}_of_{subs}_subscribers_got_nothing"); break; }
                let _ = publ.finish().await;
            }
            Ok(format!("{verdict} probe=ok"))
        }
        "halfclosed" => {
            // a peer that has nothing more to send finishes its sending side (FIN) and keeps reading: a subscriber is still a
            // subscriber, a requestor is still owed its replies
            let (ns, tp) = fresh();
            let conn = raw(addr, certs).await?;
            let msg = |t: &str, h: Option<std::collections::HashMap<String, String>>| Frame::Message(MessagePayload { headers: h, message: bytes::Bytes::from(t.to_string()) });
            if t[2] == "RS" {
                let mut sub = raw_stream(&conn).await?;
                sub.send(reg_frame("RS", &ns, &tp)).await?;
                let a = answer(&mut sub).await;
                // (the server has no use for what a subscriber sends: it may already have told it to stop)
                let _ = sub.finish().await;
                tokio::time::sleep(Duration::from_millis(300)).await;
                let other = raw(addr, certs).await?;
                let mut publ = raw_stream(&other).await?;
                publ.send(reg_frame("RP", &ns, &tp)).await?;
                let a2 = answer(&mut publ).await;
                let mut got = vec![];
                for m in ["one", "two", "three"] {
                    publ.send(msg(m, None)).await?;
                    tokio::time::sleep(Duration::from_millis(150)).await;
                }
                while got.len() < 3 { match tokio::time::timeout(Duration::from_millis(1500), sub.next()).await { Ok(Some(Ok(Frame::Message(m)))) => got.push(String::from_utf8_lossy(&m.message).to_string()), _ => break } }
                Ok(format!("{a} {a2} got={} probe=ok", if got.is_empty() { "-".to_string() } else { got.join("+") }))
            } else {
                let client = crate::e2e::client(addr, certs, BackoffStrategy::constant().with_max_attempts(0)).await?;
                let topic = format!("/{ns}/{tp}");
                let c2 = client.clone(); let t2 = topic.clone();
                let rep = tokio::spawn(async move {
                    let mut replier = c2.replier(&t2).with_request_decoder(StringCodec).with_reply_encoder(StringCodec)
                        .with_handler(|req: String| async move { tokio::time::sleep(Duration::from_millis(250)).await; Ok::<_, anyhow::Error>(format!("r:{req}")) }).open().await?;
                    replier.listen().await
                });
                tokio::time::sleep(Duration::from_millis(120)).await;
                let hdr = |id: u32| Some([("req_id".to_string(), id.to_string())].into_iter().collect());
                let mut rq = raw_stream(&conn).await?;
                rq.send(reg_frame("RQ", &ns, &tp)).await?;
                let a = answer(&mut rq).await;
                rq.send(msg("first", hdr(0))).await?;
                rq.send(msg("second", hdr(1))).await?;
                let _ = rq.finish().await;
                let mut got = vec![];
                while got.len() < 2 { match tokio::time::timeout(Duration::from_millis(2500), rq.next()).await { Ok(Some(Ok(Frame::Message(m)))) => got.push(String::from_utf8_lossy(&m.message).to_string()), _ => break } }
                rep.abort();
                Ok(format!("{a} got={} probe=ok", if got.is_empty() { "-".to_string() } else { got.join("+") }))
            }
        }
        "takeover" => {
            // a library replier that was turned away keeps trying (constant back-off, 3 s); the bound replier goes away; a request
            // with a long time limit is made while nobody is bound and waits in the topic; when the waiting replier registers
            // again it is bound, is handed that request at once, and answers it and the next one
            let (ns, tp) = fresh();
            let topic = format!("/{ns}/{tp}");
            let conn = raw(addr, certs).await?;
            let mut r1 = raw_stream(&conn).await?;
            r1.send(reg_frame("RR", &ns, &tp)).await?;
            let a1 = answer(&mut r1).await;
            let second = crate::e2e::client(addr, certs, BackoffStrategy::constant().with_step(Duration::from_secs(3)).with_max_attempts(10)).await?;
            let t2 = topic.clone();
            let late = tokio::spawn(async move {
                let mut replier = second.replier(&t2).with_request_decoder(StringCodec).with_reply_encoder(StringCodec)
                    .with_handler(|req: String| async move { Ok::<_, anyhow::Error>(format!("second:{req}")) }).open().await?;
                replier.listen().await
            });
            tokio::time::sleep(Duration::from_millis(400)).await;
            drop(r1);
            conn.close(0u32.into(), b"gone");
            tokio::time::sleep(Duration::from_millis(1000)).await;
            let third = crate::e2e::client(addr, certs, BackoffStrategy::constant().with_max_attempts(0)).await?;
            let mut rq = third.requestor(&topic).with_request_encoder(StringCodec).with_reply_decoder(StringCodec).with_request_timeout(9000u64)?.open().await?;
            let mut res = vec![];
            for q in ["w0", "w1"] {
                res.push(match rq.request(q.to_string()).await { Ok(s) => s, Err(e) => format!("err:{}", format!("{e:?}").split(|c: char| !c.is_alphanumeric()).next().unwrap_or("?")) });
            }
            late.abort();
            Ok(format!("{a1} first={} second={} probe=ok", res[0], res[1]))
        }
        "leave" => {
            // a publisher that has handed everything over - `finish()` has completed: every byte is acknowledged by the server -
            // leaves with its whole connection while the topic is held up by a subscriber that is not reading yet: what the
            // server took from it is still forwarded, all of it, in order, once the subscriber reads
            let n: usize = t[2].parse()?;
            let kib: usize = t[3].parse()?;
            let (ns, tp) = fresh();
            let sconn = raw(addr, certs).await?;
            let mut sub = raw_stream(&sconn).await?;
            sub.send(reg_frame("RS", &ns, &tp)).await?;
            let a = answer(&mut sub).await;
            let pconn = raw(addr, certs).await?;
            let mut publ = raw_stream(&pconn).await?;
            publ.send(reg_frame("RP", &ns, &tp)).await?;
            let a2 = answer(&mut publ).await;
            let body = |i: usize| { let mut v = vec![b'a' + (i % 26) as u8; kib * 1024]; v[..4].copy_from_slice(&(i as u32).to_be_bytes()); v };
            let mut handed = 0;
            for i in 0..n {
                let f = Frame::Message(MessagePayload { headers: None, message: bytes::Bytes::from(body(i)) });
                match tokio::time::timeout(Duration::from_secs(20), publ.send(f)).await { Ok(Ok(())) => handed += 1, _ => break }
            }
            let fin = matches!(tokio::time::timeout(Duration::from_secs(20), publ.finish()).await, Ok(Ok(())));
            drop(publ);
            pconn.close(0u32.into(), b"done");
            drop(pconn);
            tokio::time::sleep(Duration::from_millis(2500)).await;
            let mut got = 0;
            while got < n {
                match tokio::time::timeout(Duration::from_secs(5), sub.next()).await {
                    Ok(Some(Ok(Frame::Message(m)))) if m.message.len() == kib * 1024 && m.message[..] == body(got)[..] => got += 1,
                    _ => break,
                }
            }
            // (only what the publisher was able to hand over and have acknowledged is owed)
            Ok(format!("{a} {a2} got={} probe=ok", if handed == n && fin { got.to_string() } else { format!("{got}/handed{handed}fin{fin}") }))
        }
        "rebind" => {
            // a replier that leaves in good order - it finishes and drops its stream, its connection stays - frees the slot: the
            // next replier to register, on the same connection, is bound (told nothing) and serves. `alone`: no requestor
            // is registered when the first one leaves and the second one arrives.
            let (ns, tp) = fresh();
            let conn = raw(addr, certs).await?;
            let msg = |t: &str, h: Option<std::collections::HashMap<String, String>>| Frame::Message(MessagePayload { headers: h, message: bytes::Bytes::from(t.to_string()) });
            let hdr = |id: u32| Some([("req_id".to_string(), id.to_string())].into_iter().collect());
            let rconn = raw(addr, certs).await?;
            let mut rq = None;
            let mut r1 = raw_stream(&conn).await?;
            r1.send(reg_frame("RR", &ns, &tp)).await?;
            let a1 = answer(&mut r1).await;
            let mut served1 = "-".to_string();
            if t[2] != "alone" {
                let mut q = raw_stream(&rconn).await?;
                q.send(reg_frame("RQ", &ns, &tp)).await?;
                let _ = answer(&mut q).await;
                q.send(msg("ping1", hdr(0))).await?;
                if let Ok(Some(Ok(Frame::Message(m)))) = tokio::time::timeout(Duration::from_secs(3), r1.next()).await {
                    r1.send(Frame::Message(MessagePayload { headers: m.headers.clone(), message: bytes::Bytes::from_static(b"pong1") })).await?;
                    if let Ok(Some(Ok(Frame::Message(m)))) = tokio::time::timeout(Duration::from_secs(3), q.next()).await { served1 = String::from_utf8_lossy(&m.message).to_string(); }
                }
                rq = Some(q);
            }
            let _ = r1.finish().await;
            drop(r1);
            tokio::time::sleep(Duration::from_millis(1200)).await;
            // (what counts is what the router has observed: on a starved machine the end of the first replier's stream may not
            // have been polled yet - a newcomer that is turned away tries again, as the library does)
            let mut r2 = raw_stream(&conn).await?;
            let mut a2 = String::new();
            let mut told = String::new();
            for attempt in 0..3 {
                if attempt > 0 { tokio::time::sleep(Duration::from_millis(1500)).await; r2 = raw_stream(&conn).await?; }
                r2.send(reg_frame("RR", &ns, &tp)).await?;
                a2 = answer(&mut r2).await;
                // bound: nothing further is said to it
                told = match tokio::time::timeout(Duration::from_millis(1500), r2.next()).await { Err(_) => "nothing".to_string(), Ok(None) | Ok(Some(Err(_))) => "closed".to_string(), Ok(Some(Ok(Frame::Error(e)))) => format!("Error{}", e.code), Ok(Some(Ok(_))) => "frame".to_string() };
                if told != "Error5" { break; }
            }
            let mut served2 = "-".to_string();
            if told == "nothing" {
                let mut q = match rq.take() { Some(q) => q, None => { let mut q = raw_stream(&rconn).await?; q.send(reg_frame("RQ", &ns, &tp)).await?; let _ = answer(&mut q).await; q } };
                q.send(msg("ping2", hdr(7))).await?;
                if let Ok(Some(Ok(Frame::Message(m)))) = tokio::time::timeout(Duration::from_secs(3), r2.next()).await {
                    r2.send(Frame::Message(MessagePayload { headers: m.headers.clone(), message: bytes::Bytes::from_static(b"pong2") })).await?;
                    if let Ok(Some(Ok(Frame::Message(m)))) = tokio::time::timeout(Duration::from_secs(3), q.next()).await { served2 = String::from_utf8_lossy(&m.message).to_string(); }
                }
            }
            Ok(format!("{a1} {a2} first={served1} told={told} second={served2} probe=ok"))
        }
        "racerr" => {
            // two repliers on connections of their own register at the same instant on a topic nobody has used yet: one is bound
            // and hears nothing more, the other is told that a replier is bound, and closed - <topics> times
            let topics: usize = t[2].parse()?;
            let (c1, c2) = (raw(addr, certs).await?, raw(addr, certs).await?);
            let mut verdict = "ok".to_string();
            for round in 0..topics {
                let (ns, tp) = fresh();
                let barrier = std::sync::Arc::new(tokio::sync::Barrier::new(2));
                let mut hs = vec![];
                for c in [&c1, &c2] {
                    let (c, ns, tp, b) = (c.clone(), ns.clone(), tp.clone(), barrier.clone());
                    hs.push(tokio::spawn(async move {
                        let mut s = raw_stream(&c).await?;
                        b.wait().await;
                        s.send(reg_frame("RR", &ns, &tp)).await?;
                        let a = answer(&mut s).await;
                        Ok::<_, anyhow::Error>((s, a))
                    }));
                }
                let mut regs = vec![];
                for h in hs { if let Ok(Ok(Ok(x))) = tokio::time::timeout(Duration::from_secs(6), h).await { regs.push(x); } }
                let mut outs = vec![];
                if regs.len() == 2 {
                    let (mut s2, a2) = regs.pop().unwrap();
                    let (mut s1, a1) = regs.pop().unwrap();
                    let show = |r: Option<Result<Frame, _>>| -> String { match r { None | Some(Err::<Frame, selium::std::errors::SeliumError>(_)) => "closed".to_string(), Some(Ok(Frame::Error(e))) => format!("Error{}", e.code), Some(Ok(_)) => "frame".to_string() } };
                    // whoever is told something first (up to 8 s); the other one then stays undisturbed for a moment
                    let first = tokio::select! { r = s1.next() => Some((1, show(r))), r = s2.next() => Some((2, show(r))), _ = tokio::time::sleep(Duration::from_secs(8)) => None };
                    match first {
                        None => { outs.push(format!("{a1}+nothing")); outs.push(format!("{a2}+nothing")); }
                        Some((1, t1)) => { outs.push(format!("{a1}+{t1}")); let t2 = match tokio::time::timeout(Duration::from_millis(400), s2.next()).await { Err(_) => "nothing".to_string(), Ok(r) => show(r) }; outs.push(format!("{a2}+{t2}")); }
                        Some((_, t2)) => { outs.push(format!("{a2}+{t2}")); let t1 = match tokio::time::timeout(Duration::from_millis(400), s1.next()).await { Err(_) => "nothing".to_string(), Ok(r) => show(r) }; outs.push(format!("{a1}+{t1}")); }
                    }
                    drop(s1); drop(s2);
                } else { outs.push("hang".to_string()); }
                outs.sort();
                if outs != vec!["Ok+Error5".to_string(), "Ok+nothing".to_string()] { verdict = format!("FAILED:round{round}:{}", outs.join("/")); break; }
            }
            Ok(format!("{verdict} probe=ok"))
        }
        "ghost" => {
            // a subscriber whose machine vanishes without a word (its datagrams stop; it never closed anything, and it would
            // itself have waited for ever). The server was started with `--max-idle-timeout <ms>`: after that long it gives the
            // silent peer up, the topic evicts it, and the other subscriber - held up until then - gets everything.
            let ms: u32 = t[2].parse()?;
            let saddr = start_server_idle(certs, ms)?;
            let (relay, cut) = udp_relay(saddr).await?;
            let (ns, tp) = fresh();
            let ghost = raw_connect_patient(relay, &certs.client("ca.der"), (&certs.client("localhost.der"), &certs.client("localhost.key.der"))).await?;
            let mut gs = raw_stream(&ghost).await?;
            gs.send(reg_frame("RS", &ns, &tp)).await?;
            let a = answer(&mut gs).await;
            // (the healthy peers ping four times per idle limit: what the server gives up is the peer that went silent)
            let healthy = crate::e2e::client_pinging(saddr, certs, BackoffStrategy::constant().with_max_attempts(0), (ms / 4) as u64).await?;
            let mut sub = healthy.subscriber(&format!("/{ns}/{tp}")).with_decoder(StringCodec).open().await?;
            tokio::time::sleep(Duration::from_millis(80)).await;
            cut.abort();
            let other = crate::e2e::client_pinging(saddr, certs, BackoffStrategy::constant().with_max_attempts(0), (ms / 4) as u64).await?;
            let mut publ = other.publisher(&format!("/{ns}/{tp}")).with_encoder(StringCodec).open().await?;
            let total = 48usize;
            let sender = tokio::spawn(async move { let chunk = "y".repeat(64 * 1024); for _ in 0..total { if publ.send(chunk.clone()).await.is_err() { break; } } let _ = publ.finish().await; });
            let t0 = std::time::Instant::now();
            let mut got = 0usize;
            let limit = Duration::from_millis(ms as u64) + Duration::from_secs(12);
            while got < total {
                match tokio::time::timeout(limit.saturating_sub(t0.elapsed()), sub.next()).await { Ok(Some(Ok(_))) => got += 1, _ => break }
            }
            sender.abort();
            std::mem::forget(gs); std::mem::forget(ghost);
            Ok(format!("{a} probe={}", if got == total { "ok".to_string() } else { format!("FAILED:{got}_of_{total}_messages_{}s_after_a_subscriber_vanished", t0.elapsed().as_secs()) }))
        }
        "stallslow" => {
            // a stall that lasts: a subscriber that reads nothing and a publisher that floods it, for <secs> seconds - longer than
            // any periodic housekeeping a server might do - and only then a client that has never talked to the server before
            // connects and uses another topic
            let secs: u64 = t[2].parse()?;
            let (ns, tp) = fresh();
            // (the peer that reads nothing stays connected - it pings - so that the stall lasts as long as the scenario says)
            let conn = raw_connect_keepalive(addr, &certs.client("ca.der"), (&certs.client("localhost.der"), &certs.client("localhost.key.der"))).await?;
            let mut stalled = raw_stream(&conn).await?;
            stalled.send(reg_frame("RS", &ns, &tp)).await?;
            let a = answer(&mut stalled).await;
            let flood = crate::e2e::client(addr, certs, BackoffStrategy::constant().with_max_attempts(0)).await?;
            let mut publ = flood.publisher(&format!("/{ns}/{tp}")).with_encoder(StringCodec).open().await?;
            let chunk = "x".repeat(64 * 1024);
            let t0 = std::time::Instant::now();
            let mut stuck = 0;
            for _ in 0..96 {
                if tokio::time::timeout(Duration::from_millis(300), publ.send(chunk.clone())).await.is_err() { stuck += 1; } else { stuck = 0; }
                if stuck >= 4 { break; }
            }
            let mut during = "ok".to_string();
            while t0.elapsed() < Duration::from_secs(secs) {
                tokio::time::sleep(Duration::from_secs(5)).await;
                let (nsx, tpx) = fresh();
                let p = probe_pubsub(addr, certs, &nsx, &tpx).await;
                if p != "ok" { during = p; break; }
            }
            let (ns2, tp2) = fresh();
            let late = probe_pubsub(addr, certs, &ns2, &tp2).await;
            drop(stalled);
            Ok(format!("{a} during={during} probe={late}"))
        }
        "lazy" => {
            // one `Client` (one connection) holds <n> subscribers of topic A that it does not read, and a subscriber of topic B that
            // it does read. A is flooded until its publisher is stuck. What is published on B still arrives.
            let n: usize = t[2].parse()?;
            let (ns, tp) = fresh();
            let (nsb, tpb) = fresh();
            let shared = crate::e2e::client(addr, certs, BackoffStrategy::constant().with_max_attempts(0)).await?;
            let mut lazy = vec![];
            for _ in 0..n { lazy.push(shared.subscriber(&format!("/{ns}/{tp}")).with_decoder(StringCodec).open().await?); }
            let mut sub_b = shared.subscriber(&format!("/{nsb}/{tpb}")).with_decoder(StringCodec).open().await?;
            tokio::time::sleep(Duration::from_millis(60)).await;
            let other = crate::e2e::client(addr, certs, BackoffStrategy::constant().with_max_attempts(0)).await?;
            let mut pub_b = other.publisher(&format!("/{nsb}/{tpb}")).with_encoder(StringCodec).open().await?;
            pub_b.send("first".to_string()).await?;
            let before = match tokio::time::timeout(Duration::from_secs(3), sub_b.next()).await { Ok(Some(Ok(m))) if m == "first" => "ok".to_string(), other => format!("FAILED:{}", format!("{other:?}").chars().take(40).collect::<String>().replace(' ', "_")) };
            let mut pub_a = other.publisher(&format!("/{ns}/{tp}")).with_encoder(StringCodec).open().await?;
            let chunk = "x".repeat(64 * 1024);
            let mut stuck = 0;
            let t0 = std::time::Instant::now();
            for _ in 0..400 {
                if tokio::time::timeout(Duration::from_millis(300), pub_a.send(chunk.clone())).await.is_err() { stuck += 1; } else { stuck = 0; }
                if stuck >= 4 || t0.elapsed() > Duration::from_secs(25) { break; }
            }
            pub_b.send("second".to_string()).await?;
            let after = match tokio::time::timeout(Duration::from_secs(6), sub_b.next()).await { Ok(Some(Ok(m))) if m == "second" => "ok".to_string(), Err(_) => "FAILED:nothing_arrived".to_string(), other => format!("FAILED:{}", format!("{other:?}").chars().take(40).collect::<String>().replace(' ', "_")) };
            drop(lazy);
            Ok(format!("before={before} probe={after}"))
        }
        "stall" | "stall1" => {
            let n: usize = t[2].parse()?;
            let (ns, tp) = fresh();
            // (it stays connected - it pings - so the stall lasts to the end of the scenario)
            let conn = raw_connect_keepalive(addr, &certs.client("ca.der"), (&certs.client("localhost.der"), &certs.client("localhost.key.der"))).await?;
            // a subscriber that registers and then never reads
            let mut stalled = raw_stream(&conn).await?;
            stalled.send(reg_frame("RS", &ns, &tp)).await?;
            let a = answer(&mut stalled).await;
            tokio::time::sleep(Duration::from_millis(50)).await;
            // fill the QUIC flow-control window of that subscriber's stream
            let client = client(addr, certs, BackoffStrategy::constant().with_max_attempts(0)).await?;
            let mut publ = client.publisher(&format!("/{ns}/{tp}")).with_encoder(StringCodec).open().await?;
            let chunk = "x".repeat(64 * 1024);
            // (until nothing moves any more: the subscriber's stream window, the router's buffers and the publisher's own
            // stream window are all full)
            let mut stuck = 0;
            for _ in 0..96 {
                if tokio::time::timeout(Duration::from_millis(300), publ.send(chunk.clone())).await.is_err() { stuck += 1; } else { stuck = 0; }
                if stuck >= 4 { break; }
            }
            // a stream opened on the stalled topic itself is still answered (the topic is stalled, not the server)
            let open_on_stalled = {
                let c = raw(addr, certs).await?;
                let mut s = raw_stream(&c).await?;
                s.send(reg_frame("RS", &ns, &tp)).await?;
                let a = match tokio::time::timeout(Duration::from_secs(4), answer(&mut s)).await { Ok(a) => a, Err(_) => "timeout".to_string() };
                std::mem::forget(s); std::mem::forget(c);
                a
            };
            // queue more registrations on the stalled topic than its channel holds
            let mut conns = vec![];
            let mut queued = vec![];
            for i in 0..n {
                // QUIC limits the concurrent streams of one connection: spread them over several
                if i % 50 == 0 { conns.push(raw(addr, certs).await?); }
                let conn2 = conns.last().unwrap();
                if let Ok(Ok(mut s)) = tokio::time::timeout(Duration::from_millis(500), raw_stream(conn2)).await {
                    let _ = tokio::time::timeout(Duration::from_millis(200), s.send(reg_frame("RS", &ns, &tp))).await;
                    queued.push(s);
                }
            }
            tokio::time::sleep(Duration::from_millis(300)).await;
            // a different topic must be unaffected
            let (ns2, tp2) = fresh();
            let probe = probe_pubsub(addr, certs, &ns2, &tp2).await;
            // … also for a peer that itself queued up for the stalled topic (same connection as the last batch of
            // over-bound registrations), and for the client whose publisher is blocked on the stalled topic
            let (ns3, tp3) = fresh();
            let same = match conns.last() { Some(c) => probe_raw_on(c, &ns3, &tp3).await, None => "ok".into() };
            let (ns4, tp4) = fresh();
            let flooder = probe_pubsub_on(&client, &ns4, &tp4).await;
            // … and for many other topic names at once (whatever a name hashes to), from one more connection
            let wide = {
                let conn3 = raw(addr, certs).await?;
                let mut hs = vec![];
                for _ in 0..40 {
                    let (nsx, tpx) = fresh();
                    let c = conn3.clone();
                    hs.push(tokio::spawn(async move { probe_raw_on(&c, &nsx, &tpx).await }));
                }
                let mut bad = 0;
                for h in hs { if h.await.map(|r| r != "ok").unwrap_or(true) { bad += 1; } }
                if bad == 0 { "ok".to_string() } else { format!("FAILED:{bad}_of_40_topics") }
            };
            // a library client that now asks for a publisher on the stalled topic (whose channel is over-full), and for
            // streams on another topic through the same `Client`: the other topic works, whatever becomes of the first request
            let same_client = {
                let c2 = crate::e2e::client(addr, certs, BackoffStrategy::constant().with_max_attempts(0)).await?;
                let ta = format!("/{ns}/{tp}");
                let (ns6, tp6) = fresh();
                let on_a = async { let _ = tokio::time::timeout(Duration::from_secs(9), c2.publisher(&ta).with_encoder(StringCodec).open()).await; };
                let on_b = async { tokio::time::sleep(Duration::from_millis(250)).await; probe_pubsub_on(&c2, &ns6, &tp6).await };
                let (_, b) = tokio::join!(on_a, on_b);
                b
            };
            // the peer that queued up for the stalled topic goes on using another topic on the same connection for longer
            // than any internal hand-over deadline could be: its other streams are not taken down with the stuck one
            tokio::time::sleep(Duration::from_millis(5600)).await;
            let (ns5, tp5) = fresh();
            let later = match conns.last() { Some(c) => probe_raw_on(c, &ns5, &tp5).await, None => "ok".into() };
            drop(queued); drop(stalled); drop(conns);
            Ok(format!("{a} {open_on_stalled} probe={probe} queued-peer={same} blocked-publisher={flooder} other-names={wide} queued-peer-later={later} same-client={same_client}"))
        }
        other => anyhow::bail!("bad registry case {other}"),
    }
}

pub fn run(cfg: &Cfg) { run_named(cfg, "registry") }

/// `regbig`: the cases of `registry` in which whole frames at and around the size limit, and frames pipelined with the
/// registration, travel through the real codec and the real routers (the data path, without the stall scenarios)
pub fn run_named(cfg: &Cfg, name: &str) {
    let mut out = Out::new(&cfg.out, name);
    let rt = runtime();
    let certs = Certs::generate(&scratch_dir("reg")).expect("certificates");
    let mut addr = rt.block_on(async { start_server(&certs) }).expect("server");
    let mut cases: Vec<String> = vec![];
    if let Some(lines) = cfg.replay_lines() {
        cases = lines;
    } else {
        let ok_ns = hx(b"verif"); let ok_tp = hx(b"first");
        // every first frame kind
        for f in [format!("RP {ok_ns} {ok_tp} 0 -"), format!("RS {ok_ns} {ok_tp} 0 -"), format!("RR {} {} ", hx(b"verif"), hx(b"firstrr")), format!("RQ {} {}", hx(b"verif"), hx(b"firstrr")),
                  format!("M none {}", hx(b"hello")), format!("B {}", hx(b"abc")), "E 3 -".to_string(), "OK".to_string()] {
            cases.push(format!("reg first {}", f.trim()));
        }
        // names that only a peer bypassing the client library can send
        for (ns, tp) in [("ab", "topic"), ("selium", "topic"), ("seliumx", "topic"), ("name space", "topic"), ("verif", "to/pic"), ("", ""), ("verif", "t"), (&"n".repeat(65)[..], "topic"), ("ñandú", "topic"), ("verif", "日本語")] {
            for k in ["RP", "RS", "RR", "RQ"] {
                let f = crate::wire::frame_text(&reg_frame(k, ns, tp), false);
                cases.push(format!("reg first {f}"));
            }
        }
        // invalid names of every size up to what a registration frame can carry: the refusal is sent whatever it has to say
        let max = 1usize << 20;
        for l in [65usize, 4096, 70_000, max - 64, max - 50, max - 42, max - 36, max - 30, max - 26] {
            cases.push(format!("reg first RR {ok_ns} ~{l}*61"));
            // (a subscriber's registration carries 16 bytes more than a replier's: keep it within what the raw peer can encode)
            if l % 2 == 0 && l <= max - 42 { cases.push(format!("reg first RS {ok_ns} ~{l}*61 0 -")); cases.push(format!("reg first RQ {ok_ns} ~{l}*61")); }
        }
        for a in ["RP", "RS", "RR", "RQ"] { for b in ["RP", "RS", "RR", "RQ"] { cases.push(format!("reg mismatch {a} {b}")); } }
        for frames in ["OK", "E~3~-", "B~616263", "RP~7665726966~6162636465~0~-", "M~none~-;OK;M~none~68", "RR~7665726966~6162636465"] {
            cases.push(format!("reg abuse RP {frames}"));
            cases.push(format!("reg abuse RQ {frames}"));
        }
        cases.push("reg abuse RQ M~636964:39~68;M~none~68".into());
        let max = (1usize << 20) /* the property's 1 MiB */;
        for l in [max - 20, max - 9, max - 8, max - 1, max, max + 1] { cases.push(format!("reg big RP {l}")); }
        for l in [max - 100, max - 28, max - 27, max - 9, max, max + 1] { cases.push(format!("reg big RQ {l}")); }
        for first in ["RP", "RR"] { for second in ["pub", "sub", "req"] { cases.push(format!("reg lib {first} {second}")); } }
        for role in ["RR", "RQ", "RP", "RS"] { cases.push(format!("reg abandon {role} 3")); }
        cases.push("reg mute".into());
        cases.push("reg race 8 30".into());
        cases.push("reg racerr 30".into());
        cases.push("reg halfclosed RS".into());
        cases.push("reg halfclosed RQ".into());
        cases.push("reg leave 60 32".into());
        cases.push("reg leave 3 1".into());
        cases.push("reg takeover".into());
        cases.push("reg rebind served".into());
        cases.push("reg rebind alone".into());
        cases.push("reg pipeline RP".into());
        cases.push("reg pipeline RQ".into());
        cases.push("reg lazy 9".into());
        cases.push("reg ghost 4000".into());
        cases.push("reg stall 130".into());
        // (thorough tier, and whenever a proof obligation of the property no longer checks)
        if cfg.tier == Tier::Thorough || searching() { cases.push("reg stallslow 36".into()); }
        // the same against a server that has a single worker thread
        cases.push("reg stall1 130".into());
        cases.push("reg stall 420".into());
        // isolation between names that are close to each other: the same text with the separator elsewhere, swapped
        // parts, case, '-' / '_', one extra character, and the same name twice (control: shared)
        let k = TOPIC.fetch_add(1, Ordering::SeqCst);
        let pairs: Vec<((String, String), (String, String))> = vec![
            (("abc".into(), format!("defghi{k}")), ("abcdef".into(), format!("ghi{k}"))),
            (("news_eu".into(), format!("rope{k}")), ("news".into(), format!("_europe{k}"))),
            (("iso".into(), format!("abc{k}")), (format!("abc{k}"), "iso".into())),
            (("iso".into(), format!("Case{k}")), ("iso".into(), format!("case{k}"))),
            (("iso".into(), format!("a-b{k}")), ("iso".into(), format!("a_b{k}"))),
            (("iso".into(), format!("top{k}")), ("iso".into(), format!("top{k}x"))),
            (("isoa".into(), format!("same{k}")), ("isob".into(), format!("same{k}"))),
            (("iso".into(), format!("twice{k}")), ("iso".into(), format!("twice{k}"))),
            (("i\u{0441}o".into(), format!("cyr{k}")), ("ico".into(), format!("cyr{k}"))),
        ];
        for (a, b) in pairs {
            cases.push(format!("reg iso {} {} {} {}", hx(a.0.as_bytes()), hx(a.1.as_bytes()), hx(b.0.as_bytes()), hx(b.1.as_bytes())));
        }
    }
    let mut dead = false;
    // the messaging pattern each (valid) topic name was first registered with, in this run
    let mut pattern: std::collections::HashMap<String, bool> = std::collections::HashMap::new();
    if name == "regbig" { cases.retain(|c| c.starts_with("reg big") || c.starts_with("reg pipeline") || c.starts_with("reg abuse") || c.starts_with("reg ghost")); }
    for c in &cases {
        let t: Vec<&str> = c.split(' ').collect();
        if dead {
            // a previous case wedged the server: start a new one so that later cases are still meaningful
            addr = rt.block_on(async { start_server(&certs) }).expect("server");
            dead = false;
        }
        // `stall1`: the scenario runs against a server of its own that has one worker thread
        let case_addr = if t[1] == "stall1" { match start_server_single_worker(&certs) { Ok(a) => a, Err(_) => addr } } else { addr };
        let res = rt.block_on(async { tokio::time::timeout(Duration::from_secs(150), run_case(case_addr, &certs, &t)).await });
        let (imp, mon) = match res {
            Err(_) => { dead = true; ("TIMEOUT".to_string(), Err("C11/C17: the exchange did not complete within 150 s".to_string())) }
            Ok(Err(e)) => (format!("ERROR {}", format!("{e:?}").replace('\n', " ").chars().take(160).collect::<String>()),
                           Err(if t[1].starts_with("stall") || t[1] == "mute" { format!("C11/C17: with one topic stalled the server can no longer be talked to at all: {e}") } else { format!("{e}") })),
            Ok(Ok(line)) => {
                let mut m = Ok(());
                let probe_ok = line.split(' ').filter(|x| x.contains('=') && ["probe", "queued-peer", "blocked-publisher", "other-names", "queued-peer-later", "same-client", "during"].contains(&x.split('=').next().unwrap())).all(|x| x.ends_with("=ok"));
                // whom a dead probe speaks for: a topic left unusable (C11); for the stall scenario other topics (C17); a replier
                // slot that a dead registration keeps occupied (C10)
                let tag = if t[1] == "stall" || t[1] == "stall1" || t[1] == "stallslow" || t[1] == "mute" || t[1] == "lazy" { "C11/C17" } else if t[1] == "ghost" { "C08/C11" } else if t[1] == "abandon" && t[2] == "RR" { "C10/C11" } else { "C11" };
                if !probe_ok { dead = line.contains("hang"); m = Err(format!("{tag}: after `{}` well-behaved clients are no longer served: {line}", t[1..].join(" ").chars().take(80).collect::<String>())); }
                if m.is_ok() {
                    let answers: Vec<&str> = line.split(' ').filter(|x| !x.starts_with("probe=") && !x.starts_with("queued-peer=") && !x.starts_with("blocked-publisher=") && !x.starts_with("other-names=") && !x.starts_with("queued-peer-later=") && !x.starts_with("same-client=") && !x.starts_with("before=") && !x.starts_with("during=") && !x.starts_with("first=") && !x.starts_with("second=") && !x.starts_with("told=") && !x.starts_with("a=") && !x.starts_with("b=") && !x.starts_with("got=") && !x.starts_with("lib=")).collect();
                    for a in &answers {
                        if *a == "timeout" { m = Err(format!("C11: a stream was neither served nor refused nor closed: {line}")); }
                    }
                    if t[1] == "big" {
                        let l: usize = t[3].parse().unwrap();
                        let max = (1usize << 20) /* the property's 1 MiB */;
                        if l <= max && !line.contains(" sent ") { m = Err(format!("C05/C11: a frame of payload length {l} <= limit was refused by the encoder: {line}")); }
                        if t[2] == "RP" && l <= max && !line.contains(&format!("got={},5 ", l - 9)) { m = Err(format!("C01/C03/C11: a publisher's frame within the limit (payload length {l}) did not reach the subscriber, or took the following message with it: {line}")); }
                        if t[2] == "RQ" && !line.contains("after=len5") { m = Err(format!("C02/C08/C11: after a request of payload length {l} (refused or not by the replier's sink once tagged) the next request was not answered: {line}")); }
                    }
                    if t[1] == "racerr" && !line.starts_with("ok ") { m = Err(format!("C10/C11: two repliers that registered at the same instant on a fresh topic: not exactly one bound and the other told so and closed: {line}")); }
                    if t[1] == "halfclosed" {
                        let want = if t[2] == "RS" { "got=one+two+three" } else { "got=r:first+r:second" };
                        if !line.contains(want) { m = Err(format!("{}: a peer that finished its sending side and kept reading no longer got what it is owed (accepted, then abandoned): {line}", if t[2] == "RS" { "C01/C11" } else { "C02/C11" })); }
                    }
                    if t[1] == "leave" && !line.contains("/handed") && !line.contains(&format!("got={} ", t[2])) {
                        m = Err(format!("C01/C03: a publisher finished (every byte acknowledged) and left with its connection while a subscriber was not reading yet: the subscriber then read only a prefix of the {} messages the server had taken: {line}", t[2]));
                    }
                    if t[1] == "takeover" && !line.contains("first=second:w0 second=second:w1") {
                        m = Err(format!("C10/C12: a replier that had been turned away registered again after the bound one left; the request that was waiting in the topic, or the one after it, was not answered by it: {line}"));
                    }
                    if t[1] == "rebind" {
                        let want = if t[2] == "alone" { "first=- told=nothing second=pong2" } else { "first=pong1 told=nothing second=pong2" };
                        if !line.contains(want) { m = Err(format!("C10/C11: after the bound replier left in good order (its connection still open) the next replier to register was not bound and served: {line}")); }
                    }
                    if t[1] == "race" && !line.starts_with("ok ") { m = Err(format!("C01/C11: subscribers that registered at the same instant on a fresh topic do not all receive what is published on it (accepted, then left on a topic of their own): {line}")); }
                    if t[1] == "pipeline" {
                        let want = if t[2] == "RP" { "got=first+second+third+fourth" } else { "got=r:first+r:second+r:third" };
                        if !line.contains(want) { m = Err(format!("{}: frames sent in the same write as the registration (before its acknowledgement) were lost or reordered: {line}", if t[2] == "RP" { "C01/C11" } else { "C02/C11" })); }
                    }
                    if t[1] == "lib" {
                        let same = (t[2] == "RP") == (t[3] == "pub" || t[3] == "sub");
                        let want = if same { "lib=ok" } else { "lib=err:7" };
                        if !line.contains(want) { m = Err(format!("C11: a library client opening a {} stream on a {} topic: {line} (an accepted role must open, a refused one must be reported as an error with the server's code)", t[3], if t[2] == "RP" { "pub/sub" } else { "request/reply" })); }
                    }
                    if t[1] == "iso" {
                        let same = t[2] == t[4] && t[3] == t[5];
                        let both = "from-a+B:from-a+from-b+B:from-b";
                        let (wa, wb) = if same { (both, both) } else { ("from-a+B:from-a", "from-b+B:from-b") };
                        if !line.contains(&format!(" a={wa} b={wb} ")) { m = Err(format!("C01/C07: two names {} traffic: {line}", if same { "that are equal do not share" } else { "that differ share / lose" })); }
                    }
                    if t[1] == "mismatch" {
                        let same_pattern = (t[2] == "RP" || t[2] == "RS") == (t[3] == "RP" || t[3] == "RS");
                        if !same_pattern && answers.get(1) == Some(&"Ok") { m = Err(format!("C11: a {} registration on a topic of the other messaging pattern was answered Ok (accepted, then abandoned): {line}", t[3])); }
                        if same_pattern && answers.get(1) != Some(&"Ok") { m = Err(format!("C11: a matching second registration was not accepted: {line}")); }
                    }
                    if t[1] == "first" {
                        let toks: Vec<String> = t[2..].iter().map(|s| s.replace('_', " ")).collect();
                        let toks: Vec<&str> = toks.iter().map(|s| s.as_str()).collect();
                        let f = parse_frame(&toks);
                        match f.get_topic() {
                            Some(tn) => {
                                let pubsub = matches!(f, Frame::RegisterPublisher(_) | Frame::RegisterSubscriber(_));
                                let first = *pattern.entry(tn.to_string()).or_insert(pubsub);
                                // the grammar as the property states it (independent of the repository's own `is_valid`,
                                // which is only consulted for non-ASCII characters whose Unicode class decides)
                                let valid = crate::topic::oracle(&format!("/{}/{}", tn.namespace(), tn.topic())).unwrap_or_else(|| tn.is_valid());
                                let want = if !valid { "Error4" } else if first == pubsub { "Ok" } else { "Error7" };
                                if answers[0] != want { m = Err(format!("C07/C11: registration with name valid={valid} answered {}", answers[0])); }
                                if answers[0].starts_with("Error") && answers.get(1) != Some(&"then=closed") { m = Err(format!("C07/C11: a refused registration was not final (the stream stayed open or was served afterwards): {line}")); }
                            }
                            None => if answers[0] == "Ok" { m = Err("C11: a non-registration first frame was answered Ok".into()); },
                        }
                    }
                }
                (line, m)
            }
        };
        out.stat(&format!("kind_{}", t[1]));
        out.case(c, &imp, mon);
    }
    let _ = std::fs::remove_dir_all(&certs.dir);
    out.finish();
}
