//! C03: end-to-end pub/sub fidelity through a real server over loopback QUIC, for codec x compression x batching.
//!   pp <codec> <algo|-> <batch: -|size:interval_ms> <n_items> <payload: s|m|l> <fin: y|n|f|r>   (f, r: items handed over with feed())
//! Implementation line: the indices of the items the subscriber yielded, in order (`-` if none), then
//! ` errs=<k>` for error items. The model predicts `0,1,…,n-1 errs=0`.
use crate::codec::{compressor, decompressor, DynComp, DynDecomp};
use crate::e2e::*;
use crate::util::*;
use futures::{SinkExt, StreamExt};
use selium::batching::BatchConfig;
use selium::keep_alive::BackoffStrategy;
use selium::prelude::*;
use selium::std::codecs::{BincodeCodec, BytesCodec, StringCodec};
use std::net::SocketAddr;
use std::sync::atomic::{AtomicUsize, Ordering};
use std::time::Duration;

static TOPIC: AtomicUsize = AtomicUsize::new(0);

fn payload(i: usize, class: &str, seed: u64) -> String {
    // `X<len>`: item 0 is exactly <len> bytes long (sizes at the frame limit), the others are small
    if let Some(len) = class.strip_prefix('X') {
        let len: usize = len.parse().unwrap();
        if i != 0 { return format!("{i}|"); }
        let mut r = Rng::new(seed, "itemX");
        let mut s = String::from("0|");
        while s.len() < len { s.push((b'a' + r.below(26) as u8) as char); }
        return s;
    }
    // `W<len>`: the SECOND item is <len> bytes long, the others are small (a large message between small ones)
    if let Some(len) = class.strip_prefix('W') {
        let len: usize = len.parse().unwrap();
        if i != 1 { return format!("{i}|"); }
        let mut r = Rng::new(seed, "itemW");
        let mut s = String::from("1|");
        while s.len() < len { s.push((b'a' + r.below(26) as u8) as char); }
        return s;
    }
    // `Z<len>`: every item is <len> bytes of very repetitive text (a batch of them is far larger than the frame limit
    // before compression and tiny after it)
    if let Some(len) = class.strip_prefix('Z') {
        let len: usize = len.parse().unwrap();
        let mut s = format!("{i}|");
        while s.len() < len { s.push_str("the quick brown fox jumps over the lazy dog. "); }
        s.truncate(len);
        return s;
    }
    // `E`: empty and one-byte items (a batch of them carries fewer payload bytes than it has members); identified by position
    if class == "E" { return if i % 3 == 1 { "a".to_string() } else { String::new() }; }
    let body = match class { "s" => 0usize, "m" => 300, _ => 20_000 };
    let mut r = Rng::new(seed, &format!("item{i}"));
    let filler: String = (0..body).map(|_| (b'a' + r.below(26) as u8) as char).collect();
    format!("{i}|{filler}")
}

fn index_of(item: &str) -> Option<usize> { item.split('|').next()?.parse().ok() }

async fn run_case(addr: SocketAddr, certs: &Certs, t: &[&str], seed: u64) -> anyhow::Result<String> {
    let (codec, algo, batch, n, class, fin) = (t[1], t[2], t[3], t[4].parse::<usize>()?, t[5], t[6] != "n");
    let (feed, bare_ready) = (t[6] == "f" || t[6] == "r", t[6] == "r");
    let topic = format!("/verif/topic{}", TOPIC.fetch_add(1, Ordering::SeqCst));
    let client = client(addr, certs, BackoffStrategy::constant().with_max_attempts(0)).await?;
    let items: Vec<String> = (0..n).map(|i| payload(i, class, seed)).collect();
    let batch_cfg = if batch == "-" { None } else { let (s, ms) = batch.split_once(':').unwrap(); Some(BatchConfig::new(s.parse()?, if ms == "max" { Duration::MAX } else { Duration::from_millis(ms.parse()?) })) };

    let mut refused: Vec<usize> = vec![];
    let mut finish_err = false;
    // fin mode `l`: the publisher is on a connection of its own and leaves (client dropped) as soon as finish() has returned,
    // while the subscriber has not started reading: what finish() acknowledged still arrives
    let leave = t[6] == "l";
    let mut pclient: Option<selium::Client> = if leave { Some(crate::e2e::client(addr, certs, BackoffStrategy::constant().with_max_attempts(0)).await?) } else { None };
    macro_rules! drive {
        ($enc:expr, $dec:expr, $to:expr, $from:expr) => {{
            let mut sb = client.subscriber(&topic).with_decoder($dec);
            if algo != "-" { sb = sb.with_decompression(DynDecomp(decompressor(algo))); }
            let mut sub = sb.open().await?;
            tokio::time::sleep(Duration::from_millis(40)).await;
            let mut pb = pclient.as_ref().unwrap_or(&client).publisher(&topic).with_encoder($enc);
            if algo != "-" { pb = pb.with_compression(DynComp(compressor(algo))); }
            if let Some(b) = batch_cfg.clone() { pb = pb.with_batching(b); }
            let mut publ = Some(pb.open().await?);
            // a `send` that returns an error does not end the case: the item was not accepted, the caller carries on
            // fin modes: `y` every item with send() (accepted and flushed), then finish(); `n` the same without finish();
            // `f` every item with feed() (accepted, nothing flushed), then finish(); `r` like `f` with one bare poll_ready
            // before finish() (with batching that may frame a batch that has just filled up, leaving none partial)
            for (i, it) in items.iter().enumerate() {
                let r = if feed { publ.as_mut().unwrap().feed($to(it)).await } else { publ.as_mut().unwrap().send($to(it)).await };
                if r.is_err() { refused.push(i); }
            }
            if bare_ready { let _ = futures::future::poll_fn(|cx| publ.as_mut().unwrap().poll_ready_unpin(cx)).await; }
            if fin { if publ.take().unwrap().finish().await.is_err() { finish_err = true; } if leave { drop(pclient.take()); tokio::time::sleep(Duration::from_millis(150)).await; } } else { publ.as_mut().unwrap().flush().await?; tokio::time::sleep(Duration::from_millis(30)).await; }
            let mut got: Vec<String> = vec![];
            let mut errs = 0usize;
            loop {
                match tokio::time::timeout(Duration::from_millis(if got.len() >= n { 60 } else if class.starts_with('X') || class.starts_with('Z') || class.starts_with('W') { 2500 } else { 350 }), sub.next()).await {
                    Err(_) => break,
                    Ok(None) => break,
                    Ok(Some(Ok(v))) => got.push($from(v)),
                    Ok(Some(Err(_))) => { errs += 1; if errs > 5 { break; } }
                }
                if got.len() > n + 5 { break; }
            }
            drop(publ);
            (got, errs)
        }};
    }
    let (got, errs) = match codec {
        "string" => drive!(StringCodec, StringCodec, |s: &String| s.clone(), |v: String| v),
        "bytes" => drive!(BytesCodec, BytesCodec, |s: &String| s.clone().into_bytes(), |v: Vec<u8>| String::from_utf8_lossy(&v).to_string()),
        _ => drive!(BincodeCodec::<(u32, String)>::default(), BincodeCodec::<(u32, String)>::default(), |s: &String| (7u32, s.clone()), |v: (u32, String)| v.1),
    };
    let idx: Vec<String> = if class == "E" { got.iter().enumerate().map(|(k, g)| if items.get(k) == Some(g) { k.to_string() } else { "?".to_string() }).collect() }
        else { got.iter().map(|g| match index_of(g) { Some(i) if items.get(i) == Some(g) => i.to_string(), _ => "?".to_string() }).collect() };
    Ok(format!("{} errs={errs}{}{}", if idx.is_empty() { "-".to_string() } else { idx.join(",") },
        if refused.is_empty() { String::new() } else { format!(" refused={}", refused.iter().map(|i| i.to_string()).collect::<Vec<_>>().join(",")) },
        if finish_err { " finish=err" } else { "" }))
}

/// `ppdup <batch> <k> <m> <j>`: a publisher takes k items, is duplicated, the duplicate takes m items and finishes, the
/// original takes j more and finishes. What the subscriber yields, per publisher, in order: `a=0,1,.. b=0,1,.. errs=<e>`
async fn run_dup(addr: SocketAddr, certs: &Certs, t: &[&str]) -> anyhow::Result<String> {
    let (batch, k, m, j) = (t[1], t[2].parse::<usize>()?, t[3].parse::<usize>()?, t[4].parse::<usize>()?);
    let topic = format!("/verif/dup{}", TOPIC.fetch_add(1, Ordering::SeqCst));
    let client = client(addr, certs, BackoffStrategy::constant().with_max_attempts(0)).await?;
    let mut sub = client.subscriber(&topic).with_decoder(StringCodec).open().await?;
    tokio::time::sleep(Duration::from_millis(40)).await;
    let mut pb = client.publisher(&topic).with_encoder(StringCodec);
    if batch != "-" { let (sz, ms) = batch.split_once(':').unwrap(); pb = pb.with_batching(BatchConfig::new(sz.parse()?, Duration::from_millis(ms.parse()?))); }
    let mut a = pb.open().await?;
    for i in 0..k { a.send(format!("a{i}|")).await?; }
    let mut b = a.duplicate().await?;
    for i in 0..m { b.send(format!("b{i}|")).await?; }
    b.finish().await?;
    for i in k..k + j { a.send(format!("a{i}|")).await?; }
    a.finish().await?;
    let (mut ga, mut gb, mut errs) = (vec![], vec![], 0usize);
    loop {
        match tokio::time::timeout(Duration::from_millis(if ga.len() + gb.len() >= k + m + j { 80 } else { 400 }), sub.next()).await {
            Err(_) | Ok(None) => break,
            Ok(Some(Ok(v))) => { let idx = v[1..].trim_end_matches('|').to_string(); if v.starts_with('a') { ga.push(idx) } else { gb.push(idx) } }
            Ok(Some(Err(_))) => { errs += 1; if errs > 5 { break; } }
        }
        if ga.len() + gb.len() > k + m + j + 8 { break; }
    }
    let show = |v: &Vec<String>| if v.is_empty() { "-".to_string() } else { v.join(",") };
    Ok(format!("a={} b={} errs={errs}", show(&ga), show(&gb)))
}

/// `ppquiet <pause_ms>`: two items, a pause in which nothing is published, four more, finish(): all six arrive (client and
/// server as they come: the client's keep-alive keeps a quiet connection from being given up)
async fn run_quiet(addr: SocketAddr, certs: &Certs, pause_ms: u64) -> anyhow::Result<String> {
    let topic = format!("/verif/quiet{}", TOPIC.fetch_add(1, Ordering::SeqCst));
    // the library's own defaults for keep-alive and backoff
    let client = selium::custom().endpoint(&addr.to_string())
        .with_certificate_authority(certs.client("ca.der"))?.with_cert_and_key(certs.client("localhost.der"), certs.client("localhost.key.der"))?.connect().await?;
    let mut sub = client.subscriber(&topic).with_decoder(StringCodec).open().await?;
    tokio::time::sleep(Duration::from_millis(40)).await;
    let mut publ = client.publisher(&topic).with_encoder(StringCodec).open().await?;
    for i in 0..2 { publ.send(format!("{i}|")).await?; }
    tokio::time::sleep(Duration::from_millis(pause_ms)).await;
    for i in 2..6 { publ.send(format!("{i}|")).await?; }
    publ.finish().await?;
    let (mut got, mut errs) = (vec![], 0usize);
    loop {
        match tokio::time::timeout(Duration::from_millis(if got.len() >= 6 { 80 } else { 1500 }), sub.next()).await {
            Err(_) | Ok(None) => break,
            Ok(Some(Ok(v))) => got.push(v.trim_end_matches('|').to_string()),
            Ok(Some(Err(_))) => { errs += 1; if errs > 5 { break; } }
        }
        if got.len() > 12 { break; }
    }
    Ok(format!("{} errs={errs}", if got.is_empty() { "-".to_string() } else { got.join(",") }))
}

/// the subscriber must yield exactly the items whose `send` returned Ok, in order
fn judge(line: &str, n: usize, batch: &str, fin: bool) -> Result<(), String> {
    let mut parts = line.split(' ');
    let yielded: Vec<usize> = parts.next().unwrap_or("-").split(',').filter_map(|x| x.parse().ok()).collect();
    let mut refused: Vec<usize> = vec![];
    let mut finish_err = false;
    let mut errs = 0usize;
    for p in parts {
        if let Some(r) = p.strip_prefix("refused=") { refused = r.split(',').filter_map(|x| x.parse().ok()).collect(); }
        if let Some(e) = p.strip_prefix("errs=") { errs = e.parse().unwrap_or(1); }
        if p == "finish=err" { finish_err = true; }
    }
    let accepted: Vec<usize> = (0..n).filter(|i| !refused.contains(i)).collect();
    if yielded == accepted && errs == 0 && !finish_err { return Ok(()); }
    // one particular loss has a name (known_findings.json): with batching, the `send` that frames a batch larger than
    // the frame limit fails, and the members of that batch - accepted earlier - are the items that are missing
    let size: usize = batch.split(':').next().and_then(|s| s.parse().ok()).unwrap_or(0);
    if batch != "-" && errs == 0 && size >= 1 && (!refused.is_empty() || finish_err) {
        let mut lost: Vec<usize> = vec![];
        let mut members: Vec<usize> = vec![];
        for i in 0..n {
            if refused.contains(&i) { lost.extend(members.drain(..)); continue; }
            if members.len() >= size { members.clear(); }
            members.push(i);
        }
        if finish_err { lost.extend(members.drain(..)); }
        let expect: Vec<usize> = accepted.iter().copied().filter(|i| !lost.contains(i)).collect();
        if yielded == expect && !lost.is_empty() {
            return Err(format!("C03: items {lost:?} were accepted (send returned Ok) and then dropped with their batch when it outgrew the frame limit; the subscriber yielded [{line}]"));
        }
    }
    // (what the subscriber yields went through the composition on the wire - encode, batch, compress, then decompress, unbatch,
    // decode - inside the real Publisher and Subscriber: a value that comes out wrong or as an error is C14's matter too)
    Err(format!("C03/C14: subscriber yielded [{line}] for {n} items sent (batch {batch}, finish={fin}): not exactly the accepted items {accepted:?}"))
}

pub fn run(cfg: &Cfg) {
    let mut out = Out::new(&cfg.out, "e2epub");
    let rt = runtime();
    let certs = Certs::generate(&scratch_dir("pub")).expect("certificates");
    let addr = rt.block_on(async { start_server(&certs) }).expect("server");
    let mut cases: Vec<String> = vec![];
    if let Some(lines) = cfg.replay_lines() {
        cases = lines;
    } else {
        let mut r = Rng::new(cfg.seed, "e2epub");
        // batching off/on with sizes around the item counts, every codec, a spread of compressors
        let algos = ["-", "gzip:bal", "zlib:fast", "zstd:bal", "lz4:-", "brg:fast"];
        let batches = ["-", "1:60000", "3:60000", "4:60000", "100:60000", "3:0", "3:5"];
        for codec in ["string", "bytes", "bincode"] {
            for (ai, algo) in algos.iter().enumerate() {
                for (bi, b) in batches.iter().enumerate() {
                    // not the full cross product in the quick tier: every pair (codec, batch) and (algo, batch) appears
                    if cfg.tier == Tier::Quick && (ai + bi) % 3 != 0 && !(codec == "string" && *algo == "-") { continue; }
                    let size: usize = b.split(':').next().unwrap().parse().unwrap_or(1);
                    let counts: Vec<usize> = if *b == "-" { vec![0, 1, 7] } else { let mut v = vec![0, 1, size.saturating_sub(1), size, size + 1, 2 * size + 1]; v.retain(|x| *x <= 9); v.sort(); v.dedup(); v };
                    for n in counts {
                        let class = *r.pick(&["s", "s", "m"]);
                        cases.push(format!("pp {codec} {algo} {b} {n} {class} y"));
                    }
                }
            }
        }
        cases.push("pp string - 3:60000 7 s n".into());
        cases.push("ppquiet 6500".into());
        // a publisher that leaves right after finish(), the subscriber not yet reading, more than a stream window under way
        cases.push("pp bytes - - 30 Z65536 l".into());
        cases.push("pp string zstd:bal 3:60000 7 m l".into());
        // a batch that is several times a frame before compression
        cases.push("pp string lz4:- 12:60000 12 Z400000 y".into());
        // duplicate(): before anything was sent, with a partial batch collected, right after a batch was framed, unbatched
        for (b, k, m, j) in [("10:60000", 0, 2, 2), ("10:60000", 3, 1, 1), ("3:60000", 3, 2, 1), ("3:60000", 4, 0, 0), ("3:60000", 2, 5, 2), ("-", 2, 2, 1), ("4:0", 3, 1, 2)] {
            cases.push(format!("ppdup {b} {k} {m} {j}"));
        }
        // empty and one-byte messages, alone and in batches
        for (codec, algo) in [("string", "-"), ("bytes", "-"), ("bytes", "zstd:bal"), ("string", "gzip:bal"), ("bytes", "lz4:-")] {
            for b in ["-", "4:60000", "3:60000", "100:60000"] { cases.push(format!("pp {codec} {algo} {b} 7 E y")); }
        }
        // the sink driven with feed(): nothing is flushed before finish(), which has to hand over whatever was accepted -
        // frames sitting in the framed writer, a batch that filled up on the last poll_ready, a partial batch
        for (codec, algo) in [("string", "-"), ("bytes", "zstd:bal"), ("bincode", "-"), ("string", "lz4:-")] {
            for b in ["-", "3:60000", "1:60000", "3:0"] {
                for n in [1usize, 3, 4, 6] {
                    if cfg.tier == Tier::Quick && codec != "string" && n % 3 != 0 { continue; }
                    cases.push(format!("pp {codec} {algo} {b} {n} s f"));
                    cases.push(format!("pp {codec} {algo} {b} {n} s r"));
                }
            }
        }
        // any batch size and interval: the extremes of both types
        cases.push("ppx string - 3:18446744073709551615 4 s y".into());
        cases.push("ppx string - 4294967295:60000 4 s y".into());
        cases.push("ppx string - 3:max 4 s y".into());
        cases.push("ppx string - 0:60000 3 s y".into());
        cases.push("ppx string - 0:0 3 s y".into());
        cases.push("pp string zstd:bal 2:60000 5 l y".into());
        // payload sizes up to the frame limit: an unbatched message of MAX-9 bytes is the largest frame (9 bytes of
        // bincode around it); a batch of two adds 24 bytes of count and length markers
        let max = 1usize << 20;
        for len in [max - 9, max - 10, max - 17, max - 18, max - 40] { cases.push(format!("pp bytes - - 3 X{len} y")); }
        cases.push(format!("pp string - - 2 X{} n", max - 9));
        for len in [max - 26, max - 27, max - 35] { cases.push(format!("pp bytes - 2:60000 3 X{len} y")); }
        // batches that are larger than the frame limit before compression (each message well below it) and small after
        for algo in ["zstd:bal", "lz4:-", "gzip:bal", "zlib:bal", "brg:bal"] {
            cases.push(format!("pp string {algo} 4:60000 6 Z400000 y"));
        }
        cases.push("pp bytes zstd:bal - 3 Z1048000 y".into());
        // without compression: a message that is too large on its own is refused (and nothing else is lost); a batch
        // that outgrows the limit - known finding - takes its members with it
        // a large message between small ones, inside one batch and across batches, with and without compression
        for w in [65535usize, 65536, 70000, 300000] {
            cases.push(format!("pp string - 4:60000 6 W{w} y"));
        }
        cases.push("pp bytes gzip:bal 3:60000 5 W200000 y".into());
        cases.push("pp bytes - 100:60000 4 W70000 y".into());
        cases.push("pp string - - 3 X1048568 y".into());
        cases.push("pp string - 4:60000 6 Z400000 y".into());
        cases.push("pp bytes - 2:60000 5 Z600000 y".into());
        // a subscriber that only starts reading after the publisher has sent more than its stream window holds, while
        // the publisher stays connected and silent: the tail must still be flushed to it
        cases.push("pp string - - 3 Z600000 n".into());
        cases.push("pp bytes - - 5 Z400000 n".into());
        for _ in 0..cfg.n(0, 400) {
            let all = crate::codec::algos();
            let algo = if r.chance(1, 4) { "-".to_string() } else { r.pick(&all).clone() };
            let b = if r.chance(1, 3) { "-".to_string() } else { format!("{}:{}", r.range(1, 6), *r.pick(&[0u64, 1, 20, 60000])) };
            cases.push(format!("pp {} {algo} {b} {} {} y", *r.pick(&["string", "bytes", "bincode"]), r.below(14), *r.pick(&["s", "m", "l"])));
        }
    }
    for c in &cases {
        let t: Vec<&str> = c.split(' ').collect();
        let n: usize = t.get(4).and_then(|x| x.parse().ok()).unwrap_or(0);
        if t[0] == "ppquiet" {
            out.stat("quiet_spell");
            let res = rt.block_on(async { tokio::time::timeout(Duration::from_secs(40), run_quiet(addr, &certs, t[1].parse().unwrap())).await });
            let (imp, mon) = match res {
                Err(_) => ("TIMEOUT".to_string(), Err("C03: the exchange did not complete within 40 s".to_string())),
                Ok(Err(e)) => (format!("ERROR {}", format!("{e:?}").replace('\n', " ").chars().take(200).collect::<String>()), Err(format!("C03/C12: client error {e}"))),
                Ok(Ok(line)) => { let mon = if line == "0,1,2,3,4,5 errs=0" { Ok(()) } else { Err(format!("C03/C12: two items, {} ms in which nothing is published, four more (library defaults on both sides): the subscriber yielded [{line}]", t[1])) }; (line, mon) }
            };
            out.case(c, &imp, mon);
            continue;
        }
        if t[0] == "ppdup" {
            out.stat("duplicate");
            let (k, m, j): (usize, usize, usize) = (t[2].parse().unwrap(), t[3].parse().unwrap(), n);
            let res = rt.block_on(async { tokio::time::timeout(Duration::from_secs(30), run_dup(addr, &certs, &t)).await });
            let seq = |n: usize| if n == 0 { "-".to_string() } else { (0..n).map(|i| i.to_string()).collect::<Vec<_>>().join(",") };
            let want = format!("a={} b={} errs=0", seq(k + j), seq(m));
            let (imp, mon) = match res {
                Err(_) => ("TIMEOUT".to_string(), Err("C03: the exchange did not complete within 30 s".to_string())),
                Ok(Err(e)) => (format!("ERROR {}", format!("{e:?}").replace('\n', " ").chars().take(200).collect::<String>()), Err(format!("C03: client error {e}"))),
                Ok(Ok(line)) => { let mon = if line == want { Ok(()) } else { Err(format!("C03: a publisher took {k} items, was duplicated (the duplicate took {m}) and took {j} more (batch {}): the subscriber yielded [{line}], not each accepted item once in its publisher's order", t[1])) }; (line, mon) }
            };
            out.case(c, &imp, mon);
            continue;
        }
        if t[0] == "ppx" {
            // extreme configuration: run it in a process of its own, so that an abort is an observation
            out.stat("isolated");
            let dir = scratch_dir("ppx");
            let _ = std::fs::create_dir_all(&dir);
            let f = dir.join("one.cases");
            std::fs::write(&f, format!("pp {}\n", t[1..].join(" "))).unwrap();
            let st = std::process::Command::new(std::env::current_exe().unwrap())
                .args(["e2epub", "--replay", f.to_str().unwrap(), "--out", dir.join("out").to_str().unwrap(), "--seed", &cfg.seed.to_string()])
                .stdout(std::process::Stdio::null()).stderr(std::process::Stdio::null()).status();
            let line = std::fs::read_to_string(dir.join("out").join("e2epub.impl")).unwrap_or_default().trim().to_string();
            let want = format!("{} errs=0", if n == 0 { "-".to_string() } else { (0..n).map(|i| i.to_string()).collect::<Vec<_>>().join(",") });
            let (imp, mon) = match st {
                Ok(s) if s.success() && line == want => (line, Ok(())),
                Ok(s) if s.success() => (line.clone(), Err(format!("C03: subscriber yielded [{line}] for {n} items sent (batch {})", t[3]))),
                Ok(s) => ("CRASH".to_string(), Err(format!("C03: the client process died ({s}) with batch configuration {}", t[3]))),
                Err(e) => ("CRASH".to_string(), Err(format!("could not run the isolated case: {e}"))),
            };
            let _ = std::fs::remove_dir_all(&dir);
            out.case(c, &imp, mon);
            continue;
        }
        let mut res = rt.block_on(async { tokio::time::timeout(Duration::from_secs(30), run_case(addr, &certs, &t, cfg.seed)).await });
        // an exchange that did not complete at all (a connection-level error, the time limit) is run once more before it is
        // judged: on a starved machine a QUIC connection can be declared idle; what is repeatable is reported
        if !matches!(res, Ok(Ok(_))) {
            out.stat("repeated_after_connection_error");
            res = rt.block_on(async { tokio::time::timeout(Duration::from_secs(60), run_case(addr, &certs, &t, cfg.seed)).await });
        }
        let want = format!("{} errs=0", if n == 0 { "-".to_string() } else { (0..n).map(|i| i.to_string()).collect::<Vec<_>>().join(",") });
        let (imp, mon) = match res {
            Err(_) => ("TIMEOUT".to_string(), Err("C03: the exchange did not complete within 30 s".to_string())),
            Ok(Err(e)) => (format!("ERROR {}", format!("{e:?}").replace('\n', " ").chars().take(200).collect::<String>()), Err(format!("C03: client error {e}"))),
            Ok(Ok(line)) => {
                let fin = t[6] != "n";
                let m = if line == want || (!fin && t[3] != "-") { Ok(()) } else { judge(&line, n, t[3], fin) };
                (line, m)
            }
        };
        out.stat(&format!("codec_{}", t[1]));
        out.stat(&format!("algo_{}", t[2].split(':').next().unwrap()));
        out.stat(if t[3] == "-" { "unbatched" } else { "batched" });
        if n == 0 { out.mark_trivial(); }
        out.case(c, &imp, mon);
    }
    let _ = std::fs::remove_dir_all(&certs.dir);
    out.finish();
}
