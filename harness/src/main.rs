//! Differential / monitor harness for the Lean model of seliumlabs/selium.
//! usage: selium-verif-harness <suite> [--seed N] [--tier quick|thorough] [--out DIR] [--replay FILE]
mod util;
mod backoff;
mod childrun;
mod codec;
mod e2e;
mod e2epub;
mod e2erec;
mod e2erep;
mod e2esub;
mod e2eshut;
mod e2ereq;
mod e2etls;
mod fanout;
mod mock;
mod pubsub;
mod registry;
mod reqrep;
mod topic;
mod wire;

use util::{Cfg, Tier};

#[global_allocator]
static ALLOC: childrun::Counting = childrun::Counting;

fn main() {
    let args: Vec<String> = std::env::args().collect();
    if args.len() < 2 {
        eprintln!("usage: {} <suite> [--seed N] [--tier quick|thorough] [--out DIR] [--replay FILE]", args[0]);
        std::process::exit(2);
    }
    let suite = args[1].clone();
    // (`VERIF_LOG=off`: the quiet twin of the guarded child, see childrun.rs)
    if std::env::var("VERIF_LOG").map(|v| v != "off").unwrap_or(true) { util::enable_logging(); }
    if suite == "__child" {
        childrun::child_main();
        return;
    }
    let mut cfg = Cfg {
        seed: std::env::var("VERIF_SEED").ok().and_then(|s| s.parse().ok()).unwrap_or(0),
        tier: match std::env::var("VERIF_TIER").as_deref() {
            Ok("thorough") => Tier::Thorough,
            _ => Tier::Quick,
        },
        out: std::path::PathBuf::from("out"),
        replay: None,
    };
    let mut i = 2;
    while i < args.len() {
        match args[i].as_str() {
            "--seed" => { cfg.seed = args[i + 1].parse().expect("seed"); i += 2; }
            "--tier" => { cfg.tier = if args[i + 1] == "thorough" { Tier::Thorough } else { Tier::Quick }; i += 2; }
            "--out" => { cfg.out = args[i + 1].clone().into(); i += 2; }
            "--replay" => { cfg.replay = Some(args[i + 1].clone().into()); i += 2; }
            other => { eprintln!("unknown argument {other}"); std::process::exit(2); }
        }
    }
    util::quiet_panics();
    let r = util::catch(|| run_suite(&suite, &cfg));
    if let Err(p) = r {
        let at = util::LAST_PANIC_AT.lock().map(|g| g.clone()).unwrap_or_default();
        println!("HARNESS-PANIC in suite {suite} at {at}: {p}");
        std::process::exit(101);
    }
}

fn run_suite(suite: &str, cfg: &Cfg) {
    let cfg = cfg.clone();
    let cfg = &cfg;
    match suite {
        "backoff" => backoff::run(cfg),
        "wire" => wire::run(cfg),
        "codec" => codec::run(cfg),
        "topic" => topic::run(cfg),
        "fanout" => fanout::run(cfg),
        "pubsub" => pubsub::run(cfg),
        "reqrep" => reqrep::run(cfg),
        "e2epub" => e2epub::run(cfg),
        "e2ereq" => e2ereq::run(cfg),
        "registry" => registry::run(cfg),
        "regbig" => registry::run_named(cfg, "regbig"),
        "e2etls" => e2etls::run(cfg),
        "e2erec" => e2erec::run(cfg),
        "e2esub" => e2esub::run(cfg),
        "e2erep" => e2erep::run(cfg),
        "e2eshut" => e2eshut::run(cfg),
        other => { eprintln!("unknown suite {other}"); std::process::exit(2); }
    }
}

/// operations executed inside the guarded child process
pub fn dispatch_child(op: &str, input: &[u8]) -> String {
    match op {
        "bdec" => wire::bdec_value(input),
        "rr" => reqrep::child(input),
        "ps" => pubsub::child(input),
        "dcx" => e2esub::dcx(input),
        "ppraw1" => e2esub::child_case(input),
        "wdecg" => wire::wdec_child(input),
        "shut1" => e2eshut::child_case(input),
        other => codec::child(other, input).unwrap_or_else(|| format!("unknown-op {other}")),
    }
}
