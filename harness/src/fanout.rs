//! C08 (sink level): the real `selium_server::sink::FanoutMany` around scripted mock sinks.
//!   fan <script>|<script>|... <op>,<op>,...      ops: R poll_ready, S<n> start_send(n), F poll_flush, C poll_close
//! Implementation line: per op `<op>:<child calls>-><R|P|ok|err|PANIC>`, joined by ` ; `, then
//! ` | alive=k1,k0 got k0=[..] k1=[..]` (alive in entry order).
use crate::mock::*;
use crate::util::*;
use futures::Sink;
use selium_server::sink::FanoutMany;
use std::pin::Pin;
use std::sync::Arc;
use std::task::{Context, Poll};

pub fn ev_text(e: &Ev<u32>) -> String {
    match e {
        Ev::SinkReady(i, a) => format!("k{i}r{}", a.ch()),
        Ev::SinkSend(i, t, ok) => format!("k{i}s{t}{}", if *ok { 'O' } else { 'E' }),
        Ev::SinkFlush(i, a) => format!("k{i}f{}", a.ch()),
        Ev::SinkClose(i, a) => format!("k{i}c{}", a.ch()),
        Ev::StreamItem(i, t) => format!("t{i}i{t}"),
        Ev::StreamErr(i) => format!("t{i}x"),
        Ev::StreamPending(i) => format!("t{i}p"),
        Ev::StreamEnd(i) => format!("t{i}e"),
        Ev::Dropped(k, i) => format!("d{k}{i}"),
    }
}

pub fn events_text(evs: &[Ev<u32>]) -> String {
    evs.iter().map(ev_text).collect::<Vec<_>>().join(",")
}

fn run_case(scripts: &[SinkScript], ops: &[String]) -> (String, Result<(), String>) {
    let log = new_log::<u32>();
    let mut f: FanoutMany<usize, MockSink<u32>> = FanoutMany::new();
    for (i, s) in scripts.iter().enumerate() {
        f.insert(i, MockSink { id: i, kind: 'k', script: s.clone(), log: log.clone(), silent: false });
    }
    let wk = Arc::new(CountWake(Default::default()));
    let waker = wk.clone().into();
    let mut cx = Context::from_waker(&waker);
    let mut segs = vec![];
    let mut mon: Result<(), String> = Ok(());
    // monitor state: which sinks are alive, what each got
    let n = scripts.len();
    let mut alive = vec![true; n];
    let mut got: Vec<Vec<u32>> = vec![vec![]; n];
    let mut panicked = false;
    for op in ops {
        let start = log.lock().unwrap_or_else(|e| e.into_inner()).events.len();
        let res = catch(|| {
            let mut p = Pin::new(&mut f);
            match op.chars().next().unwrap() {
                'R' => match p.as_mut().poll_ready(&mut cx) { Poll::Pending => "P", Poll::Ready(Ok(())) => "R", Poll::Ready(Err(_)) => "err" },
                'F' => match p.as_mut().poll_flush(&mut cx) { Poll::Pending => "P", Poll::Ready(Ok(())) => "R", Poll::Ready(Err(_)) => "err" },
                'C' => match p.as_mut().poll_close(&mut cx) { Poll::Pending => "P", Poll::Ready(Ok(())) => "R", Poll::Ready(Err(_)) => "err" },
                'S' => match p.as_mut().start_send(op[1..].parse().unwrap()) { Ok(()) => "ok", Err(_) => "err" },
                _ => panic!("bad op"),
            }
        });
        let evs: Vec<Ev<u32>> = log.lock().unwrap_or_else(|e| e.into_inner()).events[start..].to_vec();
        let r = match &res { Ok(r) => r.to_string(), Err(_) => { panicked = true; "PANIC".to_string() } };
        segs.push(format!("{op}:{}->{r}", events_text(&evs)));
        // ---- monitor (C08 at sink level): only a sink that answered Err leaves; the others are untouched
        let mut failed_now = vec![false; n];
        let mut called = vec![0usize; n];
        for e in &evs {
            match e {
                Ev::SinkReady(i, a) | Ev::SinkFlush(i, a) | Ev::SinkClose(i, a) => { called[*i] += 1; if *a == A::Err { failed_now[*i] = true; } }
                Ev::SinkSend(i, t, ok) => { called[*i] += 1; if *ok { got[*i].push(*t); } else { failed_now[*i] = true; } }
                Ev::Dropped(_, i) => { if !failed_now[*i] && mon.is_ok() { mon = Err(format!("op {op}: sink k{i} was dropped although it did not fail")); } alive[*i] = false; }
                _ => {}
            }
        }
        if mon.is_ok() {
            if panicked { mon = Err(format!("FanoutMany panicked during {op} ({})", res.as_ref().err().cloned().unwrap_or_default())); }
            else if r == "err" { mon = Err(format!("FanoutMany returned an error from {op}")); }
            else {
                for i in 0..n {
                    if failed_now[i] && alive[i] { mon = Err(format!("op {op}: failed sink k{i} was not evicted")); }
                    if called[i] > 1 { mon = Err(format!("op {op}: sink k{i} was called {} times in one operation", called[i])); }
                    if op.starts_with('S') && alive[i] && called[i] != 1 { mon = Err(format!("op {op}: healthy sink k{i} did not get the item")); }
                    if (r == "R" || r == "ok") && alive[i] && called[i] == 0 && !op.starts_with('S') { mon = Err(format!("op {op}: completed without consulting healthy sink k{i}")); }
                }
            }
        }
        if panicked { break; }
    }
    let order: Vec<String> = f.iter_mut().map(|(k, _)| format!("k{k}")).collect();
    let gots: Vec<String> = (0..n).map(|i| format!("k{i}=[{}]", got[i].iter().map(|x| x.to_string()).collect::<Vec<_>>().join(","))).collect();
    let line = format!("{} | alive={} got {}", segs.join(" ; "), order.join(","), gots.join(" "));
    std::mem::forget(f); // do not log drops of the survivors
    (line, mon)
}

fn parse(l: &str) -> (Vec<SinkScript>, Vec<String>) {
    let t: Vec<&str> = l.split(' ').collect();
    let scripts = if t[1] == "-" { vec![] } else { t[1].split('|').map(SinkScript::parse).collect() };
    let ops = t[2].split(',').map(|s| s.to_string()).collect();
    (scripts, ops)
}

pub fn rand_sink_script(r: &mut Rng, fault_bias: u64) -> SinkScript {
    let ans = |r: &mut Rng| -> A { match r.below(10) { 0..=5 => A::Ready, 6..=7 => A::Pending, _ => if r.below(10) < fault_bias { A::Err } else { A::Ready } } };
    let mut s = SinkScript::default();
    for _ in 0..r.below(4) { let a = ans(r); s.ready.push_back(a); }
    for _ in 0..r.below(4) { let ok = !(r.below(10) < 2 && r.below(10) < fault_bias); s.send.push_back(ok); }
    for _ in 0..r.below(4) { let a = ans(r); s.flush.push_back(a); }
    for _ in 0..r.below(3) { let a = ans(r); s.close.push_back(a); }
    s
}

pub fn run(cfg: &Cfg) {
    let mut out = Out::new(&cfg.out, "fanout");
    let mut cases: Vec<String> = vec![];
    if let Some(lines) = cfg.replay_lines() {
        cases = lines;
    } else {
        // exhaustive small scope: up to 3 sinks, one fault or pending at every (sink, operation) position
        let answers = ["_", "r=E", "r=P", "s=E", "f=E", "f=P", "c=E", "r=RE", "s=OE", "f=RE"];
        for n in 0..=3usize {
            let mut idx = vec![0usize; n];
            loop {
                let scripts: Vec<&str> = idx.iter().map(|i| answers[*i]).collect();
                let st = if n == 0 { "-".to_string() } else { scripts.join("|") };
                for ops in ["R,S1,F", "S1,S2,F,C", "R,S1,R,S2,F,C", "F,R,S7"] {
                    cases.push(format!("fan {st} {ops}"));
                }
                let mut k = 0;
                while k < n { idx[k] += 1; if idx[k] < answers.len() { break; } idx[k] = 0; k += 1; }
                if k == n { break; }
            }
        }
        let mut r = Rng::new(cfg.seed, "fanout");
        for _ in 0..cfg.n(3000, 150_000) {
            let n = r.below(6) as usize;
            let scripts: Vec<String> = (0..n).map(|_| rand_sink_script(&mut r, 6).text()).collect();
            let nops = r.below(8) + 1;
            let mut item = 0;
            let ops: Vec<String> = (0..nops).map(|_| match r.below(5) { 0 | 1 => { item += 1; format!("S{item}") } 2 => "R".into(), 3 => "F".into(), _ => "C".into() }).collect();
            cases.push(format!("fan {} {}", if n == 0 { "-".to_string() } else { scripts.join("|") }, ops.join(",")));
        }
    }
    for c in &cases {
        let (scripts, ops) = parse(c);
        out.stat(&format!("sinks_{}", scripts.len()));
        let faults = c.matches('E').count();
        out.stat(if faults == 0 { "no_fault" } else if faults == 1 { "one_fault" } else { "multi_fault" });
        if scripts.is_empty() { out.mark_trivial(); }
        let (imp, mon) = run_case(&scripts, &ops);
        if imp.contains("PANIC") { out.stat("impl_panicked"); }
        out.case(c, &imp, mon);
    }
    out.finish();
}
