//! C16 (server level): graceful shutdown cannot hang on a topic. Each case runs in the guarded child with a server of
//! its own: peers are put into a given state, the process sends itself SIGINT (what `Server::listen` waits for), and
//! `listen()` must return within a few seconds.
//!   shut <state>     idle | pubsub | pubsub-flow | rr-requestor | rr-replier | rr-both | rr-unanswered | many | reg-parked
//! Implementation line: `finished` | `hang` (then which state).
use crate::e2e::*;
use crate::util::*;
use clap::Parser;
use futures::{SinkExt, StreamExt};
use selium::keep_alive::BackoffStrategy;
use selium::prelude::*;
use selium::std::codecs::StringCodec;
use selium_protocol::{Frame, ReplierPayload, TopicName};
use selium_server::args::UserArgs;
use selium_server::server::Server;
use std::time::Duration;

async fn run_state(state: &str) -> anyhow::Result<String> {
    let certs = Certs::generate(&scratch_dir("shut"))?;
    let args = UserArgs::parse_from([
        "selium-server", "--bind-addr", "127.0.0.1:0",
        "--cert", certs.server("localhost.der").to_str().unwrap(), "--key", certs.server("localhost.key.der").to_str().unwrap(), "--ca", certs.server("ca.der").to_str().unwrap(),
    ]);
    let server = Server::try_from(args)?;
    let addr = server.addr()?;
    let listen = tokio::spawn(async move { server.listen().await });
    tokio::time::sleep(Duration::from_millis(50)).await;
    let client = client(addr, &certs, BackoffStrategy::constant().with_max_attempts(0)).await?;
    // keep every peer alive until the end of the case
    let mut keep: Vec<Box<dyn std::any::Any + Send>> = vec![];
    let mut tasks = vec![];
    match state {
        "idle" => {}
        "pubsub" | "pubsub-flow" | "many" => {
            let n = if state == "many" { 6 } else { 1 };
            for t in 0..n {
                let topic = format!("/verif/shut{t}");
                let mut sub = client.subscriber(&topic).with_decoder(StringCodec).open().await?;
                tokio::time::sleep(Duration::from_millis(30)).await;
                let mut publ = client.publisher(&topic).with_encoder(StringCodec).open().await?;
                publ.send("one".to_string()).await?;
                let _ = tokio::time::timeout(Duration::from_millis(500), sub.next()).await;
                if state == "pubsub-flow" {
                    // messages keep flowing while the shutdown happens
                    tasks.push(tokio::spawn(async move { for i in 0..400 { if publ.send(format!("m{i}")).await.is_err() { break; } tokio::time::sleep(Duration::from_millis(5)).await; } }));
                    tasks.push(tokio::spawn(async move { while let Some(Ok(_)) = sub.next().await {} }));
                } else { keep.push(Box::new(publ)); keep.push(Box::new(sub)); }
            }
            if state == "many" {
                let rq = client.requestor("/verif/shutrr").with_request_encoder(StringCodec).with_reply_decoder(StringCodec).with_request_timeout(500u64)?.open().await?;
                keep.push(Box::new(rq));
            }
        }
        "rr-requestor" => {
            let mut rq = client.requestor("/verif/shutrr").with_request_encoder(StringCodec).with_reply_decoder(StringCodec).with_request_timeout(300u64)?.open().await?;
            let _ = rq.request("nobody home".to_string()).await;
            keep.push(Box::new(rq));
        }
        "rr-replier" | "rr-both" => {
            let c2 = client.clone();
            tasks.push(tokio::spawn(async move {
                if let Ok(mut rep) = c2.replier("/verif/shutrr").with_request_decoder(StringCodec).with_reply_encoder(StringCodec)
                    .with_handler(|r: String| async move { Ok::<_, anyhow::Error>(format!("re:{r}")) }).open().await { let _ = rep.listen().await; }
            }));
            tokio::time::sleep(Duration::from_millis(80)).await;
            if state == "rr-both" {
                let mut rq = client.requestor("/verif/shutrr").with_request_encoder(StringCodec).with_reply_decoder(StringCodec).with_request_timeout(1000u64)?.open().await?;
                let _ = rq.request("hello".to_string()).await;
                keep.push(Box::new(rq));
            }
        }
        "rr-unanswered" => {
            // a replier that takes requests and never answers; a request has been handed to it when the shutdown comes
            let conn = raw_connect(addr, &certs.client("ca.der"), Some((&certs.client("localhost.der"), &certs.client("localhost.key.der")))).await?;
            let mut rs = raw_stream(&conn).await?;
            rs.send(Frame::RegisterReplier(ReplierPayload { topic: TopicName::try_from("/verif/shutrr")? })).await?;
            match rs.next().await { Some(Ok(Frame::Ok)) => {}, other => anyhow::bail!("replier registration answered {other:?}") }
            tasks.push(tokio::spawn(async move { let _keep = conn; while let Some(Ok(_)) = rs.next().await {} }));
            let mut rq = client.requestor("/verif/shutrr").with_request_encoder(StringCodec).with_reply_decoder(StringCodec).with_request_timeout(5000u64)?.open().await?;
            tasks.push(tokio::spawn(async move { let _ = rq.request("never answered".to_string()).await; }));
            tokio::time::sleep(Duration::from_millis(150)).await;
        }
        "reg-parked" => {
            // a registration that is parked when the shutdown comes: the peer grants a 4-byte stream window, so the
            // server cannot even hand it the 9-byte Ok frame (the task holds a clone of the topic's sender meanwhile)
            let mut sub = client.subscriber("/verif/shutp").with_decoder(StringCodec).open().await?;
            let mut publ = client.publisher("/verif/shutp").with_encoder(StringCodec).open().await?;
            publ.send("one".to_string()).await?;
            let _ = tokio::time::timeout(Duration::from_millis(500), sub.next()).await;
            keep.push(Box::new(publ)); keep.push(Box::new(sub));
            let conn = raw_connect_window(addr, &certs.client("ca.der"), Some((&certs.client("localhost.der"), &certs.client("localhost.key.der"))), Some(4)).await?;
            let mut s1 = raw_stream(&conn).await?;
            let _ = tokio::time::timeout(Duration::from_millis(300), s1.send(Frame::RegisterSubscriber(selium_protocol::SubscriberPayload { topic: TopicName::try_from("/verif/shutp")?, retention_policy: 0, operations: vec![] }))).await;
            let mut s2 = raw_stream(&conn).await?;
            let _ = tokio::time::timeout(Duration::from_millis(300), s2.send(Frame::RegisterRequestor(selium_protocol::RequestorPayload { topic: TopicName::try_from("/verif/shutq")? }))).await;
            tokio::time::sleep(Duration::from_millis(200)).await;
            keep.push(Box::new((conn, s1, s2)));
        }
        other => anyhow::bail!("unknown state {other}"),
    }
    tokio::time::sleep(Duration::from_millis(50)).await;
    unsafe { libc::raise(libc::SIGINT); }
    let res = tokio::time::timeout(Duration::from_secs(6), listen).await;
    for t in &tasks { t.abort(); }
    drop(keep);
    let _ = std::fs::remove_dir_all(&certs.dir);
    Ok(match res { Ok(Ok(Ok(()))) => "finished".to_string(), Ok(Ok(Err(e))) => format!("listen-error:{}", format!("{e}").replace(' ', "_").chars().take(60).collect::<String>()), Ok(Err(_)) => "listen-panicked".to_string(), Err(_) => "hang".to_string() })
}

/// child side: one case, its own runtime
pub fn child_case(input: &[u8]) -> String {
    let state = String::from_utf8_lossy(input).to_string();
    let rt = runtime();
    let r = rt.block_on(async { tokio::time::timeout(Duration::from_secs(25), run_state(&state)).await });
    drop(rt);
    match r { Err(_) => "TIMEOUT".into(), Ok(Err(e)) => format!("ERROR {}", format!("{e:?}").replace('\n', " ").chars().take(160).collect::<String>()), Ok(Ok(l)) => l }
}

pub fn run(cfg: &Cfg) {
    let mut out = Out::new(&cfg.out, "e2eshut");
    let cases: Vec<String> = match cfg.replay_lines() {
        Some(l) => l,
        None => ["idle", "pubsub", "pubsub-flow", "rr-requestor", "rr-replier", "rr-both", "rr-unanswered", "many", "reg-parked"].iter().map(|s| format!("shut {s}")).collect(),
    };
    for c in &cases {
        let state = c.split(' ').nth(1).unwrap_or("idle");
        // one process per case: the signal and the server's shutdown are process-wide
        let imp = match crate::childrun::fresh_child("shut1", state.as_bytes(), Duration::from_secs(40)) {
            crate::childrun::Outcome::Value(v) => v,
            crate::childrun::Outcome::Panic(p) => format!("PANIC {p}"),
            crate::childrun::Outcome::Abort(st) => format!("ABORT {st}"),
            crate::childrun::Outcome::Hang => "TIMEOUT".to_string(),
        };
        let mon = if imp == "finished" { Ok(()) } else { Err(format!("C16: with the peers in state `{state}` the server's graceful shutdown did not complete: {imp}")) };
        out.stat(&format!("state_{state}"));
        out.case(c, &imp, mon);
    }
    out.finish();
}
