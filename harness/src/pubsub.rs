//! C01 / C08 / C09 / C16 (pub/sub half): the real `selium_server::topic::pubsub::Topic` around scripted mocks,
//! driven by a wake-driven executor (it is re-polled only when a waker it handed out has fired).
//!
//!   ps <event> <event> ...
//!     +k<sinkscript>    enqueue a subscriber sink socket        (`_` = empty script)
//!     +t<streamscript>  enqueue a publisher stream socket       (`i5,p,x,i6`; `_` = ends at once)
//!     close             close the registration channel
//!     poll              children that answered Pending last time fire their wakers; the topic is polled if any
//!                       waker it handed out (children, registration channel) has fired, or on the first poll
//! Implementation line: per event that polls `poll:<child calls>-><P|D|PANIC>[w:<children holding the waker>]`,
//! `skip` for a poll that did not happen, joined by ` ; `, then ` | acc=[..] k0=[..]f<n> ...`.
use crate::fanout::events_text;
use crate::mock::*;
use crate::util::*;
use futures::Future;
use selium_server::topic::pubsub::{Socket, Topic};
use std::collections::VecDeque;
use std::sync::atomic::Ordering;
use std::sync::Arc;
use std::task::{Context, Poll};

pub fn parse_stream_script(t: &str) -> VecDeque<SAns<u32>> {
    if t == "_" || t.is_empty() { return VecDeque::new(); }
    // `i<n>*`: a publisher with a standing backlog (the item again and again, 100 000 times)
    t.split(',').flat_map(|a| match a.chars().next().unwrap() {
        'i' if a.ends_with('*') => vec![SAns::Item(a[1..a.len() - 1].parse().unwrap()); 100_000],
        'i' => vec![SAns::Item(a[1..].parse().unwrap())], 'x' => vec![SAns::Err], 'p' => vec![SAns::Pending], _ => panic!("bad stream answer {a}") }).collect()
}

pub struct Obs {
    pub line: String,
    /// the scenario with every `poll` annotated by the order in which publisher streams were polled in it
    pub annotated: Vec<String>,
    pub accepted: Vec<u32>,
    pub got: Vec<Vec<u32>>,
    pub flushed: Vec<usize>,
    pub failed: Vec<bool>,
    pub dropped: Vec<bool>,
    pub stream_ended: Vec<bool>,
    pub panicked: Option<String>,
    pub done: bool,
    pub last_w_empty: bool,
    pub last_pending: bool,
    pub max_inner: usize,
    /// was this sink / stream ever called by the topic (i.e. certainly adopted)
    pub called: Vec<bool>,
    pub stream_polled: Vec<bool>,
    pub closed: bool,
    /// how many items had been taken from publishers when the registration channel was closed
    pub accepted_at_close: Option<usize>,
    pub last_sink_pending: bool,
    /// accepted.len() when each sink socket was enqueued / at the end of the first poll after that
    pub enq_at: Vec<usize>,
    pub adopt_by: Vec<usize>,
}

pub fn run_scenario(events: &[&str]) -> Obs {
    let log = new_log::<u32>();
    let (topic, mut tx) = Topic::<u32, String>::pair();
    let mut topic = Box::pin(topic);
    let wk = Arc::new(CountWake(Default::default()));
    let waker = wk.clone().into();
    let mut cx = Context::from_waker(&waker);
    let mut segs: Vec<String> = vec![];
    let (mut nk, mut nt) = (0usize, 0usize);
    let mut first = true;
    let mut o = Obs { line: String::new(), annotated: vec![], accepted: vec![], got: vec![], flushed: vec![], failed: vec![], dropped: vec![], stream_ended: vec![], panicked: None, done: false, last_w_empty: false, last_pending: false, max_inner: 0, called: vec![], stream_polled: vec![], closed: false, accepted_at_close: None, last_sink_pending: false, enq_at: vec![], adopt_by: vec![] };
    let mut pending_adopt: Vec<usize> = vec![];
    for ev in events {
        if o.done || o.panicked.is_some() { o.annotated.push(ev.split('@').next().unwrap().to_string()); continue; }
        if !ev.starts_with("poll") { o.annotated.push(ev.to_string()); }
        if let Some(s) = ev.strip_prefix("+k") {
            let (silent, s) = match s.strip_prefix('~') { Some(r) => (true, r), None => (false, s) };
            let m = MockSink { id: nk, kind: 'k', script: SinkScript::parse(s), log: log.clone(), silent };
            o.called.push(false);
            nk += 1;
            o.got.push(vec![]); o.flushed.push(0); o.failed.push(false); o.dropped.push(false);
            o.enq_at.push(o.accepted.len()); o.adopt_by.push(usize::MAX); pending_adopt.push(nk - 1);
            tx.try_send(Socket::Sink(Box::pin(m))).expect("registration channel full");
        } else if let Some(s) = ev.strip_prefix("+t") {
            let (silent, s) = match s.strip_prefix('~') { Some(r) => (true, r), None => (false, s) };
            let m = MockStream { id: nt, kind: 't', script: parse_stream_script(s), log: log.clone(), silent };
            o.stream_polled.push(false);
            nt += 1;
            o.stream_ended.push(false);
            tx.try_send(Socket::Stream(Box::pin(m))).expect("registration channel full");
        } else if *ev == "close" {
            tx.close_channel();
            o.closed = true;
            o.accepted_at_close = Some(o.accepted.len());
        } else if let Some(ms) = ev.strip_prefix('z') {
            // real time passes (the router has no clock of its own: nothing may depend on it)
            std::thread::sleep(std::time::Duration::from_millis(ms.parse().expect("z<ms>")));
        } else if ev.starts_with("poll") {
            // children that answered Pending become ready and fire the wakers they hold
            let ws: Vec<_> = std::mem::take(&mut log.lock().unwrap_or_else(|e| e.into_inner()).wakers);
            for (_, _, w) in ws { w.wake(); }
            if !first && wk.0.load(Ordering::SeqCst) == 0 { segs.push("skip".into()); o.annotated.push("poll".into()); continue; }
            first = false;
            wk.0.store(0, Ordering::SeqCst);
            let start = log.lock().unwrap_or_else(|e| e.into_inner()).events.len();
            let res = catch(|| topic.as_mut().poll(&mut cx));
            let evs: Vec<Ev<u32>> = log.lock().unwrap_or_else(|e| e.into_inner()).events[start..].to_vec();
            o.max_inner = o.max_inner.max(evs.len());
            let order: Vec<String> = evs.iter().filter_map(|e| match e { Ev::StreamItem(i, _) | Ev::StreamErr(i) | Ev::StreamPending(i) | Ev::StreamEnd(i) => Some(i.to_string()), _ => None }).collect();
            o.annotated.push(if order.is_empty() { "poll".to_string() } else { format!("poll@{}", order.join(".")) });
            for e in &evs {
                match e {
                    Ev::StreamItem(i, t) => { o.accepted.push(*t); o.stream_polled[*i] = true; }
                    Ev::StreamEnd(i) => { o.stream_ended[*i] = true; o.stream_polled[*i] = true; }
                    Ev::StreamErr(i) | Ev::StreamPending(i) => o.stream_polled[*i] = true,
                    Ev::SinkSend(i, t, ok) => { o.called[*i] = true; if *ok { o.got[*i].push(*t); } else { o.failed[*i] = true; } }
                    Ev::SinkFlush(i, a) => { o.called[*i] = true; if *a == A::Ready { o.flushed[*i] = o.got[*i].len(); } if *a == A::Err { o.failed[*i] = true; } }
                    Ev::SinkReady(i, a) | Ev::SinkClose(i, a) => { o.called[*i] = true; if *a == A::Err { o.failed[*i] = true; } }
                    Ev::Dropped(_, i) => o.dropped[*i] = true,
                    _ => {}
                }
            }
            for k in pending_adopt.drain(..) { o.adopt_by[k] = o.accepted.len(); }
            let holders: Vec<String> = log.lock().unwrap_or_else(|e| e.into_inner()).wakers.iter().map(|(c, i, _)| format!("{c}{i}")).collect();
            let r = match res {
                Ok(Poll::Pending) => {
                    o.last_pending = true;
                    o.last_sink_pending = evs.iter().any(|e| matches!(e, Ev::SinkReady(_, A::Pending) | Ev::SinkFlush(_, A::Pending) | Ev::SinkClose(_, A::Pending)));
                    // nobody answered Pending (silent or not): the topic waits on the registration channel only
                    o.last_w_empty = !o.last_sink_pending && !evs.iter().any(|e| matches!(e, Ev::StreamPending(_)));
                    "P"
                }
                Ok(Poll::Ready(())) => { o.done = true; o.last_pending = false; "D" }
                Err(p) => { o.panicked = Some(p); "PANIC" }
            };
            segs.push(format!("poll:{}->{r}[w:{}]", events_text(&evs), holders.join(",")));
        } else {
            panic!("bad pubsub event {ev}");
        }
    }
    let sinks: Vec<String> = (0..nk).map(|i| format!("k{i}=[{}]f{}", o.got[i].iter().map(|x| x.to_string()).collect::<Vec<_>>().join(","), o.flushed[i])).collect();
    o.line = format!("{} | acc=[{}] {}", segs.join(" ; "), o.accepted.iter().map(|x| x.to_string()).collect::<Vec<_>>().join(","), sinks.join(" "));
    // keep the mocks alive past the log snapshot
    std::mem::forget(topic);
    o
}

/// the property monitors evaluated on what the implementation did (C01, C08, C09, C16)
pub fn monitor(o: &Obs, events: &[&str]) -> Result<(), String> {
    if let Some(p) = &o.panicked { return Err(format!("C01/C03/C08/C09/C11/C16: polling the topic panicked: {p}")); }
    let n = o.got.len();
    // a delivery fault is a fault of C01 and, end to end, of C03; with a failed peer in the scenario also of C08
    let c01 = if o.failed.iter().any(|f| *f) { "C01/C03/C08" } else { "C01/C03" };
    // position of each accepted item (scenario items are distinct)
    for k in 0..n {
        // C08: only a sink that failed is dropped
        if o.dropped[k] && !o.failed[k] && !o.done { return Err(format!("C08: healthy sink k{k} was dropped")); }
        if o.failed[k] && !o.dropped[k] { return Err(format!("C08: failed sink k{k} was kept")); }
        // C01: what a sink got is one contiguous run of the accepted sequence, in order, nothing twice
        let g = &o.got[k];
        if g.is_empty() { continue; }
        let pos = match o.accepted.iter().position(|x| *x == g[0]) { Some(p) => p, None => return Err(format!("{c01}: sink k{k} got {} which no publisher stream yielded", g[0])) };
        if pos + g.len() > o.accepted.len() || o.accepted[pos..pos + g.len()] != g[..] {
            return Err(format!("{c01}: sink k{k} got {:?}, not a contiguous run of the accepted sequence {:?}", g, o.accepted));
        }
        // (where the run starts - "from the point its registration was processed" - is decided inside the
        // router and is not observable from outside; it is checked exactly by the model comparison and proved
        // as `regAt` in the Lean invariant)
    }
    // C01 (last sentence) / C09: when the topic sleeps holding no child's waker, nothing accepted may be left
    // undelivered or unflushed, and no adopted stream may still have data
    let asleep = o.last_pending && o.last_w_empty;
    if asleep || o.done {
        for k in 0..n {
            if o.failed[k] || o.adopt_by[k] == usize::MAX { continue; }
            let state = if o.done { "finished" } else { "asleep without a child's waker" };
            if !o.got[k].is_empty() && o.accepted.last() != o.got[k].last() {
                return Err(format!("{c01}/C09/C16: topic is {state} but the last accepted item was not handed to sink k{k}"));
            }
            if o.flushed[k] != o.got[k].len() {
                return Err(format!("{c01}/C09/C16: topic is {} but sink k{k} has {} items handed over and only {} flushed", if o.done { "finished" } else { "asleep without a child's waker" }, o.got[k].len(), o.flushed[k]));
            }
        }
    }
    // C09 / C16: the topic went to sleep for good (every poll after the last real one was skipped because no
    // waker fired): no registration may be left waiting in the channel, and a closed topic must have finished
    let sleeping_for_good = o.last_pending && !o.done && o.line.contains("; skip | acc=");
    // (a topic blocked on a stalled subscriber sink is waiting for that sink by design: back-pressure)
    if sleeping_for_good && !o.last_sink_pending {
        for (k, c) in o.called.iter().enumerate() {
            if !*c { return Err(format!("C09: topic sleeps (no waker will fire) while the registration of sink k{k} is still waiting in the channel")); }
        }
        for (t, c) in o.stream_polled.iter().enumerate() {
            if !*c && !o.closed { return Err(format!("C09: topic sleeps (no waker will fire) while the registration of stream t{t} is still waiting in the channel")); }
        }
        if o.closed && !o.last_sink_pending { return Err("C16: the registration channel is closed, no sink is pending, yet the topic sleeps instead of finishing".into()); }
    }
    // C09: … nor while a publisher stream it has adopted was last seen yielding (an item or an error, not Pending and
    // not its end): that stream holds no waker, so whatever it has next is never looked at
    if sleeping_for_good && !o.last_sink_pending && !o.closed {
        let calls = o.line.split(" | acc=").next().unwrap_or("");
        for t in 0..o.stream_ended.len() {
            let pre = format!("t{t}");
            let mut last: Option<char> = None;
            for seg in calls.split(" ; ") {
                let body = seg.strip_prefix("poll:").unwrap_or("").split("->").next().unwrap_or("");
                for tok in body.split(',') {
                    if let Some(rest) = tok.strip_prefix(pre.as_str()) {
                        let k = rest.chars().next().unwrap_or('?');
                        if matches!(k, 'i' | 'x' | 'p' | 'e') { last = Some(k); }
                    }
                }
            }
            if matches!(last, Some('i') | Some('x')) {
                return Err(format!("C09: topic sleeps (no waker will fire) although publisher stream t{t} was still yielding when it was last polled: what it has next is never looked at"));
            }
        }
    }
    // C01 / C08 (Sink contract): an item is only handed to a subscriber sink that has just reported readiness
    {
        let calls = o.line.split(" | acc=").next().unwrap_or("");
        let mut ready: std::collections::BTreeMap<String, bool> = Default::default();
        for seg in calls.split(" ; ") {
            let body = seg.strip_prefix("poll:").unwrap_or("").split("->").next().unwrap_or("");
            for tok in body.split(',') {
                if !tok.starts_with('k') { continue; }
                let id: String = tok[1..].chars().take_while(|c| c.is_ascii_digit()).collect();
                let rest = &tok[1 + id.len()..];
                if let Some(a) = rest.strip_prefix('r') { ready.insert(id, a.starts_with('R')); }
                else if rest.starts_with('s') {
                    if !ready.get(&id).copied().unwrap_or(false) { return Err(format!("C01/C08: an item was handed to subscriber sink k{id}, which had not reported readiness ({tok})")); }
                    ready.insert(id, false);
                }
            }
        }
    }
    // C16: bounded means bounded whatever the publishers do: once the channel is closed the router finishes with what it
    // has taken; it does not go on forwarding for as long as publishers have messages ready (c16_pubsub_shutdown_completes
    // counts polls of the router, none of which depends on a publisher running dry)
    if let Some(at) = o.accepted_at_close {
        let more = o.accepted.len() - at;
        if more > 1024 { return Err(format!("C16: after the registration channel was closed the router took {more} more messages from its publishers{}: it finishes only when they run dry, so shutdown hangs on a topic whose publishers keep sending", if o.done { " before it finished" } else { " and has not finished" })); }
    }
    // C09: bounded work per step
    // … bounded by the data available: every scripted stream answer may cost a poll of its stream plus a
    // ready / send / flush call on each subscriber
    let answers: usize = events.iter().filter(|e| e.starts_with("+t")).map(|e| e.matches(',').count() + 1).sum();
    let sinks = events.iter().filter(|e| e.starts_with("+k")).count();
    let budget = 40 + 12 * events.len() + answers * (4 * sinks + 2);
    if o.max_inner > budget { return Err(format!("C09: {} child calls inside one poll", o.max_inner)); }
    Ok(())
}

pub fn rand_stream_script(r: &mut Rng, next_item: &mut u32) -> String {
    let n = r.below(5);
    if n == 0 { return "_".into(); }
    (0..n).map(|_| match r.below(6) { 0 => "p".to_string(), 1 => "x".to_string(), _ => { *next_item += 1; format!("i{next_item}") } }).collect::<Vec<_>>().join(",")
}

pub fn gen_scenario(r: &mut Rng, fault_bias: u64) -> Vec<String> {
    let mut evs: Vec<String> = vec![];
    let mut item = 0u32;
    let n = r.below(10) + 3;
    let mut closed = false;
    for _ in 0..n {
        match r.below(9) {
            0 | 1 if !closed => { let s = crate::fanout::rand_sink_script(r, fault_bias).text(); evs.push(format!("+k{}{}", if r.chance(1, 12) { "~" } else { "" }, s)); }
            2 | 3 if !closed => { let sil = if r.chance(1, 5) { "~" } else { "" }; evs.push(format!("+t{sil}{}", rand_stream_script(r, &mut item))) }
            4 if !closed && r.chance(1, 3) => { evs.push("close".into()); closed = true; }
            _ => evs.push("poll".into()),
        }
    }
    for _ in 0..6 { evs.push("poll".into()); }
    evs
}

pub fn run(cfg: &Cfg) {
    let mut out = Out::new(&cfg.out, "pubsub");
    let mut cases: Vec<String> = vec![];
    if let Some(lines) = cfg.replay_lines() {
        cases = lines;
    } else {
        // the schedule of the flush defect, and small systematic variations around it
        for flush in ["_", "f=P", "f=PP", "f=RP", "r=P", "r=P;f=P", "s=E", "f=E", "r=E"] {
            for stream in ["i1", "i1,i2", "i1,p,i2", "_", "x,i1", "i1,x"] {
                for tail in ["poll poll poll poll", "poll close poll poll poll", "poll +ti9 poll poll poll"] {
                    cases.push(format!("ps +k{flush} +t{stream} {tail}"));
                    cases.push(format!("ps +k{flush} +k_ +t{stream} {tail}"));
                    cases.push(format!("ps +t{stream} poll +k{flush} {tail}"));
                }
            }
        }
        // registrations queued behind an idle publisher, with and without shutdown
        for first in ["+t~p", "+t~i1,p", "+t~p +k_"] {
            for more in ["+k_", "+k_ +k_", "+ti5", "+k_ +ti5,i6 +k_"] {
                for tail in ["poll poll poll", "close poll poll poll", "poll close poll poll"] {
                    cases.push(format!("ps {first} poll {more} {tail}"));
                    cases.push(format!("ps {first} {more} {tail}"));
                }
            }
        }
        // bursts of registrations (more than any per-poll allowance a router might have), drained in one poll, with
        // idle / silent / busy publishers among them, with and without shutdown behind the burst
        for n in [1usize, 7, 15, 16, 17, 31, 32, 33, 64, 98] {
            for lead in ["+t~p", "+tp", "+ti1,p", "+k_"] {
                for other in ["+tp", "+t~p", "+k_"] {
                    let burst: Vec<String> = (0..n).map(|i| if i % 5 == 4 { other.to_string() } else { "+k_".to_string() }).collect();
                    for tail in ["poll poll poll", "close poll poll poll", "poll close poll poll"] {
                        cases.push(format!("ps {lead} {} {tail}", burst.join(" ")));
                    }
                }
            }
        }
        // shutdown while a publisher has a standing backlog: the router finishes with what it has taken, it does not
        // go on draining the publisher
        // subscribers that are slow, not failed: Pending for seconds of real time, one after the other (they take turns
        // holding the same message up); nobody is evicted and nothing is lost
        cases.push("ps +kr=PRRR;s=;f=;c= +kr=PPRR;s=;f=;c= +ti1,i2,p poll z2700 poll z2700 poll poll poll poll".to_string());
        for c in ["ps +k_ +tp,i9* poll close poll poll", "ps +k_ +ti1,p,i9* poll close poll poll", "ps +k_ +k_ +tp,i9* +tp poll close poll poll", "ps +kf=P +tp,i9* poll close poll poll poll"] { cases.push(c.to_string()); }
        // long bursts of messages that are all ready at once (more than any per-poll allowance a router might
        // have): everything available must be forwarded and flushed before the router sleeps on the publisher
        for n in [63usize, 64, 65, 127, 128, 129, 130, 255, 256, 257, 1000] {
            let items: Vec<String> = (1..=n).map(|i| format!("i{i}")).collect();
            for (sinks, tail) in [("+k_", "p"), ("+k_ +k_", "p"), ("+kf=PR +k_", "p,i5000,p"), ("+k_", "")] {
                let script = if tail.is_empty() { items.join(",") } else { format!("{},{tail}", items.join(",")) };
                cases.push(format!("ps {sinks} +t{script} poll poll poll poll"));
                cases.push(format!("ps +t~{script} {sinks} poll poll poll close poll poll"));
            }
        }
        let mut r = Rng::new(cfg.seed, "pubsub");
        for _ in 0..cfg.n(4000, 200_000) {
            let bias = *r.pick(&[0u64, 0, 3, 8]);
            cases.push(format!("ps {}", gen_scenario(&mut r, bias).join(" ")));
        }
    }
    let mut hangs = 0;
    for c in &cases {
        // a router that spins costs one time-out per scenario: a handful of witnesses is enough; the rest of the
        // run is not executed (and shows up as a divergence from the model, not as a property failure)
        if hangs >= 8 { out.stat("not_run_after_8_hangs"); out.case(c, "NOT-RUN-AFTER-HANGS", Ok(())); continue; }
        // every scenario runs in the guarded child: a poll that never returns is observed as a hang
        match crate::childrun::guarded_timeout("ps", c.as_bytes(), std::time::Duration::from_millis(4000 + c.split(' ').filter_map(|t| t.strip_prefix('z')).filter_map(|m| m.parse::<u64>().ok()).sum::<u64>())) {
            crate::childrun::Outcome::Value(v) => {
                let j: serde_json::Value = serde_json::from_str(&v).expect("child answer");
                for k in j["stats"].as_array().unwrap() { out.stat(k.as_str().unwrap()); }
                if j["trivial"].as_bool().unwrap() { out.mark_trivial(); }
                let mut mon = match j["mon"].as_str() { Some("ok") => Ok(()), Some(w) => Err(w.to_string()), None => Err("?".into()) };
                // the same scenario in a process without a logger: the router does the same
                if mon.is_ok() && hangs < 8 {
                    match crate::childrun::guarded_timeout_quiet("ps", c.as_bytes(), std::time::Duration::from_secs(8)) {
                        crate::childrun::Outcome::Value(q) => {
                            let jq: serde_json::Value = serde_json::from_str(&q).expect("child answer");
                            // (the map iteration orders of the two runs differ: what is compared is that every property monitor holds there too)
                            if let Some(w) = jq["mon"].as_str() { if w != "ok" { mon = Err(format!("(no logger installed) {w}")); } }
                        }
                        crate::childrun::Outcome::Hang => { hangs += 1; mon = Err("C01/C08/C09/C16: with no logger installed a poll of the router never returned".to_string()); }
                        crate::childrun::Outcome::Panic(pn) => { mon = Err(format!("C01/C08/C09/C16: with no logger installed: panic {pn}")); }
                        crate::childrun::Outcome::Abort(a) => { mon = Err(format!("C01/C08/C09/C16: with no logger installed the process aborted: {a}")); }
                    }
                }
                out.case(j["case"].as_str().unwrap(), j["line"].as_str().unwrap(), mon);
            }
            crate::childrun::Outcome::Hang => { hangs += 1; out.stat("impl_hung"); out.case(c, "HANG", Err("C09/C16: a poll of the pub/sub router never returned (it loops without yielding)".into())); }
            crate::childrun::Outcome::Panic(p) => out.case(c, "HARNESS-PANIC", Err(format!("harness panicked: {p}"))),
            crate::childrun::Outcome::Abort(a) => out.case(c, "ABORT", Err(format!("process aborted: {a}"))),
        }
    }
    out.finish();
}

/// child side: run one scenario, answer with one JSON line
pub fn child(input: &[u8]) -> String {
    let c = String::from_utf8_lossy(input).to_string();
    let evs: Vec<&str> = c.split(' ').skip(1).collect();
    let o = run_scenario(&evs);
    let mon = monitor(&o, &evs);
    let mut stats = vec![format!("sinks_{}", o.got.len().min(4)), format!("streams_{}", o.stream_ended.len().min(4))];
    if o.done { stats.push("finished".into()); }
    if o.failed.iter().any(|f| *f) { stats.push("with_failed_sink".into()); }
    if o.line.contains("skip") { stats.push("with_skipped_poll".into()); }
    if o.got.len() + o.stream_ended.len() >= 16 { stats.push("sockets_16_or_more".into()); }
    serde_json::json!({
        "case": format!("ps {}", o.annotated.join(" ")),
        "line": o.line,
        "mon": match mon { Ok(()) => "ok".to_string(), Err(w) => w },
        "stats": stats,
        "trivial": o.accepted.is_empty(),
    }).to_string()
}
