//! C02 / C08 / C09 / C10 / C11 / C16 (request/reply half): the real `selium_server::topic::reqrep::Topic`
//! (and through it `sink::Router`) around scripted mocks, under the wake-driven executor of pubsub.rs.
//!
//!   rr <event> <event> ...
//!     +c<sinkscript>/<streamscript>   enqueue a requestor socket  (`Socket::Client`)
//!     +s<sinkscript>/<streamscript>   enqueue a replier socket    (`Socket::Server`)
//!     close | poll
//!   frames in stream scripts: `i:m7` (Message, payload 7, no headers), `i:m7[cid=0&req_id=3]`, `i:ok`, `i:e5` (Error
//!   code 5), `i:b` (BatchMessage), `i:rq` (RegisterRequestor); other answers `x` (error item), `p` (pending)
//! Children: k<id> requestor sinks, t<id> requestor streams (id = the router's client id), v<n> / w<n> the n-th
//! replier socket's sink / stream.
use crate::mock::*;
use crate::util::*;
use bytes::Bytes;
use futures::Future;
use selium_protocol::{ErrorPayload, Frame, MessagePayload, RequestorPayload, TopicName};
use selium_server::topic::reqrep::{Socket, Topic};
use std::collections::{BTreeSet, BTreeMap, HashMap, VecDeque};
use std::sync::atomic::Ordering;
use std::sync::Arc;
use std::task::{Context, Poll};

const SPIN_LIMIT: usize = 3000;
const BACKLOG: usize = 3000;

pub fn frame_tok(f: &Frame) -> String {
    match f {
        Frame::Message(p) => {
            let n = String::from_utf8_lossy(&p.message).to_string();
            match &p.headers {
                None => format!("m{n}"),
                Some(h) => {
                    let m: BTreeMap<&String, &String> = h.iter().collect();
                    format!("m{n}[{}]", m.iter().map(|(k, v)| format!("{k}={v}")).collect::<Vec<_>>().join("&"))
                }
            }
        }
        Frame::Ok => "ok".into(),
        Frame::Error(e) => format!("e{}", e.code),
        Frame::BatchMessage(_) => "b".into(),
        Frame::RegisterRequestor(_) => "rq".into(),
        _ => "other".into(),
    }
}

pub fn parse_frame_tok(t: &str) -> Frame {
    if t == "ok" { return Frame::Ok; }
    if t == "b" { return Frame::BatchMessage(Bytes::from_static(b"x")); }
    if t == "rq" { return Frame::RegisterRequestor(RequestorPayload { topic: TopicName::_create_unchecked("abc", "def") }); }
    if let Some(c) = t.strip_prefix('e') { return Frame::Error(ErrorPayload { code: c.parse().unwrap(), message: Bytes::new() }); }
    let t = t.strip_prefix('m').expect("bad frame token");
    let (n, hs) = match t.split_once('[') { Some((n, h)) => (n, Some(h.trim_end_matches(']'))), None => (t, None) };
    let headers = hs.map(|h| if h.is_empty() { HashMap::new() } else { h.split('&').map(|kv| { let (k, v) = kv.split_once('=').unwrap(); (k.to_string(), v.to_string()) }).collect() });
    Frame::Message(MessagePayload { headers, message: Bytes::from(n.to_string()) })
}

fn parse_stream(t: &str) -> VecDeque<SAns<Frame>> {
    if t == "_" || t.is_empty() { return VecDeque::new(); }
    // `i:<frame>*`: a standing backlog (the frame again and again, 3000 times)
    t.split(',').flat_map(|a| {
        if let Some(f) = a.strip_prefix("i:") {
            match f.strip_suffix('*') { Some(f) => vec![SAns::Item(parse_frame_tok(f)); BACKLOG], None => vec![SAns::Item(parse_frame_tok(f))] }
        } else if a == "x" { vec![SAns::Err] } else { vec![SAns::Pending] }
    }).collect()
}

/// Mock ids: requestor sockets use the router's client id for both halves; replier sockets are numbered by
/// arrival and their mocks carry id 1000+n so that the two kinds cannot be confused in the shared log.
const V: usize = 1000;

fn who(i: usize, sink: bool) -> String {
    if i >= V { format!("{}{}", if sink { 'v' } else { 'w' }, i - V) } else { format!("{}{}", if sink { 'k' } else { 't' }, i) }
}

fn tag(e: &Ev<Frame>) -> String {
    match e {
        Ev::SinkReady(i, a) => format!("{}r{}", who(*i, true), a.ch()),
        Ev::SinkSend(i, t, ok) => format!("{}s{}{}", who(*i, true), frame_tok(t), if *ok { 'O' } else { 'E' }),
        Ev::SinkFlush(i, a) => format!("{}f{}", who(*i, true), a.ch()),
        Ev::SinkClose(i, a) => format!("{}c{}", who(*i, true), a.ch()),
        Ev::StreamItem(i, t) => format!("{}i:{}", who(*i, false), frame_tok(t)),
        Ev::StreamErr(i) => format!("{}x", who(*i, false)),
        Ev::StreamPending(i) => format!("{}p", who(*i, false)),
        Ev::StreamEnd(i) => format!("{}e", who(*i, false)),
        Ev::Dropped(_, i) => format!("d{}", who(*i, true)),
    }
}

pub struct Obs {
    /// `events.len()` after every poll that returned Pending without any sink having answered Pending in it (the router
    /// is waiting for streams or for the registration channel only: nobody's sink holds its waker)
    pub rest_points: Vec<usize>,
    /// the child events of each executed poll, as a range of `events`
    pub poll_ranges: Vec<(usize, usize)>,
    /// per mock id: the stream script as given ('i' item, 'x' error item, 'p' pending), in the order it is consumed
    pub scripts: BTreeMap<usize, Vec<char>>,
    pub line: String,
    pub annotated: Vec<String>,
    pub panicked: Option<String>,
    pub spun: bool,
    pub done: bool,
    pub events: Vec<Ev<Frame>>,
    pub n_clients: usize,
    pub n_servers: usize,
    pub last_pending: bool,
    pub sleeping_for_good: bool,
    pub last_any_child_pending: bool,
    /// a sink (not a stream) answered Pending in the last poll; a poll has happened since the channel was closed
    pub last_sink_pending: bool,
    pub polled_after_close: bool,
    /// for replier n: how many child events had happened when its registration was sent into the channel
    pub server_enq_at: Vec<usize>,
    /// how many child events had happened when the last executed poll began
    pub last_poll_start: usize,
    pub closed: bool,
    /// how many child events had happened when the registration channel was closed
    pub closed_at: Option<usize>,
}

pub fn run_scenario(events: &[&str]) -> Obs {
    let log = new_log::<Frame>();
    let (topic, mut tx) = Topic::<String>::pair();
    let mut topic = Box::pin(topic);
    let wk = Arc::new(CountWake(Default::default()));
    let waker = wk.clone().into();
    let mut cx = Context::from_waker(&waker);
    let mut segs: Vec<String> = vec![];
    let mut o = Obs { poll_ranges: vec![], scripts: BTreeMap::new(), rest_points: vec![], line: String::new(), annotated: vec![], panicked: None, spun: false, done: false, events: vec![], n_clients: 0, n_servers: 0, last_pending: false, sleeping_for_good: false, last_any_child_pending: false, last_sink_pending: false, polled_after_close: false, closed: false, closed_at: None, server_enq_at: vec![], last_poll_start: 0 };
    let mut first = true;
    // every turn of the router's loop consumes a scripted answer or a registration: a poll that makes more child calls
    // than a generous multiple of all there is to consume is spinning
    let spin_limit = SPIN_LIMIT + 10 * events.iter().map(|e| e.matches(',').count() + 1 + BACKLOG * e.matches('*').count()).sum::<usize>();
    for ev in events {
        if o.done || o.panicked.is_some() { o.annotated.push(ev.split('@').next().unwrap().to_string()); continue; }
        if !ev.starts_with("poll") { o.annotated.push(ev.to_string()); }
        if ev.starts_with("+c") || ev.starts_with("+s") {
            let body = &ev[2..];
            let (silent, body) = match body.strip_prefix('~') { Some(r) => (true, r), None => (false, body) };
            let (ks, ts) = body.split_once('/').expect("socket needs sink/stream scripts");
            let is_client = ev.starts_with("+c");
            let id = if is_client { o.n_clients } else { V + o.n_servers };
            if is_client { o.n_clients += 1 } else { o.n_servers += 1; o.server_enq_at.push(o.events.len()); }
            o.scripts.insert(id, parse_stream(ts).iter().map(|a| match a { SAns::Item(_) => 'i', SAns::Err => 'x', _ => 'p' }).collect());
            let si = MockSink { id, kind: 'k', script: SinkScript::parse(ks), log: log.clone(), silent };
            let st = MockStream { id, kind: 't', script: parse_stream(ts), log: log.clone(), silent };
            let sock = if is_client { Socket::Client((Box::pin(si), Box::pin(st))) } else { Socket::Server((Box::pin(si), Box::pin(st))) };
            tx.try_send(sock).map_err(|_| "full").expect("registration channel full");
        } else if *ev == "close" {
            tx.close_channel();
            o.closed = true;
            o.closed_at = Some(o.events.len());
        } else if ev.starts_with("poll") {
            let ws: Vec<_> = std::mem::take(&mut log.lock().unwrap_or_else(|e| e.into_inner()).wakers);
            for (_, _, w) in ws { w.wake(); }
            if !first && wk.0.load(Ordering::SeqCst) == 0 { segs.push("skip".into()); o.annotated.push("poll".into()); o.sleeping_for_good = true; continue; }
            o.sleeping_for_good = false;
            first = false;
            wk.0.store(0, Ordering::SeqCst);
            let start = log.lock().unwrap_or_else(|e| e.into_inner()).events.len();
            o.last_poll_start = o.events.len();
            log.lock().unwrap_or_else(|e| e.into_inner()).spin_guard = Some(start + spin_limit);
            let res = catch(|| topic.as_mut().poll(&mut cx));
            log.lock().unwrap_or_else(|e| e.into_inner()).spin_guard = None;
            let evs: Vec<Ev<Frame>> = log.lock().unwrap_or_else(|e| e.into_inner()).events[start..].to_vec();
            let sorder: Vec<String> = evs.iter().filter_map(|e| match e { Ev::StreamItem(i, _) | Ev::StreamErr(i) | Ev::StreamPending(i) | Ev::StreamEnd(i) if *i < V => Some(i.to_string()), _ => None }).collect();
            let korder: Vec<String> = evs.iter().filter_map(|e| match e { Ev::SinkReady(i, _) | Ev::SinkFlush(i, _) | Ev::SinkClose(i, _) if *i < V => Some(i.to_string()), _ => None }).collect();
            let mut ann = "poll".to_string();
            if !sorder.is_empty() || !korder.is_empty() { ann = format!("poll@{}@{}", if sorder.is_empty() { "-".into() } else { sorder.join(".") }, if korder.is_empty() { "-".into() } else { korder.join(".") }); }
            o.annotated.push(ann);
            o.last_sink_pending = evs.iter().any(|e| matches!(e, Ev::SinkReady(_, A::Pending) | Ev::SinkFlush(_, A::Pending) | Ev::SinkClose(_, A::Pending)));
            if o.closed { o.polled_after_close = true; }
            o.last_any_child_pending = evs.iter().any(|e| matches!(e, Ev::SinkReady(_, A::Pending) | Ev::SinkFlush(_, A::Pending) | Ev::SinkClose(_, A::Pending) | Ev::StreamPending(_)));
            let holders: Vec<String> = log.lock().unwrap_or_else(|e| e.into_inner()).wakers.iter().map(|(c, i, _)| who(*i, *c == 'k')).collect();
            let r = match res {
                Ok(Poll::Pending) => { o.last_pending = true; "P" }
                Ok(Poll::Ready(())) => { o.done = true; o.last_pending = false; "D" }
                Err(p) => { if p.contains("SPIN") { o.spun = true; } o.panicked = Some(p); "PANIC" }
            };
            let shown: Vec<String> = evs.iter().take(if o.spun { 40 } else { usize::MAX }).map(tag).collect();
            segs.push(format!("poll:{}->{r}[w:{}]", shown.join(","), holders.join(",")));
            let from = o.events.len();
            o.events.extend(evs);
            o.poll_ranges.push((from, o.events.len()));
            if r == "P" && !o.last_sink_pending { o.rest_points.push(o.events.len()); }
        } else {
            panic!("bad reqrep event {ev}");
        }
    }
    o.line = segs.join(" ; ");
    std::mem::forget(topic);
    o
}

/// property monitors on what the implementation did
pub fn monitor(o: &Obs) -> Result<(), String> {
    if o.spun { return Err(format!("C09: more than {SPIN_LIMIT} + 10 per scripted answer child calls inside one poll: the router spins instead of yielding")); }
    if let Some(p) = &o.panicked { return Err(format!("C02/C04/C08/C09/C10/C11/C16: polling the request/reply router panicked: {p}")); }
    // ---- reconstruct the exchange
    let mut taken: Vec<(usize, Frame)> = vec![];          // requests yielded by requestor streams
    let mut handed: Vec<(usize, Frame)> = vec![];         // (replier n, frame) accepted by a replier sink
    let mut replies: Vec<Frame> = vec![];                 // frames yielded by replier streams
    let mut delivered: BTreeMap<usize, Vec<Frame>> = BTreeMap::new();
    let mut failed: BTreeMap<usize, bool> = BTreeMap::new();
    let mut rejected_seen: BTreeMap<usize, Vec<String>> = BTreeMap::new();
    let mut taken_at: Vec<usize> = vec![];                // event index at which each of them was taken
    let mut refused: Vec<Frame> = vec![];                 // requests a replier's sink refused (start_send error)
    for (idx, e) in o.events.iter().enumerate() {
        match e {
            Ev::StreamItem(i, f) if *i < V => { taken.push((*i, f.clone())); taken_at.push(idx); }
            Ev::SinkSend(i, f, false) if *i >= V => { refused.push(f.clone()); failed.insert(*i, true); rejected_seen.entry(*i - V).or_default().push(format!("s{}", frame_tok(f))); }
            Ev::StreamItem(_, f) => replies.push(f.clone()),
            Ev::SinkSend(i, f, ok) if *i >= V => { if *ok { handed.push((*i - V, f.clone())); } else { failed.insert(*i, true); } rejected_seen.entry(*i - V).or_default().push(format!("s{}", frame_tok(f))); }
            Ev::SinkSend(i, f, ok) => { if *ok { delivered.entry(*i).or_default().push(f.clone()); } else { failed.insert(*i, true); } }
            Ev::SinkReady(i, a) | Ev::SinkFlush(i, a) | Ev::SinkClose(i, a) => {
                if *a == A::Err { failed.insert(*i, true); }
                if *i >= V { if let Ev::SinkClose(_, a) = e { rejected_seen.entry(*i - V).or_default().push(format!("c{}", a.ch())); } }
            }
            _ => {}
        }
    }
    // C02: what a replier was handed is a request that was taken, tagged with the router's id for its sender,
    // each at most once, in each requestor's order
    let mut cursor: BTreeMap<usize, usize> = BTreeMap::new();
    for (n, f) in &handed {
        if let Frame::Error(_) = f { continue; } // rejection notice to a late replier, checked below
        let p = match f { Frame::Message(p) => p, other => return Err(format!("C02/C11: replier v{n} was handed a non-message frame {}", frame_tok(other))) };
        let cid = p.headers.as_ref().and_then(|h| h.get("cid")).cloned();
        let cid: usize = match cid.and_then(|c| c.parse().ok()) { Some(c) => c, None => return Err(format!("C02/C04: request handed to replier v{n} carries no usable origin tag: {}", frame_tok(f))) };
        // find the next untaken request of that requestor
        let reqs: Vec<(&Frame, usize)> = taken.iter().zip(taken_at.iter()).filter(|((i, fr), _)| *i == cid && matches!(fr, Frame::Message(_))).map(|((_, f), at)| (f, *at)).collect();
        let cur = cursor.entry(cid).or_insert(0);
        let mut found = false;
        let mut skipped: Vec<(&Frame, usize)> = vec![];
        while *cur < reqs.len() {
            let r = match reqs[*cur].0 { Frame::Message(r) => r, _ => unreachable!() };
            *cur += 1;
            let mut want = r.headers.clone().unwrap_or_default();
            want.insert("cid".into(), cid.to_string());
            if r.message == p.message && Some(&want) == p.headers.as_ref() { found = true; break; }
            skipped.push(reqs[*cur - 1]);
        }
        // exactly once while a replier is bound and stays bound: a request of the same requestor that was passed over
        // must have been taken before this replier registered (nobody was bound: the slot is overwritten), or have
        // been refused by a replier's sink (it outgrew the frame limit when tagged)
        if found {
            for (sf, at) in skipped {
                let enq = o.server_enq_at.get(*n).copied().unwrap_or(0);
                let was_refused = refused.iter().any(|rf| match (rf, sf) { (Frame::Message(a), Frame::Message(b)) => a.message == b.message, _ => false });
                if at >= enq && !was_refused {
                    return Err(format!("C02: request {} of requestor {cid} was taken while replier v{n} was bound, yet a later request of the same requestor was handed to v{n} and this one never was (dropped or overwritten while the replier was busy)", frame_tok(sf)));
                }
            }
        }
        if !found { return Err(format!("C02/C04: replier v{n} was handed {} which is not (the next) request of requestor {cid} with the origin tag overwritten (duplicate, reordered, forged or altered)", frame_tok(f))); }
    }
    // C02: every delivered reply is a reply the replier emitted for that requestor, tag stripped, rest intact, once
    let mut used = vec![false; replies.len()];
    for (k, fs) in &delivered {
        for f in fs {
            let p = match f { Frame::Message(p) => p, other => return Err(format!("C02: requestor k{k} was handed a non-message frame {}", frame_tok(other))) };
            let mut found = false;
            for (j, r) in replies.iter().enumerate() {
                if used[j] { continue; }
                if let Frame::Message(rp) = r {
                    let mut h = rp.headers.clone().unwrap_or_default();
                    let cid = h.remove("cid");
                    let rest = if h.is_empty() { None } else { Some(h) };
                    // the tag names requestor k when it parses to k the way the Router parses it (`str::parse::<usize>`: "+0", "00" are 0)
                    if cid.as_deref().and_then(|c| c.parse::<usize>().ok()) == Some(*k) && rp.message == p.message && rest == p.headers { used[j] = true; found = true; break; }
                }
            }
            if !found { return Err(format!("C02/C04/C08: requestor k{k} was handed {} which no replier emitted for it (misrouted, duplicated or altered)", frame_tok(f))); }
        }
    }
    // C02: no reply for a connected, healthy requestor is dropped — checked when the router is at rest
    // (a router blocked on a stalled peer's sink is waiting for that peer by design - head-of-line blocking,
    // upstream issue #148 - so only a router that is waiting for nobody is judged)
    let at_rest = o.done || (o.last_pending && !o.last_any_child_pending);
    if at_rest && !o.done {
        for (j, r) in replies.iter().enumerate() {
            if used[j] { continue; }
            if let Frame::Message(rp) = r {
                if let Some(cid) = rp.headers.as_ref().and_then(|h| h.get("cid")).and_then(|c| c.parse::<usize>().ok()) {
                    if cid < o.n_clients && !failed.get(&cid).copied().unwrap_or(false) && adopted_before(o, cid, r) {
                        return Err(format!("C02/C08: reply {} for connected requestor k{cid} was never delivered (dropped or overwritten)", frame_tok(r)));
                    }
                }
            }
        }
    }
    // C10: a replier that registered while another was bound gets exactly the already-bound error, then close
    let bound: Vec<usize> = handed.iter().filter(|(_, f)| matches!(f, Frame::Message(_))).map(|(n, _)| *n).collect();
    for (n, seen) in &rejected_seen {
        let got_err = seen.iter().any(|s| s.starts_with("se"));
        if got_err {
            if bound.contains(n) { return Err(format!("C10: replier v{n} was both served requests and rejected")); }
            if seen.iter().filter(|s| s.starts_with('s')).count() != 1 || !seen.iter().any(|s| s == "se5") { return Err(format!("C10: rejected replier v{n} was sent {:?}, not exactly the replier-already-bound error", seen)); }
            if at_rest && !seen.iter().any(|s| s == "cR" || s == "cE") && !failed.get(&(V + n)).copied().unwrap_or(false) && !o.last_any_child_pending {
                return Err(format!("C10: rejected replier v{n} was told so but never closed"));
            }
        }
    }
    // C10 / C11: no replier is dropped in silence - a replier the router let go of was either bound at some point (its
    // stream was polled, or it was handed requests) or was told that another one is bound
    for n in 0..o.n_servers {
        let id = V + n;
        let dropped = o.events.iter().any(|e| matches!(e, Ev::Dropped(_, i) if *i == id));
        if !dropped || o.done { continue; }
        let was_bound = o.events.iter().any(|e| match e {
            Ev::StreamItem(i, _) | Ev::StreamPending(i) | Ev::StreamErr(i) | Ev::StreamEnd(i) => *i == id,
            Ev::SinkSend(i, Frame::Message(_), _) => *i == id,
            _ => false,
        });
        let told = o.events.iter().any(|e| matches!(e, Ev::SinkSend(i, Frame::Error(_), _) if *i == id));
        let sink_failed = failed.get(&id).copied().unwrap_or(false);
        if !was_bound && !told && !sink_failed {
            return Err(format!("C10/C11: replier v{n} was accepted and then dropped without ever being bound or told that another replier is bound"));
        }
    }
    // C08 / C10: a replier whose sink failed when asked for readiness is unbound at once, so the next one to
    // register binds: a replier must not be told "already bound" when every replier before it had failed, been dropped or
    // been rejected before its own registration was even sent
    let mut gone_at: BTreeMap<usize, usize> = BTreeMap::new(); // replier n -> index of the event after which it cannot be bound
    let mut ended: BTreeSet<usize> = BTreeSet::new();           // repliers whose stream has reported its end
    for (idx, e) in o.events.iter().enumerate() {
        match e {
            Ev::StreamEnd(i) if *i >= V => { ended.insert(*i - V); }
            // a replier whose sink fails while it is being flushed is unbound on the spot, like one that fails at readiness
            // (a flush error of a replier that is leaving anyway - its stream has ended - only warns; that one is unbound
            // once the requestors are flushed, and its drop is what counts)
            Ev::SinkFlush(i, A::Err) if *i >= V && !ended.contains(&(*i - V)) => { gone_at.entry(*i - V).or_insert(idx); }
            Ev::SinkReady(i, A::Err) if *i >= V => { gone_at.entry(*i - V).or_insert(idx); }
            // (a replier whose stream ended stays bound until the flush towards it completes: only its drop counts)
            Ev::Dropped(_, i) if *i >= V => { gone_at.entry(*i - V).or_insert(idx); }
            Ev::SinkSend(i, Frame::Error(_), _) if *i >= V => {
                let m = *i - V;
                let enq = o.server_enq_at.get(m).copied().unwrap_or(usize::MAX);
                if m > 0 && (0..m).all(|n| gone_at.get(&n).map(|g| *g < enq).unwrap_or(false)) {
                    return Err(format!("C08/C10: replier v{m} was rejected as already-bound although every earlier replier had failed, been dropped or been rejected before v{m} registered (a failed replier was not unbound)"));
                }
                gone_at.entry(m).or_insert(idx);
            }
            _ => {}
        }
    }
    // C08 / C10 / C11: the router lets go of a socket only for cause. A replier is unbound when its stream ends (or fails),
    // when its sink fails, or when it is turned away as a second replier; a requestor's sink is dropped when that sink
    // fails. Nothing another peer does — a requestor failing, leaving or arriving, a reply that can no longer be
    // routed — costs a healthy peer its place (c08_*: only the failing child is evicted)
    for (idx, e) in o.events.iter().enumerate() {
        if let Ev::Dropped(_, id) = e {
            let before = &o.events[..idx];
            let cause = before.iter().any(|b| match b {
                Ev::SinkReady(i, A::Err) | Ev::SinkFlush(i, A::Err) | Ev::SinkClose(i, A::Err) => i == id,
                Ev::SinkSend(i, Frame::Error(_), _) if *id >= V => i == id,
                Ev::SinkSend(i, _, false) => i == id && *id < V,
                Ev::StreamEnd(i) | Ev::StreamErr(i) => i == id && *id >= V,
                _ => false,
            });
            // (a requestor whose own stream has ended and to whom no reply is owed - every request taken from it has been
            // answered to its sink - may be let go of as well: that is housekeeping, not abandonment)
            let settled = *id < V && before.iter().any(|b| matches!(b, Ev::StreamEnd(i) if i == id)) && {
                let asked = before.iter().filter(|b| matches!(b, Ev::StreamItem(i, Frame::Message(_)) if i == id)).count();
                let answered = before.iter().filter(|b| matches!(b, Ev::SinkSend(i, _, true) if i == id)).count();
                asked <= answered
            };
            if !cause && !settled && !o.done {
                return Err(if *id >= V {
                    format!("C08/C10: replier v{} was unbound although its stream had not ended, its sink had not failed and it had not been turned away: what another peer did cost the topic its replier", *id - V)
                } else {
                    format!("C08/C11: requestor k{id} was dropped by the router although its sink never failed: it was accepted, and then abandoned because of what another peer did")
                });
            }
        }
    }
    // C11: a request the replier's sink refuses (it no longer fits the frame limit once tagged) is dropped, nothing
    // else: the replier stays bound
    for (idx, e) in o.events.iter().enumerate() {
        if let Ev::SinkSend(i, Frame::Message(_), false) = e {
            if *i >= V {
                for later in &o.events[idx + 1..] {
                    match later {
                        Ev::SinkReady(j, A::Err) | Ev::SinkFlush(j, A::Err) | Ev::StreamEnd(j) if j == i => break,
                        Ev::SinkSend(j, _, false) if j == i => break,
                        Ev::Dropped(_, j) if j == i => return Err(format!("C11: replier v{} was unbound because its sink refused one request (a frame that outgrew the limit when tagged): the topic no longer serves anybody", *i - V)),
                        _ => {}
                    }
                }
            }
        }
    }
    // C09 / C10: a router that sleeps while a replier is bound watches that replier's stream (its messages and its
    // departure are what re-binding depends on)
    if at_rest && !o.done && !o.closed {
        for n in 0..o.n_servers {
            let enq = o.server_enq_at[n];
            let dropped = o.events.iter().any(|e| matches!(e, Ev::Dropped(_, i) if *i == V + n));
            let rejected = rejected_seen.get(&n).map(|s| s.iter().any(|x| x.starts_with("se"))).unwrap_or(false);
            if enq <= o.last_poll_start && !dropped && !rejected && (0..n).all(|m| gone_at.contains_key(&m)) {
                return Err(format!("C09/C10: the router sleeps, with nobody holding its waker, although replier v{n} is registered and neither served nor rejected nor gone: its stream is not being watched"));
            }
        }
    }
    // C09: a router that sleeps for good (no waker will fire), blocked on nobody, must not have left a stream it was
    // polling in mid-flow: a requestor stream, or the bound replier's stream, that was last seen yielding (an item
    // or an error, not Pending and not its end) holds no waker - what it has next is never looked at
    if o.sleeping_for_good && !o.done && !o.closed && !o.last_any_child_pending {
        let mut last: BTreeMap<usize, char> = BTreeMap::new();
        let mut gone: BTreeMap<usize, bool> = BTreeMap::new();
        for e in &o.events {
            match e {
                Ev::StreamItem(i, _) => { last.insert(*i, 'i'); }
                Ev::StreamErr(i) => { last.insert(*i, 'x'); }
                Ev::StreamPending(i) => { last.insert(*i, 'p'); }
                Ev::StreamEnd(i) => { last.insert(*i, 'e'); }
                Ev::Dropped(_, i) => { gone.insert(*i, true); }
                _ => {}
            }
        }
        for (i, k) in &last {
            if (*k == 'i' || *k == 'x') && !gone.get(i).copied().unwrap_or(false) {
                let who = if *i >= V { format!("replier v{}", *i - V) } else { format!("requestor k{i}") };
                return Err(format!("C09: the router sleeps (no waker will fire) although the stream of {who} was still yielding when it was last polled: what it has next is never looked at"));
            }
        }
    }
    // C09: … nor with something handed to a healthy peer's sink and not flushed: nothing will wake the router to
    // flush it (a reply that sits in a requestor's write buffer, a request in the replier's)
    if o.sleeping_for_good && !o.done && !o.last_any_child_pending {
        let mut unflushed: BTreeMap<usize, usize> = BTreeMap::new();
        let mut gone: BTreeMap<usize, bool> = BTreeMap::new();
        for e in &o.events {
            match e {
                Ev::SinkSend(i, _, true) => { *unflushed.entry(*i).or_insert(0) += 1; }
                Ev::SinkFlush(i, A::Ready) => { unflushed.insert(*i, 0); }
                Ev::Dropped(_, i) => { gone.insert(*i, true); }
                _ => {}
            }
        }
        for (i, n) in &unflushed {
            if *n > 0 && !gone.get(i).copied().unwrap_or(false) && !failed.get(i).copied().unwrap_or(false) {
                let who = if *i >= V { format!("replier v{}", *i - V) } else { format!("requestor k{i}") };
                return Err(format!("C09: the router sleeps (no waker will fire) with {n} frame(s) handed to the sink of {who} and never flushed"));
            }
        }
    }
    // C09 (c09_reqrep_no_unflushed_work / c09_reqrep_idle_means_flushed), at every poll and not only at the end of the
    // scenario: whenever the router returns Pending without being blocked on a sink, nothing handed to a healthy requestor's
    // sink or to the bound replier's sink is left unflushed — no sink holds the waker, so nothing would ever flush it
    for end in &o.rest_points {
        let mut unflushed: BTreeMap<usize, usize> = BTreeMap::new();
        let mut gone: BTreeMap<usize, bool> = BTreeMap::new();
        let mut bad: BTreeMap<usize, bool> = BTreeMap::new();
        for e in &o.events[..*end] {
            match e {
                Ev::SinkSend(i, _, true) => { *unflushed.entry(*i).or_insert(0) += 1; }
                Ev::SinkSend(i, _, false) => { bad.insert(*i, true); }
                Ev::SinkFlush(i, A::Ready) | Ev::SinkClose(i, A::Ready) => { unflushed.insert(*i, 0); }
                Ev::SinkReady(i, A::Err) | Ev::SinkFlush(i, A::Err) | Ev::SinkClose(i, A::Err) => { bad.insert(*i, true); }
                Ev::Dropped(_, i) => { gone.insert(*i, true); }
                _ => {}
            }
        }
        for (i, n) in &unflushed {
            if *n > 0 && !gone.get(i).copied().unwrap_or(false) && !bad.get(i).copied().unwrap_or(false) {
                let who = if *i >= V { format!("replier v{}", *i - V) } else { format!("requestor k{i}") };
                return Err(format!("C02/C09: the router returned Pending, blocked on no sink, with {n} frame(s) handed to the sink of {who} and not flushed (that sink holds no waker: a wake-driven executor never gets them flushed)"));
            }
        }
    }
    // … nor with anything left unread that a stream has ready while a replier is bound: with a replier bound and no sink
    // in the way the router's loop only stops when every stream it holds has answered Pending (its waker is there)
    // (c09_reqrep_wake_driven_executor_unblocks: whatever is ready is taken before the router parks)
    for end in &o.rest_points {
        let mut consumed: BTreeMap<usize, usize> = BTreeMap::new();
        let mut over: BTreeSet<usize> = BTreeSet::new();     // streams that ended or failed, sockets dropped, sinks that failed
        let mut seen: BTreeSet<usize> = BTreeSet::new();
        let mut parked: BTreeSet<usize> = BTreeSet::new();   // streams whose last answer was Pending: they hold the router's waker
        for e in &o.events[..*end] {
            match e {
                Ev::StreamPending(i) => { *consumed.entry(*i).or_insert(0) += 1; seen.insert(*i); parked.insert(*i); }
                Ev::StreamItem(i, _) => { *consumed.entry(*i).or_insert(0) += 1; seen.insert(*i); parked.remove(i); }
                Ev::StreamErr(i) => { *consumed.entry(*i).or_insert(0) += 1; seen.insert(*i); parked.remove(i); if *i >= V { over.insert(*i); } }
                Ev::StreamEnd(i) => { over.insert(*i); }
                Ev::Dropped(_, i) => { over.insert(*i); }
                Ev::SinkSend(i, _, false) => { over.insert(*i); }
                Ev::SinkReady(i, A::Err) | Ev::SinkFlush(i, A::Err) | Ev::SinkClose(i, A::Err) => { if *i >= V { over.insert(*i); } }
                _ => {}
            }
        }
        let bound = (0..o.n_servers).map(|n| V + n).find(|id| seen.contains(id) && !over.contains(id));
        if let Some(b) = bound {
            for (id, script) in &o.scripts {
                if !seen.contains(id) || over.contains(id) || parked.contains(id) { continue; }
                if *id >= V && *id != b { continue; }
                let k = consumed.get(id).copied().unwrap_or(0);
                if matches!(script.get(k), Some('i') | Some('x')) {
                    return Err(format!("C02/C09/C10: the router returned Pending, blocked on no sink, with replier v{} bound, and left what {} has ready unread (nothing will wake it for that)", b - V, who(*id, false)));
                }
            }
        }
    }
    // C09: a sink that answers Pending holds the router's waker: the step ends there (every readiness / flush / close of a
    // sink is awaited with `ready!`). A step in which the same sink answers Pending again and again is looping on a busy
    // peer instead of yielding — for as long as the peer stays busy (four times: no bounded second look explains that)
    for (a, b) in &o.poll_ranges {
        let mut busy: BTreeMap<usize, usize> = BTreeMap::new();
        for e in &o.events[*a..*b] {
            if let Ev::SinkReady(i, A::Pending) | Ev::SinkFlush(i, A::Pending) | Ev::SinkClose(i, A::Pending) = e {
                let n = busy.entry(*i).or_insert(0);
                *n += 1;
                if *n >= 4 { return Err(format!("C09: within one step {} answered Pending {n} times (it held the waker from the first): the step loops on a busy peer instead of yielding", who(*i, true))); }
            }
        }
    }
    // C08: a peer that has failed is let go of: once a sink has answered with an error (or refused the rejection meant for it)
    // the router does not call it again — whatever it would have to wait for there (a close that never completes, a flush)
    // is no longer anybody's business, and nobody else waits behind it
    {
        let mut failed_at: BTreeMap<usize, usize> = BTreeMap::new();
        let mut ended_streams: BTreeSet<usize> = BTreeSet::new();
        for (idx, e) in o.events.iter().enumerate() {
            match e {
                Ev::SinkReady(i, a) | Ev::SinkFlush(i, a) | Ev::SinkClose(i, a) => {
                    if let Some(at) = failed_at.get(i) { if idx > *at { return Err(format!("C08/C10: {} had failed (it answered with an error) and the router went on calling it: a failed peer is let go of, nothing waits for it", who(*i, true))); } }
                    // (a replier whose stream has ended is leaving anyway: an error of the farewell flush only warns, and that
                    // flush is repeated if the requestors' flush behind it was Pending)
                    if *a == A::Err && !(matches!(e, Ev::SinkFlush(..)) && ended_streams.contains(i)) { failed_at.entry(*i).or_insert(idx); }
                }
                Ev::SinkSend(i, _, _) => {
                    if let Some(at) = failed_at.get(i) { if idx > *at { return Err(format!("C08/C10: {} had failed (it answered with an error) and the router went on handing it frames", who(*i, true))); } }
                }
                Ev::StreamEnd(i) => { ended_streams.insert(*i); }
                _ => {}
            }
        }
    }
    // C16: bounded whatever the peers do: once the channel is closed the router finishes with what it has taken; it does not
    // go on serving for as long as requestors (or the replier) have frames ready (c16_reqrep_shutdown_completes)
    if let Some(at) = o.closed_at {
        let more = o.events[at..].iter().filter(|e| matches!(e, Ev::StreamItem(..))).count();
        if more > 1024 { return Err(format!("C16: after the registration channel was closed the router took {more} more frames from its peers{}: it finishes only when they run dry, so shutdown hangs on a topic whose peers keep sending", if o.done { " before it finished" } else { " and has not finished" })); }
    }
    // C16: … and when it finishes, every reply it had handed to a requestor's sink has been flushed (c16_reqrep_done_flushed)
    if o.done {
        let mut unflushed: BTreeMap<usize, usize> = BTreeMap::new();
        let mut gone: BTreeMap<usize, bool> = BTreeMap::new();
        for e in &o.events {
            match e {
                Ev::SinkSend(i, _, true) => { *unflushed.entry(*i).or_insert(0) += 1; }
                Ev::SinkFlush(i, A::Ready) => { unflushed.insert(*i, 0); }
                Ev::Dropped(_, i) => { gone.insert(*i, true); }
                _ => {}
            }
        }
        for (i, n) in &unflushed {
            if *i < V && *n > 0 && !gone.get(i).copied().unwrap_or(false) && !failed.get(i).copied().unwrap_or(false) {
                return Err(format!("C16: the router finished with {n} frame(s) handed to the sink of requestor k{i} and never flushed"));
            }
        }
    }
    // C16: once the registration channel is closed the router finishes whatever its streams are doing (a replier that
    // stays silent, requests still unanswered): only a sink that cannot take data may delay it
    if o.closed && o.polled_after_close && !o.done && o.panicked.is_none() && !o.last_sink_pending {
        return Err("C16: the registration channel is closed and no sink is pending, yet the router did not finish when polled".into());
    }
    // C02 / C08 (Sink contract): a frame is only handed to a sink that has just reported readiness — handing one to a
    // sink that answered Pending is how a slow peer's frame gets dropped (or its back-pressure ignored)
    {
        let mut ready: BTreeMap<usize, bool> = BTreeMap::new();
        for e in &o.events {
            match e {
                Ev::SinkReady(i, a) => { ready.insert(*i, *a == A::Ready); }
                Ev::SinkSend(i, f, _) => {
                    if !ready.get(i).copied().unwrap_or(false) {
                        let who = if *i >= V { format!("replier v{}", *i - V) } else { format!("requestor k{i}") };
                        return Err(format!("C02/C08: {} was handed to the sink of {who}, which had not reported readiness (its last poll_ready answered Pending or it was never asked)", frame_tok(f)));
                    }
                    ready.insert(*i, false);
                }
                _ => {}
            }
        }
    }
    // C09 / C16
    if o.sleeping_for_good && o.closed && !o.done && !o.last_any_child_pending { return Err("C16: the registration channel is closed and nothing is pending, yet the router sleeps instead of finishing".into()); }
    Ok(())
}

/// was requestor `cid` certainly adopted before reply `r` was taken from the replier? (it is if some request of
/// it had been taken before)
fn adopted_before(o: &Obs, cid: usize, r: &Frame) -> bool {
    let mut seen_req = false;
    for e in &o.events {
        match e {
            Ev::StreamItem(i, _) | Ev::StreamPending(i) | Ev::StreamErr(i) | Ev::StreamEnd(i) if *i == cid => seen_req = true,
            Ev::StreamItem(i, f) if *i >= V && f == r => return seen_req,
            _ => {}
        }
    }
    false
}

fn rand_frame(r: &mut Rng, n: &mut u32, for_reply_to: Option<u64>) -> String {
    *n += 1;
    match for_reply_to {
        Some(clients) => match r.below(16) {
            0 => format!("m{n}"),                                   // no headers at all
            1 => format!("m{n}[cid=zz]"),                           // malformed tag
            2 => format!("m{n}[cid=77]"),                           // unknown tag
            3 => "ok".into(),
            4 => format!("m{n}[cid={}&req_id={}]", r.below(clients.max(1)), r.below(5)),
            5 => format!("m{n}[req_id={}]", r.below(5)),            // headers, but no tag among them
            6 => format!("m{n}[]"),                                 // an empty header map
            7 => format!("m{n}[{}={}]", r.pick(&["Cid", "CID", "cid_", "xcid", "ci"]), r.below(clients.max(1))),   // near-miss header names
            8 => format!("m{n}[cid={}]", r.pick(&["+0", "00", "-0", "0_", "0.0", "0x0", "", "18446744073709551616"])), // odd spellings of a number
            _ => format!("m{n}[cid={}]", r.below(clients.max(1))),
        },
        None => match r.below(10) {
            0 => format!("m{n}[cid=5]"),                            // forged origin
            1 => format!("m{n}[req_id={}]", r.below(4)),
            2 => "ok".into(),
            3 => "b".into(),
            4 => format!("m{n}[cid=0&x=y]"),
            _ => format!("m{n}"),
        },
    }
}

fn rand_stream(r: &mut Rng, n: &mut u32, reply_clients: Option<u64>) -> String {
    let k = r.below(5);
    if k == 0 { return "_".into(); }
    (0..k).map(|_| match r.below(6) { 0 => "p".to_string(), 1 => "x".to_string(), _ => format!("i:{}", rand_frame(r, n, reply_clients)) }).collect::<Vec<_>>().join(",")
}

pub fn gen_scenario(r: &mut Rng, bias: u64) -> Vec<String> {
    let mut evs = vec![];
    let mut n = 0u32;
    let mut clients = 0u64;
    let mut closed = false;
    for _ in 0..(r.below(9) + 3) {
        match r.below(9) {
            0 | 1 | 2 if !closed => { let sil = if r.chance(1, 10) { "~" } else { "" }; evs.push(format!("+c{sil}{}/{}", crate::fanout::rand_sink_script(r, bias).text(), rand_stream(r, &mut n, None))); clients += 1; }
            3 | 4 if !closed => { let sil = if r.chance(1, 10) { "~" } else { "" }; evs.push(format!("+s{sil}{}/{}", crate::fanout::rand_sink_script(r, bias).text(), rand_stream(r, &mut n, Some(clients + 1)))); }
            5 if !closed && r.chance(1, 3) => { evs.push("close".into()); closed = true; }
            _ => evs.push("poll".into()),
        }
    }
    for _ in 0..7 { evs.push("poll".into()); }
    evs
}

pub fn run(cfg: &Cfg) {
    let mut out = Out::new(&cfg.out, "reqrep");
    let mut cases: Vec<String> = vec![];
    if let Some(lines) = cfg.replay_lines() {
        cases = lines;
    } else {
        // one side only, both sides, slow requestor with two replies, late repliers, odd frames, failing replier
        for c in [
            "rr +c_/p poll poll", "rr +c_/i:m1,p poll poll poll", "rr +s_/p poll poll", "rr +s_/p +c_/i:m1,p poll poll poll",
            "rr +c_/i:m1,p +s_/p poll poll poll", "rr +cr=P/i:m1,p +s_/i:m2[cid=0],i:m3[cid=0],p poll poll poll poll",
            "rr +c_/p +cr=P/p +s_/i:m2[cid=1],i:m3[cid=0],i:m4[cid=1],p poll poll poll poll",
            "rr +s_/p +s_/p poll poll poll", "rr +s_/p +sr=P/p poll poll poll poll", "rr +s_/p +s_/p +s_/p poll poll poll poll",
            "rr +s_/p poll +s_/p +s_/p poll poll poll", "rr +s_/_ poll +s_/p poll +c_/i:m1,p poll poll",
            "rr +c_/i:ok,i:m1,p +s_/p poll poll poll", "rr +c_/p +s_/i:ok,i:m1[cid=0],p poll poll poll",
            "rr +c_/i:m1,p +sr=E/p poll poll poll", "rr +c_/i:m1,p +ss=E/p poll poll poll", "rr +c_/i:m1,p +sf=E/p poll poll poll",
            "rr +c_/i:m1,i:m2,p +sr=E/p +s_/p poll poll poll poll",
            // a replier whose sink fails while its stream stays open and quiet; another replier arrives later
            "rr +c_/i:m1,p,p,p +sr=E/p,p,p,p,p,p poll poll +s_/p,p,p poll poll +c_/i:m2,p poll poll",
            "rr +c_/i:m1,p,p,p +s~r=E/p,p,p,p,p,p poll poll +s_/p,p,p poll poll +c_/i:m2,p poll poll",
            "rr +c_/i:m1,p,p,p +sf=E/p,p,p,p,p,p poll poll +s_/p,p,p poll poll +c_/i:m2,p poll poll",
            "rr +c_/i:m1,p,p,p +sr=RE/p,i:m7[cid=0],p,p,p,p poll poll +c_/i:m2,p poll +s_/p,p,p poll poll poll", "rr +c_/i:m1[cid=9],p +s_/p poll poll poll",
            "rr +c_/p +s_/i:m1,i:m2[cid=zz],i:m3[cid=7],i:m4[cid=0],p poll poll poll", "rr +c_/p +s_/i:m1[req_id=3],i:m2[],i:m3[Cid=0],i:m4[cid=0],p poll poll poll",
            // a replier whose sink is busy (Pending once / twice / while silent) while several requests are ready
            "rr +sr=PR/p,p,p,p,p +c_/i:m1,i:m2,i:m3,p,p,p poll poll poll poll", "rr +sr=PPR/p,p,p,p,p +c_/i:m1,i:m2,p,p,p poll poll poll poll poll",
            "rr +sr=PRPR/p,p,p,p,p +c_/i:m1,i:m2,p,p +c_/i:m3,i:m4,p,p poll poll poll poll poll", "rr +sf=PR/p,p,p,p +c_/i:m1,i:m2,i:m3,p,p poll poll poll poll",
            // shutdown with requests handed to a replier that never answers (silent or merely idle), or still buffered
            "rr +s_/p,p,p,p,p +c_/i:m1,p,p,p,p poll poll close poll poll poll", "rr +s~_/p,p,p,p +c_/i:m1,i:m2,p,p,p poll poll close poll poll",
            "rr +s_/p,p,p,p,p +c_/i:m1,p,p,p +c_/i:m2,p,p,p poll close poll poll poll", "rr +sr=P/p,p,p,p +c_/i:m1,p,p,p poll close poll poll poll",
            "rr +s_/p +c_/p close poll poll poll", "rr +c_/i:m1,p close poll poll", "rr close poll", "rr +s~_/p +c_/p poll +c_/i:m5,p poll poll poll",
        ] { cases.push(c.to_string()); }
        // bursts of registrations drained in one poll (more than any per-poll allowance a router might have), idle
        // requestors among them, with and without a replier, with and without shutdown behind the burst
        for n in [1usize, 7, 15, 16, 17, 31, 32, 33, 64, 98] {
            for lead in ["+s_/p", "+c~_/p", "+c_/i:m1,p"] {
                for (other, member) in [("+s_/p", "+c_/p"), ("+s~_/p", "+c~_/p"), ("+c~_/p", "+c~_/p")] {
                    let burst: Vec<String> = (0..n).map(|i| if i % 7 == 6 { other.to_string() } else { member.to_string() }).collect();
                    for tail in ["poll poll poll", "close poll poll poll", "poll close poll poll"] {
                        cases.push(format!("rr {lead} {} {tail}", burst.join(" ")));
                    }
                }
            }
        }
        // long bursts of requests / replies that are all ready at once (more than any per-poll allowance a router
        // might have): each one must be handed on, in order, and flushed before the router sleeps
        for n in [63usize, 64, 65, 127, 128, 129, 130, 257] {
            let reqs: Vec<String> = (1..=n).map(|i| format!("i:m{i}")).collect();
            let reps: Vec<String> = (1..=n).map(|i| format!("i:m{}[cid=0]", 1000 + i)).collect();
            let reps2: Vec<String> = (1..=n).map(|i| format!("i:m{}[cid={}]", 1000 + i, i % 2)).collect();
            cases.push(format!("rr +s_/p,p,p +c_/{},p poll poll poll poll", reqs.join(",")));
            cases.push(format!("rr +c_/p,p,p +s_/{},p poll poll poll poll", reps.join(",")));
            cases.push(format!("rr +c_/{},p +s_/{},p poll poll poll poll", reqs.join(","), reps.join(",")));
            cases.push(format!("rr +c_/p,p +cf=PR/p,p +s_/{},p poll poll poll poll", reps2.join(",")));
            cases.push(format!("rr +s_/{},p +c_/{},p poll poll close poll poll", reps.join(","), reqs.join(",")));
        }
        // very many requests handed to a replier that answers none of them and then goes away: whatever the router
        // keeps per topic (counters, allowances) must not outlive the binding — the next replier is handed the next request
        for n in [1023usize, 1024, 1025, 2100] {
            let reqs: Vec<String> = (1..=n).map(|i| format!("i:m{i}")).collect();
            // (the replier's stream is polled once per request handed over: it stays quiet throughout, then ends / its sink fails)
            let quiet = vec!["p"; n + 3].join(",");
            cases.push(format!("rr +s_/{quiet} +c_/{},p,p,p,p poll poll poll poll +s_/p,p,p,p +c_/i:m7000,p,p poll poll poll", reqs.join(",")));
            cases.push(format!("rr +sf=RE/{quiet},p,p,p,p +c_/{},p,p,p,p poll poll poll poll +s_/p,p,p,p +c_/i:m7000,p,p poll poll poll", reqs.join(",")));
        }
        // a peer that stays busy for many looks (requestor sink with a reply waiting for it, replier sink with a request
        // waiting, a late replier being turned away): every look costs a step
        for c in ["rr +cr=PPPPPPPPR/i:m1,p,p,p,p,p,p,p,p,p,p +s_/i:m2[cid=0],p,p,p,p,p,p,p,p,p,p poll poll poll poll poll poll poll poll poll poll poll poll",
                  "rr +sr=PPPPPPPPR/p,p,p,p,p,p,p,p,p,p,p +c_/i:m1,i:m2,p,p,p,p,p,p,p,p,p,p poll poll poll poll poll poll poll poll poll poll poll poll",
                  "rr +s_/p,p,p,p,p,p,p,p,p,p,p +sr=PPPPPPPPR/p +c_/i:m1,p,p,p,p,p,p,p,p,p,p poll poll poll poll poll poll poll poll poll poll poll poll",
                  "rr +cf=PPPPPPPPR/p,p,p,p,p,p,p,p,p,p,p +s_/i:m2[cid=0],p,p,p,p,p,p,p,p,p,p poll poll poll poll poll poll poll poll poll poll poll poll"] { cases.push(c.to_string()); }
        // a replier that fails and would then take for ever to say goodbye (its close stays Pending): another one binds and serves
        for c in ["rr +c_/i:m1,p,p,p,p,p,p,p,p +s~r=E;s=;f=;c=PPPPPPPPPPPPPPPPPPPPPPPP/p,p,p,p,p,p,p,p,p,p poll poll +s_/p,p,p,p,p,p poll poll +c_/i:m2,p,p,p poll poll poll",
                  "rr +s~r=;s=O;f=E;c=PPPPPPPPPPPPPPPPPPPPPPPP/p,p,p,p,p,p,p,p +c_/i:m1,p,p,p,p,p,p,p,p poll poll +s_/p,p,p,p,p,p poll poll +c_/i:m2,p,p,p poll poll poll"] { cases.push(c.to_string()); }
        // shutdown while a requestor (or the replier) has a standing backlog: the router finishes with what it has taken
        for c in ["rr +s_/p,p,p +c_/p,i:m9* poll close poll poll poll", "rr +c_/p,i:m9* poll close poll poll", "rr +c_/p +s_/p,i:m9[cid=0]* poll close poll poll poll",
                  "rr +s_/p,p,p +c_/i:m1,p,i:m9* +c_/p,i:m8* poll close poll poll poll"] { cases.push(c.to_string()); }
        let mut r = Rng::new(cfg.seed, "reqrep");
        for _ in 0..cfg.n(4000, 200_000) {
            let bias = *r.pick(&[0u64, 0, 3, 8]);
            cases.push(format!("rr {}", gen_scenario(&mut r, bias).join(" ")));
        }
    }
    let mut hangs = 0;
    for c in &cases {
        // a router that spins costs one time-out per scenario: a handful of witnesses is enough; the rest of the
        // run is not executed (and shows up as a divergence from the model, not as a property failure)
        if hangs >= 8 { out.stat("not_run_after_8_hangs"); out.case(c, "NOT-RUN-AFTER-HANGS", Ok(())); continue; }
        // every scenario runs in the guarded child: a poll that never returns is observed as a hang
        let res = crate::childrun::guarded_timeout("rr", c.as_bytes(), std::time::Duration::from_secs(4));
        match res {
            crate::childrun::Outcome::Value(v) => {
                let j: serde_json::Value = serde_json::from_str(&v).expect("child answer");
                for k in j["stats"].as_array().unwrap() { out.stat(k.as_str().unwrap()); }
                if j["trivial"].as_bool().unwrap() { out.mark_trivial(); }
                let mut mon = match j["mon"].as_str() { Some("ok") => Ok(()), Some(w) => Err(w.to_string()), None => Err("?".into()) };
                // the same scenario in a process without a logger: the router does the same
                if mon.is_ok() && hangs < 8 {
                    match crate::childrun::guarded_timeout_quiet("rr", c.as_bytes(), std::time::Duration::from_secs(4)) {
                        crate::childrun::Outcome::Value(q) => {
                            let jq: serde_json::Value = serde_json::from_str(&q).expect("child answer");
                            // (the map iteration orders of the two runs differ: what is compared is that every property monitor holds there too)
                            if let Some(w) = jq["mon"].as_str() { if w != "ok" { mon = Err(format!("(no logger installed) {w}")); } }
                        }
                        crate::childrun::Outcome::Hang => { hangs += 1; mon = Err("C02/C08/C09/C10/C16: with no logger installed a poll of the router never returned".to_string()); }
                        crate::childrun::Outcome::Panic(pn) => { mon = Err(format!("C02/C08/C09/C10/C16: with no logger installed: panic {pn}")); }
                        crate::childrun::Outcome::Abort(a) => { mon = Err(format!("C02/C08/C09/C10/C16: with no logger installed the process aborted: {a}")); }
                    }
                }
                out.case(j["case"].as_str().unwrap(), j["line"].as_str().unwrap(), mon);
            }
            crate::childrun::Outcome::Hang => { hangs += 1; out.stat("impl_hung"); out.case(c, "HANG", Err("C09/C16: a poll of the request/reply router never returned (it loops without yielding and without calling any child)".into())); }
            crate::childrun::Outcome::Panic(p) => out.case(c, "HARNESS-PANIC", Err(format!("harness panicked: {p}"))),
            crate::childrun::Outcome::Abort(a) => out.case(c, "ABORT", Err(format!("process aborted: {a}"))),
        }
    }
    out.finish();
}

/// child side: run one scenario, answer with one JSON line
pub fn child(input: &[u8]) -> String {
    let c = String::from_utf8_lossy(input).to_string();
    let evs: Vec<&str> = c.split(' ').skip(1).collect();
    let o = run_scenario(&evs);
    let mon = monitor(&o);
    let mut stats = vec![format!("clients_{}", o.n_clients.min(4)), format!("repliers_{}", o.n_servers.min(3))];
    if o.done { stats.push("finished".into()); }
    if o.spun { stats.push("impl_spun".into()); } else if o.panicked.is_some() { stats.push("impl_panicked".into()); }
    serde_json::json!({
        "case": format!("rr {}", o.annotated.join(" ")),
        "line": o.line,
        "mon": match mon { Ok(()) => "ok".to_string(), Err(w) => w },
        "stats": stats,
        "trivial": o.n_clients == 0 && o.n_servers == 0,
    }).to_string()
}
