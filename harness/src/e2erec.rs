//! C12: reconnection. The harness cuts a client's QUIC connection with the `verif-hooks` method and checks
//! that the stream re-registers and works again, outage after outage.
//!   rec <pub|sub|replier|requestor> <outages> <max_attempts>
//!   rec exhaust <pub|sub|replier|requestor> <max_attempts>      the server is gone: too-many-retries, no hang
//!   rec displaced <max_attempts>              a second replier on a topic whose replier stays: every registration
//!                                             is refused (already bound), so it reports too-many-retries
//!   rec takeover <max_attempts>               the same, but the first replier leaves while the second still has
//!                                             attempts left: the second one binds and serves
//!   rec lonereplier <outages> <max_attempts>  a replier with no requestor on its topic is cut; a requestor arrives afterwards
//!   rec siblings <outages> <max_attempts>     two subscribers of one client (one shared connection) lose it together
//!   rec midreg <sub|pub|requestor> <max_attempts>  the connection is lost again between the re-registration and its answer
//!   rec pubfeed <outages> <max_attempts>      a publisher driven with feed() (kilobytes queued before the first flush) after each cut
//!   rec quiet <outages> <max_attempts>        a subscriber on a topic nobody publishes to during the outages
//!                                             (nothing resets anything in between); one message at the end
//! Implementation line: one token per outage: `ok` (traffic after recovery was carried), `lost`, `err:<e>`;
//! for `exhaust`: `TooManyRetries` | `hang` | `err:<e>`.
use crate::e2e::*;
use crate::util::*;
use futures::{SinkExt, StreamExt};
use selium::keep_alive::BackoffStrategy;
use selium::prelude::*;
use selium::std::codecs::StringCodec;
use selium::std::errors::{QuicError, SeliumError};
use std::net::SocketAddr;
use std::sync::atomic::{AtomicUsize, Ordering};
use std::time::Duration;

static TOPIC: AtomicUsize = AtomicUsize::new(0);

/// the backoff law of the stream under test (an optional last token of the case line): `const` 20 ms, `lin` 25 ms × attempt,
/// `exp` 15 ms × 2^(attempt-1), `cap` 20 ms × 3^(attempt-1) clamped at 70 ms, `slow` 700 ms
static LAW: std::sync::Mutex<String> = std::sync::Mutex::new(String::new());

fn strategy(law: &str, attempts: u32) -> BackoffStrategy {
    match law {
        "lin" => BackoffStrategy::linear().with_max_attempts(attempts).with_step(Duration::from_millis(25)),
        "exp" => BackoffStrategy::exponential(2).with_max_attempts(attempts).with_step(Duration::from_millis(15)),
        "cap" => BackoffStrategy::exponential(3).with_max_attempts(attempts).with_step(Duration::from_millis(20)).with_max_duration(Duration::from_millis(70)),
        // `slow`: every delay is longer than the request timeout of the requestor scenario (300 ms)
        "slow" => BackoffStrategy::constant().with_max_attempts(attempts).with_step(Duration::from_millis(700)),
        _ => BackoffStrategy::constant().with_max_attempts(attempts).with_step(Duration::from_millis(20)),
    }
}

fn backoff(attempts: u32) -> BackoffStrategy { strategy(&LAW.lock().unwrap(), attempts) }

fn errname(e: &SeliumError) -> String {
    match e { SeliumError::Quic(QuicError::TooManyRetries) => "TooManyRetries".into(), other => format!("err:{}", format!("{other:?}").split(|c: char| !c.is_alphanumeric()).next().unwrap_or("?")) }
}

async fn case(addr: SocketAddr, certs: &Certs, kind: &str, outages: usize, attempts: u32) -> anyhow::Result<String> {
    let n = TOPIC.fetch_add(1, Ordering::SeqCst);
    let stable = client(addr, certs, backoff(5)).await?;      // the peer that stays connected
    let flaky = client(addr, certs, backoff(attempts)).await?; // the one whose connection is cut
    let mut out = vec![];
    match kind {
        "pub" => {
            let topic = format!("/verif/rec{n}");
            let mut sub = stable.subscriber(&topic).with_decoder(StringCodec).open().await?;
            tokio::time::sleep(Duration::from_millis(40)).await;
            let mut publ = flaky.publisher(&topic).with_encoder(StringCodec).open().await?;
            publ.send("before".into()).await?;
            let _ = tokio::time::timeout(Duration::from_millis(500), sub.next()).await;
            for k in 0..outages {
                flaky.verif_close_connection().await;
                // the first sends after the cut discover the loss and may be dropped with the old stream
                let mut res = "lost".to_string();
                for j in 0..6 {
                    match tokio::time::timeout(Duration::from_secs(3), publ.send(format!("m{k}.{j}"))).await {
                        Err(_) => { res = "hang".into(); break; }
                        Ok(Err(e)) => { res = errname(&e); break; }
                        Ok(Ok(())) => {}
                    }
                    if let Ok(Some(Ok(s))) = tokio::time::timeout(Duration::from_millis(250), sub.next()).await { if s.starts_with(&format!("m{k}.")) { res = "ok".into(); break; } }
                }
                out.push(res);
            }
        }
        "pubfeed" => {
            // like "pub", but after the cut the publisher is driven with feed(): several kilobytes are queued without a flush in
            // between (the framed writer then writes to the transport from poll_ready itself), then flushed
            let topic = format!("/verif/rec{n}");
            let mut sub = stable.subscriber(&topic).with_decoder(StringCodec).open().await?;
            tokio::time::sleep(Duration::from_millis(40)).await;
            let mut publ = flaky.publisher(&topic).with_encoder(StringCodec).open().await?;
            publ.send("before".into()).await?;
            let _ = tokio::time::timeout(Duration::from_millis(500), sub.next()).await;
            let filler = "f".repeat(3 * 1024);
            for k in 0..outages {
                flaky.verif_close_connection().await;
                let mut res = "lost".to_string();
                'rounds: for j in 0..6 {
                    for i in 0..4 {
                        match tokio::time::timeout(Duration::from_secs(3), publ.feed(format!("m{k}.{j}.{i}|{filler}"))).await {
                            Err(_) => { res = "hang".into(); break 'rounds; }
                            Ok(Err(e)) => { res = format!("feed:{}", errname(&e)); break 'rounds; }
                            Ok(Ok(())) => {}
                        }
                    }
                    match tokio::time::timeout(Duration::from_secs(3), publ.flush()).await {
                        Err(_) => { res = "hang".into(); break; }
                        Ok(Err(e)) => { res = format!("flush:{}", errname(&e)); break; }
                        Ok(Ok(())) => {}
                    }
                    let mut seen = false;
                    while let Ok(Some(Ok(s))) = tokio::time::timeout(Duration::from_millis(250), sub.next()).await { if s.starts_with(&format!("m{k}.")) { seen = true; } }
                    if seen { res = "ok".into(); break; }
                }
                out.push(res);
            }
        }
        "sub" => {
            let topic = format!("/verif/rec{n}");
            let mut sub = flaky.subscriber(&topic).with_decoder(StringCodec).open().await?;
            tokio::time::sleep(Duration::from_millis(40)).await;
            let mut publ = stable.publisher(&topic).with_encoder(StringCodec).open().await?;
            for k in 0..outages {
                flaky.verif_close_connection().await;
                let mut res = "lost".to_string();
                for j in 0..8 {
                    publ.send(format!("m{k}.{j}")).await?;
                    match tokio::time::timeout(Duration::from_millis(300), sub.next()).await {
                        Ok(Some(Ok(s))) if s.starts_with(&format!("m{k}.")) => { res = "ok".into(); break; }
                        Ok(Some(Err(e))) => { res = errname(&e); break; }
                        Ok(None) => { res = "ended".into(); break; }
                        _ => {}
                    }
                }
                out.push(res);
            }
        }
        "subone" => {
            // like "sub", but after every recovery exactly ONE message is published, with nothing behind it that could
            // push it out: it must arrive on its own
            let topic = format!("/verif/rec{n}");
            let mut sub = flaky.subscriber(&topic).with_decoder(StringCodec).open().await?;
            tokio::time::sleep(Duration::from_millis(40)).await;
            let mut publ = stable.publisher(&topic).with_encoder(StringCodec).open().await?;
            for k in 0..outages {
                flaky.verif_close_connection().await;
                // polling the subscriber is what makes it notice the loss and register again
                let idle = tokio::time::timeout(Duration::from_millis(800), sub.next()).await;
                if let Ok(Some(Err(e))) = idle { out.push(errname(&e)); break; }
                publ.send(format!("only{k}")).await?;
                out.push(match tokio::time::timeout(Duration::from_millis(2500), sub.next()).await {
                    Ok(Some(Ok(s))) if s == format!("only{k}") => "ok".to_string(),
                    Ok(Some(Ok(s))) => format!("wrong:{s}"),
                    Ok(Some(Err(e))) => errname(&e),
                    Ok(None) => "ended".into(),
                    Err(_) => "lost".into(),
                });
            }
        }
        "siblings" => {
            // two subscribers opened from ONE client (they share its connection) lose it together and re-establish
            // themselves in turn: once things have settled, both must receive everything that is published
            let topic = format!("/verif/rec{n}");
            let mut subs = vec![];
            for _ in 0..2 { subs.push(flaky.subscriber(&topic).with_decoder(StringCodec).open().await?); }
            tokio::time::sleep(Duration::from_millis(40)).await;
            let mut publ = stable.publisher(&topic).with_encoder(StringCodec).open().await?;
            let (tx, mut rx) = tokio::sync::mpsc::unbounded_channel::<(usize, String)>();
            for (i, mut sub) in subs.into_iter().enumerate() {
                let tx = tx.clone();
                tokio::spawn(async move { while let Some(item) = sub.next().await { match item { Ok(s) => { let _ = tx.send((i, s)); } Err(e) => { let _ = tx.send((i, format!("ERR:{}", errname(&e)))); break; } } } });
            }
            for k in 0..outages {
                flaky.verif_close_connection().await;
                let rounds = 9;
                for j in 0..rounds { publ.send(format!("m{k}.{j}")).await?; tokio::time::sleep(Duration::from_millis(220)).await; }
                tokio::time::sleep(Duration::from_millis(300)).await;
                let mut got: [Vec<String>; 2] = [vec![], vec![]];
                while let Ok((i, s)) = rx.try_recv() { got[i].push(s); }
                // the last three messages of the round were published well after every stream had time to recover
                let tail: Vec<String> = (rounds - 3..rounds).map(|j| format!("m{k}.{j}")).collect();
                let mut res = "ok".to_string();
                for (i, g) in got.iter().enumerate() {
                    if let Some(e) = g.iter().find(|x| x.starts_with("ERR:")) { res = e[4..].to_string(); break; }
                    if !tail.iter().all(|m| g.contains(m)) { res = format!("lost:sub{i}"); break; }
                }
                out.push(res);
            }
        }
        "closing" => {
            // close() called while the wrapper is re-establishing the stream: it must complete (the server is reachable)
            let topic = format!("/verif/rec{n}");
            let mut publ = flaky.publisher(&topic).with_encoder(StringCodec).open().await?;
            publ.send("before".into()).await?;
            for _ in 0..outages {
                flaky.verif_close_connection().await;
                // one poll of a send notices the loss (the future is dropped while the reconnection is under way)
                let _ = tokio::time::timeout(Duration::from_millis(5), publ.send("noticed".into())).await;
                let h = tokio::spawn(async move { let r = publ.close().await; (publ, r.is_ok()) });
                match tokio::time::timeout(Duration::from_secs(5), h).await {
                    Err(_) => { out.push("hang".to_string()); break; }
                    Ok(Err(_)) => { out.push("panic".to_string()); break; }
                    Ok(Ok((p, _))) => { out.push("ok".to_string()); publ = p; }
                }
                // a closed publisher is not used again: open a new one for the next round
                publ = flaky.publisher(&topic).with_encoder(StringCodec).open().await?;
                publ.send("again".into()).await?;
            }
        }
        "lonereplier" => {
            // a replier that is alone on its topic when its connection is cut (no requestor is registered, none arrives during
            // the outage): it re-registers all the same, and the requestor that turns up later is served
            let topic = format!("/verif/recl{n}");
            let f2 = flaky.clone();
            let t2 = topic.clone();
            let rep = tokio::spawn(async move {
                let mut replier = f2.replier(&t2).with_request_decoder(StringCodec).with_reply_encoder(StringCodec)
                    .with_handler(|req: String| async move { Ok::<_, anyhow::Error>(format!("r:{req}")) }).open().await?;
                replier.listen().await
            });
            tokio::time::sleep(Duration::from_millis(120)).await;
            for k in 0..outages {
                flaky.verif_close_connection().await;
                // long enough for the whole retry budget to be used up if every registration were refused
                tokio::time::sleep(Duration::from_millis(150 + 40 * attempts as u64)).await;
                let mut res = "lost".to_string();
                if rep.is_finished() { res = "replier-gave-up".into(); }
                else {
                    let mut rq = stable.requestor(&topic).with_request_encoder(StringCodec).with_reply_decoder(StringCodec).with_request_timeout(400u64)?.open().await?;
                    for j in 0..6 {
                        match rq.request(format!("q{k}.{j}")).await { Ok(s) if s == format!("r:q{k}.{j}") => { res = "ok".into(); break; } _ => {} }
                        if rep.is_finished() { res = "replier-gave-up".into(); break; }
                    }
                    drop(rq);
                    tokio::time::sleep(Duration::from_millis(120)).await;
                }
                out.push(res);
                if rep.is_finished() { break; }
            }
            if rep.is_finished() {
                if let Ok(Err(e)) = rep.await { out.push(format!("listen:{}", errname(&e))); }
            } else { rep.abort(); }
        }
        "replier" => {
            let topic = format!("/verif/recr{n}");
            let f2 = flaky.clone();
            let t2 = topic.clone();
            let rep = tokio::spawn(async move {
                let mut replier = f2.replier(&t2).with_request_decoder(StringCodec).with_reply_encoder(StringCodec)
                    .with_handler(|req: String| async move { Ok::<_, anyhow::Error>(format!("r:{req}")) }).open().await?;
                replier.listen().await
            });
            tokio::time::sleep(Duration::from_millis(80)).await;
            let mut rq = stable.requestor(&topic).with_request_encoder(StringCodec).with_reply_decoder(StringCodec).with_request_timeout(300u64)?.open().await?;
            let _ = rq.request("before".into()).await;
            for k in 0..outages {
                flaky.verif_close_connection().await;
                let mut res = "lost".to_string();
                for j in 0..8 {
                    if rep.is_finished() { break; }
                    match rq.request(format!("q{k}.{j}")).await { Ok(s) if s == format!("r:q{k}.{j}") => { res = "ok".into(); break; } _ => {} }
                }
                if res != "ok" && rep.is_finished() { res = "replier-gave-up".into(); }
                out.push(res);
                if rep.is_finished() { break; }
            }
            if rep.is_finished() {
                if let Ok(Err(e)) = rep.await { out.push(format!("listen:{}", errname(&e))); }
            } else { rep.abort(); }
        }
        _ => {
            let topic = format!("/verif/recq{n}");
            let s2 = stable.clone();
            let t2 = topic.clone();
            let rep = tokio::spawn(async move {
                let mut replier = s2.replier(&t2).with_request_decoder(StringCodec).with_reply_encoder(StringCodec)
                    .with_handler(|req: String| async move { Ok::<_, anyhow::Error>(format!("r:{req}")) }).open().await?;
                replier.listen().await
            });
            tokio::time::sleep(Duration::from_millis(80)).await;
            let mut rq = flaky.requestor(&topic).with_request_encoder(StringCodec).with_reply_decoder(StringCodec).with_request_timeout(300u64)?.open().await?;
            let _ = rq.request("before".into()).await;
            for k in 0..outages {
                flaky.verif_close_connection().await;
                let mut res = "lost".to_string();
                for j in 0..5 {
                    match tokio::time::timeout(Duration::from_secs(3), rq.request(format!("q{k}.{j}"))).await {
                        Ok(Ok(s)) if s == format!("r:q{k}.{j}") => { res = "ok".into(); break; }
                        Ok(Err(SeliumError::RequestTimeout)) => { res = "timeout".into(); }
                        Ok(Err(e)) => { res = errname(&e); break; }
                        Ok(Ok(s)) => { res = format!("wrong:{s}"); break; }
                        Err(_) => { res = "hang".into(); break; }
                    }
                }
                out.push(res);
            }
            rep.abort();
        }
    }
    Ok(out.join(","))
}

/// `rec midreg <kind> <max_attempts>`: the connection is lost a second time while the stream is re-registering — after its
/// registration frame went out on the new connection, before the answer came. The peer is scripted (it speaks the wire
/// protocol over quinn): connection 0 is served until the client cuts it; connection 1 reads the registration and closes
/// the connection instead of answering; later connections are served again.
async fn midreg(certs: &Certs, kind: &str, attempts: u32) -> anyhow::Result<String> {
    use selium_protocol::{BiStream, Frame, MessagePayload};
    let (chain, key) = selium_server::quic::read_certs(certs.server("localhost.der"), certs.server("localhost.key.der"))?;
    let roots = selium_server::quic::load_root_store(certs.server("ca.der"))?;
    let cfg = selium_server::quic::server_config(roots, chain, key, Default::default())?;
    let endpoint = quinn::Endpoint::server(cfg, "127.0.0.1:0".parse()?)?;
    let addr = endpoint.local_addr()?;
    let seen: std::sync::Arc<std::sync::Mutex<Vec<String>>> = Default::default();
    let seen2 = seen.clone();
    let peer = tokio::spawn(async move {
        let mut index = 0usize;
        while let Some(connecting) = endpoint.accept().await {
            let Ok(conn) = connecting.await else { continue };
            let i = index; index += 1;
            let seen = seen2.clone();
            tokio::spawn(async move {
                while let Ok(st) = conn.accept_bi().await {
                    let mut s = BiStream::from(st);
                    let first = s.next().await;
                    if i == 1 { conn.close(1u32.into(), b"lost again"); return; }
                    let role = match first { Some(Ok(Frame::RegisterSubscriber(_))) => 's', Some(Ok(Frame::RegisterPublisher(_))) => 'p', Some(Ok(Frame::RegisterRequestor(_))) => 'q', _ => return };
                    if s.send(Frame::Ok).await.is_err() { return; }
                    let seen = seen.clone();
                    tokio::spawn(async move {
                        if role == 's' {
                            // something for the subscriber to yield on every connection it registers on
                            let _ = s.send(Frame::Message(MessagePayload { headers: None, message: bytes::Bytes::from(format!("on{i}")) })).await;
                            while let Some(Ok(_)) = s.next().await {}
                        } else {
                            while let Some(Ok(f)) = s.next().await {
                                if let Frame::Message(m) = f {
                                    seen.lock().unwrap().push(format!("{i}:{}", String::from_utf8_lossy(&m.message)));
                                    if role == 'q' {
                                        let body = format!("r:{}", String::from_utf8_lossy(&m.message));
                                        let _ = s.send(Frame::Message(MessagePayload { headers: m.headers.clone(), message: bytes::Bytes::from(body) })).await;
                                    }
                                }
                            }
                        }
                    });
                }
            });
        }
    });
    let flaky = client(addr, certs, backoff(attempts)).await?;
    let res: anyhow::Result<String> = async {
        match kind {
            "sub" => {
                let mut sub = flaky.subscriber("/verif/midreg").with_decoder(StringCodec).open().await?;
                match tokio::time::timeout(Duration::from_secs(3), sub.next()).await { Ok(Some(Ok(m))) if m == "on0" => {}, other => return Ok(format!("before:{other:?}").replace(' ', "_")) }
                flaky.verif_close_connection().await;
                Ok(match tokio::time::timeout(Duration::from_secs(8), sub.next()).await {
                    Ok(Some(Ok(m))) if m.starts_with("on") && m != "on0" && m != "on1" => "ok".to_string(),
                    Ok(Some(Err(e))) => errname(&e),
                    Ok(Some(Ok(m))) => format!("wrong:{m}"),
                    Ok(None) => "ended".to_string(),
                    Err(_) => "hang".to_string(),
                })
            }
            "pub" => {
                let mut publ = flaky.publisher("/verif/midreg").with_encoder(StringCodec).open().await?;
                publ.send("before".into()).await?;
                flaky.verif_close_connection().await;
                let mut res = "lost".to_string();
                for j in 0..12 {
                    match tokio::time::timeout(Duration::from_secs(8), publ.send(format!("m{j}"))).await {
                        Err(_) => { res = "hang".into(); break; }
                        Ok(Err(e)) => { res = errname(&e); break; }
                        Ok(Ok(())) => {}
                    }
                    tokio::time::sleep(Duration::from_millis(60)).await;
                    if seen.lock().unwrap().iter().any(|x| !x.starts_with("0:") && x.contains(":m")) { res = "ok".into(); break; }
                }
                Ok(res)
            }
            _ => {
                let mut rq = flaky.requestor("/verif/midreg").with_request_encoder(StringCodec).with_reply_decoder(StringCodec).with_request_timeout(400u64)?.open().await?;
                let _ = rq.request("before".into()).await;
                flaky.verif_close_connection().await;
                let mut res = "lost".to_string();
                for j in 0..6 {
                    match tokio::time::timeout(Duration::from_secs(8), rq.request(format!("q{j}"))).await {
                        Ok(Ok(r)) if r == format!("r:q{j}") => { res = "ok".into(); break; }
                        Ok(Ok(r)) => { res = format!("wrong:{r}"); break; }
                        Ok(Err(SeliumError::RequestTimeout)) => { res = "timeout".into(); }
                        Ok(Err(e)) => { res = errname(&e); break; }
                        Err(_) => { res = "hang".into(); break; }
                    }
                }
                Ok(res)
            }
        }
    }.await;
    peer.abort();
    res
}

/// a replier that finds the topic's replier slot taken
async fn displaced(addr: SocketAddr, certs: &Certs, attempts: u32, first_leaves: bool) -> anyhow::Result<String> {
    let n = TOPIC.fetch_add(1, Ordering::SeqCst);
    let stable = client(addr, certs, backoff(5)).await?;
    let second = client(addr, certs, backoff(attempts)).await?;
    let topic = format!("/verif/recd{n}");
    let s2 = stable.clone(); let t2 = topic.clone();
    let first = tokio::spawn(async move {
        let mut replier = s2.replier(&t2).with_request_decoder(StringCodec).with_reply_encoder(StringCodec)
            .with_handler(|req: String| async move { Ok::<_, anyhow::Error>(format!("first:{req}")) }).open().await?;
        replier.listen().await
    });
    tokio::time::sleep(Duration::from_millis(100)).await;
    let c2 = second.clone(); let t3 = topic.clone();
    let late = tokio::spawn(async move {
        let mut replier = c2.replier(&t3).with_request_decoder(StringCodec).with_reply_encoder(StringCodec)
            .with_handler(|req: String| async move { Ok::<_, anyhow::Error>(format!("second:{req}")) }).open().await?;
        replier.listen().await
    });
    if first_leaves {
        tokio::time::sleep(Duration::from_millis(150)).await;
        first.abort();
        // the first replier's client goes away altogether, so that its stream ends at the server
        stable.verif_close_connection().await;
        let third = client(addr, certs, backoff(5)).await?;
        let mut rq = third.requestor(&topic).with_request_encoder(StringCodec).with_reply_decoder(StringCodec).with_request_timeout(300u64)?.open().await?;
        let mut res = "unserved".to_string();
        for j in 0..12 {
            if late.is_finished() { break; }
            match rq.request(format!("q{j}")).await { Ok(s) if s == format!("second:q{j}") => { res = "ok".into(); break; } Ok(s) => { res = format!("wrong:{s}"); } _ => {} }
        }
        if late.is_finished() { if let Ok(Err(e)) = late.await { res = format!("second-gave-up:{}", errname(&e)); } } else { late.abort(); }
        Ok(res)
    } else {
        let r = match tokio::time::timeout(Duration::from_secs(20), late).await { Err(_) => "hang".to_string(), Ok(Ok(Err(e))) => errname(&e), Ok(Ok(Ok(()))) => "returned-ok".into(), Ok(Err(_)) => "aborted".into() };
        first.abort();
        Ok(r)
    }
}

/// a subscriber whose topic stays silent while its connection is cut again and again
async fn quiet(addr: SocketAddr, certs: &Certs, outages: usize, attempts: u32) -> anyhow::Result<String> {
    let n = TOPIC.fetch_add(1, Ordering::SeqCst);
    let stable = client(addr, certs, backoff(5)).await?;
    let flaky = client(addr, certs, backoff(attempts)).await?;
    let topic = format!("/verif/recs{n}");
    let mut sub = flaky.subscriber(&topic).with_decoder(StringCodec).open().await?;
    let (tx, mut rx) = tokio::sync::mpsc::unbounded_channel::<String>();
    let reader = tokio::spawn(async move {
        loop {
            match sub.next().await { Some(Ok(s)) => { let _ = tx.send(format!("item:{s}")); } Some(Err(e)) => { let _ = tx.send(errname(&e)); break; } None => { let _ = tx.send("ended".into()); break; } }
        }
    });
    tokio::time::sleep(Duration::from_millis(60)).await;
    for _ in 0..outages {
        flaky.verif_close_connection().await;
        tokio::time::sleep(Duration::from_millis(350)).await;
        if let Ok(x) = rx.try_recv() { reader.abort(); return Ok(x); }
    }
    let mut publ = stable.publisher(&topic).with_encoder(StringCodec).open().await?;
    let mut res = "lost".to_string();
    for j in 0..6 {
        publ.send(format!("m{j}")).await?;
        match tokio::time::timeout(Duration::from_millis(400), rx.recv()).await { Ok(Some(x)) => { res = if x.starts_with("item:m") { "ok".into() } else { x }; break; } _ => {} }
    }
    reader.abort();
    Ok(res)
}

/// the server the client knows goes away and an impostor with certificates of another CA takes its port, so
/// that every reconnection attempt fails at once (a dead port would cost a QUIC handshake timeout per attempt)
/// The impostor is a bare QUIC endpoint that notes when each connection attempt arrives (the client refuses its
/// certificate, so every attempt fails with a connection error).
struct Gone { rt: Option<crate::e2e::Rt>, addr: SocketAddr, other: Certs, seen: std::sync::Arc<std::sync::Mutex<Vec<std::time::Instant>>> }
impl Gone {
    fn shutdown_background(&mut self) {
        if let Some(rt) = self.rt.take() { drop(rt); }
        std::thread::sleep(Duration::from_millis(200));
        let cert = rustls::Certificate(std::fs::read(self.other.server("localhost.der")).expect("impostor certificate"));
        let key = rustls::PrivateKey(std::fs::read(self.other.server("localhost.key.der")).expect("impostor key"));
        let mut crypto = rustls::ServerConfig::builder().with_safe_defaults().with_no_client_auth().with_single_cert(vec![cert], key).expect("impostor tls");
        crypto.alpn_protocols = vec![b"hq-29".to_vec()];
        let cfg = quinn::ServerConfig::with_crypto(std::sync::Arc::new(crypto));
        let mut endpoint = None;
        for _ in 0..50 {
            match quinn::Endpoint::server(cfg.clone(), self.addr) { Ok(e) => { endpoint = Some(e); break; } Err(_) => std::thread::sleep(Duration::from_millis(50)) }
        }
        let endpoint = endpoint.expect("the impostor could not take the port over");
        let seen = self.seen.clone();
        tokio::spawn(async move {
            while let Some(connecting) = endpoint.accept().await {
                seen.lock().unwrap().push(std::time::Instant::now());
                tokio::spawn(async move { let _ = connecting.await; });
            }
        });
    }
    /// ` attempts=<n> gaps=<ms>,<ms>,…` (time from the cut to the first attempt, then between attempts)
    fn report(&self, cut: std::time::Instant) -> String {
        let v = self.seen.lock().unwrap().clone();
        let mut prev = cut;
        let gaps: Vec<String> = v.iter().map(|t| { let g = t.saturating_duration_since(prev).as_millis(); prev = *t; g.to_string() }).collect();
        format!(" attempts={} gaps={}", v.len(), if gaps.is_empty() { "-".to_string() } else { gaps.join(",") })
    }
}

async fn exhaust(certs: &Certs, kind: &str, attempts: u32) -> anyhow::Result<String> {
    // a server of its own, on a runtime that is then shut down
    let rt0 = runtime();
    let addr = rt0.block_on_in_place(async { start_server(certs) })?;
    let other = Certs::generate(&scratch_dir(&format!("recB{}", TOPIC.fetch_add(1, Ordering::SeqCst))))?;
    let mut srv_rt = Gone { rt: Some(rt0), addr, other, seen: Default::default() };
    let mut cut = std::time::Instant::now();
    let n = TOPIC.fetch_add(1, Ordering::SeqCst);
    let flaky = client(addr, certs, backoff(attempts)).await?;
    let topic = format!("/verif/rex{n}");
    let r = match kind {
        "pub" => {
            let mut publ = flaky.publisher(&topic).with_encoder(StringCodec).open().await?;
            publ.send("before".into()).await?;
            srv_rt.shutdown_background();
            cut = std::time::Instant::now();
            flaky.verif_close_connection().await;
            // the stream is driven by a task of its own and only its completion is awaited with a time limit: a timer
            // wrapped around the future itself would re-poll it when it fires and hide a lost wake-up
            let h = tokio::spawn(async move {
                for j in 0..20 { if let Err(e) = publ.send(format!("m{j}")).await { return errname(&e); } }
                "no-error".to_string()
            });
            match tokio::time::timeout(Duration::from_secs(30), h).await { Err(_) => "hang".into(), Ok(r) => r? }
        }
        "sub" => {
            let mut sub = flaky.subscriber(&topic).with_decoder(StringCodec).open().await?;
            srv_rt.shutdown_background();
            cut = std::time::Instant::now();
            flaky.verif_close_connection().await;
            let h = tokio::spawn(async move { match sub.next().await { Some(Err(e)) => errname(&e), None => "ended".into(), Some(Ok(_)) => "item".into() } });
            match tokio::time::timeout(Duration::from_secs(30), h).await { Err(_) => "hang".into(), Ok(r) => r? }
        }
        "replier" => {
            let mut replier = flaky.replier(&topic).with_request_decoder(StringCodec).with_reply_encoder(StringCodec)
                .with_handler(|req: String| async move { Ok::<_, anyhow::Error>(req) }).open().await?;
            srv_rt.shutdown_background();
            cut = std::time::Instant::now();
            flaky.verif_close_connection().await;
            let h = tokio::spawn(async move { match replier.listen().await { Err(e) => errname(&e), Ok(()) => "returned-ok".into() } });
            match tokio::time::timeout(Duration::from_secs(30), h).await { Err(_) => "hang".into(), Ok(r) => r? }
        }
        _ => {
            let mut rq = flaky.requestor(&topic).with_request_encoder(StringCodec).with_reply_decoder(StringCodec).with_request_timeout(300u64)?.open().await?;
            srv_rt.shutdown_background();
            cut = std::time::Instant::now();
            flaky.verif_close_connection().await;
            let h = tokio::spawn(async move { match rq.request("q".into()).await { Err(e) => errname(&e), Ok(_) => "answered".into() } });
            match tokio::time::timeout(Duration::from_secs(30), h).await { Err(_) => "hang".into(), Ok(r) => r? }
        }
    };
    tokio::time::sleep(Duration::from_millis(150)).await;
    let rep = srv_rt.report(cut);
    Ok(if r == "TooManyRetries" { format!("{r}{rep}") } else { r })
}

trait BlockInPlace { fn block_on_in_place<F: std::future::Future>(&self, f: F) -> F::Output; }
impl BlockInPlace for tokio::runtime::Runtime {
    fn block_on_in_place<F: std::future::Future>(&self, f: F) -> F::Output {
        let _g = self.enter();
        futures::executor::block_on(f)
    }
}

pub fn run(cfg: &Cfg) {
    let mut out = Out::new(&cfg.out, "e2erec");
    let rt = runtime();
    let certs = Certs::generate(&scratch_dir("rec")).expect("certificates");
    let addr = rt.block_on(async { start_server(&certs) }).expect("server");
    let mut cases: Vec<String> = vec![];
    if let Some(lines) = cfg.replay_lines() { cases = lines; } else {
        for kind in ["pub", "sub", "replier", "requestor"] {
            cases.push(format!("rec {kind} 1 3"));
            cases.push(format!("rec {kind} 4 2"));   // more outages than the budget of one
            cases.push(format!("rec exhaust {kind} 3"));
        }
        cases.push("rec displaced 3".into());
        cases.push("rec displaced 0".into());
        cases.push("rec takeover 40".into());
        cases.push("rec subone 3 2".into());
        cases.push("rec siblings 2 3".into());
        cases.push("rec lonereplier 2 3".into());
        cases.push("rec closing 2 3".into());
        cases.push("rec quiet 3 1".into());
        cases.push("rec quiet 5 2".into());
        cases.push("rec exhaust sub 0".into());
        cases.push("rec exhaust pub 0".into());
        cases.push("rec pub 3 1".into());
        cases.push("rec replier 6 2".into());
        cases.push("rec pubfeed 2 3".into());
        for kind in ["sub", "pub", "requestor"] { cases.push(format!("rec midreg {kind} 4")); }
        // a backoff delay longer than the request timeout: reconnecting is not bounded by the timeout of the call that noticed the loss
        cases.push("rec requestor 2 3 slow".into());
        cases.push("rec sub 1 2 slow".into());
        // other backoff laws, budgets of one attempt for every kind
        for (i, kind) in ["pub", "sub", "replier", "requestor"].iter().enumerate() {
            let law = ["lin", "exp", "cap", "lin"][i];
            cases.push(format!("rec exhaust {kind} {} {law}", 2 + i));
            cases.push(format!("rec {kind} 2 3 {}", ["exp", "cap", "lin", "exp"][i]));
            if *kind != "pub" { cases.push(format!("rec {kind} 3 1")); }
        }
    }
    for c in &cases {
        let mut t: Vec<&str> = c.split(' ').collect();
        let law = if ["const", "lin", "exp", "cap", "slow"].contains(t.last().unwrap()) { t.pop().unwrap() } else { "const" };
        *LAW.lock().unwrap() = law.to_string();
        let res = rt.block_on(async {
            if t[1] == "exhaust" { tokio::time::timeout(Duration::from_secs(150), exhaust(&certs, t[2], t[3].parse().unwrap())).await }
            else if t[1] == "displaced" || t[1] == "takeover" { tokio::time::timeout(Duration::from_secs(60), displaced(addr, &certs, t[2].parse().unwrap(), t[1] == "takeover")).await }
            else if t[1] == "midreg" { tokio::time::timeout(Duration::from_secs(60), midreg(&certs, t[2], t[3].parse().unwrap())).await }
            else if t[1] == "quiet" { tokio::time::timeout(Duration::from_secs(60), quiet(addr, &certs, t[2].parse().unwrap(), t[3].parse().unwrap())).await }
            else { tokio::time::timeout(Duration::from_secs(60), case(addr, &certs, t[1], t[2].parse().unwrap(), t[3].parse().unwrap())).await }
        });
        let (imp, mon) = match res {
            Err(_) => ("TIMEOUT".to_string(), Err("C12: the scenario hung".to_string())),
            Ok(Err(e)) => (format!("ERROR {}", format!("{e:?}").replace('\n', " ").chars().take(160).collect::<String>()), Err(format!("C12: {e}"))),
            Ok(Ok(line)) => {
                // the arrival times of the attempts are for the monitor only
                let (line, gaps) = match line.split_once(" gaps=") { Some((l, g)) => (l.to_string(), g.to_string()), None => (line, String::new()) };
                let m = if t[1] == "exhaust" {
                    let budget: u32 = t[3].parse().unwrap();
                    if !line.starts_with("TooManyRetries") { Err(format!("C12: with the server gone the {} stream reported `{line}` instead of too-many-retries", t[2])) }
                    else if line != format!("TooManyRetries attempts={budget}") { Err(format!("C12: with the server gone and a budget of {budget} attempts the {} stream gave up after {line} (each outage gets exactly the configured number of attempts)", t[2])) }
                    else {
                        // every attempt is preceded by the delay its schedule prescribes (C13's law, observed at the peer)
                        let want: Vec<u128> = strategy(law, budget).into_iter().map(|a| a.duration.as_millis()).collect();
                        let got: Vec<u128> = gaps.split(',').filter_map(|g| g.parse().ok()).collect();
                        match want.iter().zip(got.iter()).enumerate().find(|(_, (w, g))| **g + 3 < **w) {
                            Some((i, (w, g))) => Err(format!("C12/C13: attempt {} of the {} stream ({law} backoff) arrived {g} ms after the previous one; its schedule says {w} ms (delays {want:?}, observed {got:?})", i + 1, t[2])),
                            None => Ok(()),
                        }
                    }
                } else if t[1] == "displaced" {
                    if line == "TooManyRetries" { Ok(()) } else { Err(format!("C12/C10: a replier whose every registration is refused (another replier stays bound) with a budget of {} attempts: `{line}` instead of too-many-retries", t[2])) }
                } else if t[1] == "takeover" {
                    if line == "ok" { Ok(()) } else { Err(format!("C12/C10: the waiting replier did not take over after the bound one left: {line}")) }
                } else if t[1] == "midreg" {
                    if line == "ok" { Ok(()) } else { Err(format!("C12: the connection was lost again while the {} stream was re-registering (budget {} attempts): {line} instead of recovering on a later attempt", t[2], t[3])) }
                } else if t[1] == "quiet" {
                    if line == "ok" { Ok(()) } else { Err(format!("C12: a subscriber on a silent topic, {} outages with a budget of {} attempts each: {line}", t[2], t[3])) }
                } else {
                    let want = vec!["ok"; t[2].parse::<usize>().unwrap()].join(",");
                    if line == want { Ok(()) } else { Err(format!("C12: {} stream over {} outages (budget {} attempts per outage): {line}", t[1], t[2], t[3])) }
                };
                (line, m)
            }
        };
        out.stat(&format!("kind_{}", if t[1] == "exhaust" { "exhaust" } else { t[1] }));
        out.case(c, &imp, mon);
    }
    let _ = std::fs::remove_dir_all(&certs.dir);
    out.finish();
}
