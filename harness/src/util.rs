//! Shared helpers: deterministic PRNG, panic capture, output files.
use std::fmt::Write as _;
use std::fs::File;
use std::io::{BufWriter, Write};
use std::panic::{catch_unwind, AssertUnwindSafe};
use std::path::{Path, PathBuf};

/// splitmix64: every random choice of every generator derives from one state seeded by VERIF_SEED.
#[derive(Clone)]
pub struct Rng(pub u64);

impl Rng {
    pub fn new(seed: u64, stream: &str) -> Self {
        let mut h = seed ^ 0x9E37_79B9_7F4A_7C15;
        for b in stream.bytes() {
            h = (h ^ b as u64).wrapping_mul(0x100_0000_01B3);
        }
        let mut r = Rng(h);
        r.next();
        r
    }
    pub fn next(&mut self) -> u64 {
        self.0 = self.0.wrapping_add(0x9E37_79B9_7F4A_7C15);
        let mut z = self.0;
        z = (z ^ (z >> 30)).wrapping_mul(0xBF58_476D_1CE4_E5B9);
        z = (z ^ (z >> 27)).wrapping_mul(0x94D0_49BB_1331_11EB);
        z ^ (z >> 31)
    }
    /// uniform in 0..n (n > 0)
    pub fn below(&mut self, n: u64) -> u64 {
        self.next() % n
    }
    pub fn range(&mut self, lo: u64, hi_incl: u64) -> u64 {
        lo + self.below(hi_incl - lo + 1)
    }
    pub fn chance(&mut self, num: u64, den: u64) -> bool {
        self.below(den) < num
    }
    pub fn pick<'a, T>(&mut self, xs: &'a [T]) -> &'a T {
        &xs[self.below(xs.len() as u64) as usize]
    }
    pub fn bytes(&mut self, n: usize) -> Vec<u8> {
        (0..n).map(|_| self.next() as u8).collect()
    }
}

/// Runs `f`, turning a panic into Err(message). The default hook is silenced by `quiet_panics`.
pub fn catch<T>(f: impl FnOnce() -> T) -> Result<T, String> {
    catch_unwind(AssertUnwindSafe(f)).map_err(|e| {
        if let Some(s) = e.downcast_ref::<&str>() {
            s.to_string()
        } else if let Some(s) = e.downcast_ref::<String>() {
            s.clone()
        } else {
            "panic".to_string()
        }
    })
}

/// where the last panic happened (panics of the code under test are expected and caught; a panic of the harness
/// itself ends the run, and then this says where)
pub static LAST_PANIC_AT: std::sync::Mutex<String> = std::sync::Mutex::new(String::new());

pub fn quiet_panics() {
    std::panic::set_hook(Box::new(|info| {
        if let (Some(l), Ok(mut g)) = (info.location(), LAST_PANIC_AT.lock()) { *g = format!("{}:{}", l.file(), l.line()); }
    }));
}

pub fn hex(b: &[u8]) -> String {
    if b.is_empty() {
        return "-".to_string();
    }
    let mut s = String::with_capacity(b.len() * 2);
    for x in b {
        let _ = write!(s, "{:02x}", x);
    }
    s
}

pub fn unhex(s: &str) -> Vec<u8> {
    if s == "-" {
        return vec![];
    }
    (0..s.len() / 2)
        .map(|i| u8::from_str_radix(&s[2 * i..2 * i + 2], 16).unwrap())
        .collect()
}

/// Output of one suite: the case lines given to the Lean driver, what the implementation did on each
/// (one line per case), and the verdict of the property monitor evaluated on the implementation.
pub struct Out {
    pub cases: BufWriter<File>,
    pub imp: BufWriter<File>,
    pub mon: BufWriter<File>,
    pub dir: PathBuf,
    pub suite: String,
    pub n_cases: u64,
    pub n_mon_fail: u64,
    pub stats: std::collections::BTreeMap<String, u64>,
    pub samples: Vec<String>,
    pub n_trivial: u64,
    trivial_next: bool,
}

impl Out {
    pub fn new(dir: &Path, suite: &str) -> Self {
        std::fs::create_dir_all(dir).unwrap();
        let f = |ext: &str| BufWriter::new(File::create(dir.join(format!("{suite}.{ext}"))).unwrap());
        Out {
            cases: f("cases"),
            imp: f("impl"),
            mon: f("mon"),
            dir: dir.to_path_buf(),
            suite: suite.to_string(),
            n_cases: 0,
            n_mon_fail: 0,
            stats: Default::default(),
            samples: vec![],
            n_trivial: 0,
            trivial_next: false,
        }
    }
    /// Record one case. `monitor` is Ok(()) when the implementation satisfied the property on this case,
    /// Err(why) otherwise. Neither `case` nor `imp` may contain a newline.
    /// The next case recorded is trivial by the suite's stated rule (it is still run and compared).
    pub fn mark_trivial(&mut self) {
        self.trivial_next = true;
    }
    pub fn case(&mut self, case: &str, imp: &str, monitor: Result<(), String>) {
        if self.trivial_next {
            self.n_trivial += 1;
            self.trivial_next = false;
        }
        debug_assert!(!case.contains('\n') && !imp.contains('\n'));
        writeln!(self.cases, "{case}").unwrap();
        writeln!(self.imp, "{imp}").unwrap();
        match monitor {
            Ok(()) => writeln!(self.mon, "ok").unwrap(),
            Err(why) => {
                self.n_mon_fail += 1;
                writeln!(self.mon, "FAIL {}", why.replace('\n', " ")).unwrap()
            }
        }
        if self.samples.len() < 3 || (self.n_cases % 997 == 0 && self.samples.len() < 8) {
            let mut c = case.to_string();
            if c.len() > 300 {
                c.truncate(300);
                c.push_str("...");
            }
            self.samples.push(c);
        }
        self.n_cases += 1;
    }
    pub fn stat(&mut self, key: &str) {
        *self.stats.entry(key.to_string()).or_insert(0) += 1;
    }
    pub fn stat_n(&mut self, key: &str, n: u64) {
        *self.stats.entry(key.to_string()).or_insert(0) += n;
    }
    pub fn finish(mut self) {
        self.cases.flush().unwrap();
        self.imp.flush().unwrap();
        self.mon.flush().unwrap();
        let j = serde_json::json!({
            "suite": self.suite,
            "cases": self.n_cases,
            "monitor_failures": self.n_mon_fail,
            "trivial": self.n_trivial,
            "distribution": self.stats,
            "samples": self.samples,
        });
        std::fs::write(
            self.dir.join(format!("{}.stats.json", self.suite)),
            serde_json::to_string_pretty(&j).unwrap(),
        )
        .unwrap();
    }
}

#[derive(Clone, Copy, PartialEq, Eq, Debug)]
pub enum Tier {
    Quick,
    Thorough,
}

pub struct Cfg {
    pub seed: u64,
    pub tier: Tier,
    pub out: PathBuf,
    /// replay mode: read case lines from this file instead of generating
    pub replay: Option<PathBuf>,
}

impl Cfg {
    pub fn n(&self, quick: u64, thorough: u64) -> u64 {
        // quick budgets are multiplied by VERIF_SCALE_BIG (random in-process cases, quick >= 100) or
        // VERIF_SCALE_SMALL (end-to-end cases); ./check raises both when the sources a property is anchored
        // in differ from the fingerprints recorded for the tree the theorems were written against
        fn factor(var: &str) -> u64 {
            std::env::var(var).ok().and_then(|s| s.parse().ok()).filter(|&x: &u64| x >= 1).unwrap_or(1)
        }
        match self.tier {
            Tier::Quick => {
                let f = if quick >= 100 { factor("VERIF_SCALE_BIG") } else { factor("VERIF_SCALE_SMALL") };
                quick.saturating_mul(f).min(thorough.max(quick))
            }
            Tier::Thorough => thorough,
        }
    }
    pub fn replay_lines(&self) -> Option<Vec<String>> {
        self.replay.as_ref().map(|p| {
            std::fs::read_to_string(p)
                .unwrap()
                .lines()
                .filter(|l| !l.trim().is_empty() && !l.starts_with('#'))
                .map(|s| s.to_string())
                .collect()
        })
    }
}

/// Byte strings on case lines: `-` (empty) or `+`-joined segments, each plain lower-case hex or `~<n>*<hh>`
/// (the byte `hh` repeated `n` times). Canonical form (used for output on both sides): a maximal run of
/// >= 8 equal bytes becomes a `~` segment, everything else is plain hex.
pub fn hx(b: &[u8]) -> String {
    if b.is_empty() {
        return "-".to_string();
    }
    let mut segs: Vec<String> = vec![];
    let mut plain = String::new();
    let mut i = 0;
    while i < b.len() {
        let mut j = i;
        while j < b.len() && b[j] == b[i] {
            j += 1;
        }
        if j - i >= 8 {
            if !plain.is_empty() {
                segs.push(std::mem::take(&mut plain));
            }
            segs.push(format!("~{}*{:02x}", j - i, b[i]));
        } else {
            for x in &b[i..j] {
                let _ = write!(plain, "{:02x}", x);
            }
        }
        i = j;
    }
    if !plain.is_empty() {
        segs.push(plain);
    }
    segs.join("+")
}

pub fn unhx(s: &str) -> Vec<u8> {
    if s == "-" {
        return vec![];
    }
    let mut out = vec![];
    for seg in s.split('+') {
        if let Some(rest) = seg.strip_prefix('~') {
            let (n, h) = rest.split_once('*').expect("bad run segment");
            let n: usize = n.parse().expect("bad run length");
            let b = u8::from_str_radix(h, 16).expect("bad run byte");
            out.extend(std::iter::repeat(b).take(n));
        } else {
            out.extend(unhex(seg));
        }
    }
    out
}

/// bookkeeping for the evidence: the largest allocation request seen per kind of guarded operation, relative to the input
pub static ALLOC_NOTES: std::sync::Mutex<Vec<(String, usize, usize)>> = std::sync::Mutex::new(vec![]);
pub fn note_alloc(op: &str, input: usize, biggest: usize) {
    let kind = op.split(':').next().unwrap_or(op).to_string();
    let mut g = ALLOC_NOTES.lock().unwrap();
    match g.iter_mut().find(|(k, _, _)| *k == kind) {
        Some(e) => { if biggest > e.2 { e.1 = input; e.2 = biggest; } }
        None => g.push((kind, input, biggest)),
    }
}

/// Logging on, output discarded: every `log` / `tracing` call site of the selium crates is enabled at the most verbose
/// level, so whatever a log statement computes (its field expressions, its `Display` / `Debug` arguments) is computed
/// in every scenario, as it is in a deployment that runs with debug logging. The text goes to a sink.
pub fn enable_logging() {
    use tracing_subscriber::prelude::*;
    let lvl = tracing::Level::TRACE;
    let targets = tracing_subscriber::filter::Targets::new()
        .with_target("selium", lvl)
        .with_target("selium_server", lvl)
        .with_target("selium_protocol", lvl)
        .with_target("selium_std", lvl)
        .with_target("selium_tools", lvl);
    let layer = tracing_subscriber::fmt::layer().with_writer(std::io::sink).with_ansi(false).with_filter(targets);
    let _ = tracing_subscriber::registry().with(layer).try_init();
}

/// `./check` sets VERIF_SEARCH when a proof obligation or a regenerated fact of the property no longer checks: the suites
/// then also run their expensive cases (the ones otherwise kept for the thorough tier) in search of a concrete failing input
pub fn searching() -> bool { std::env::var("VERIF_SEARCH").map(|v| v == "1").unwrap_or(false) }
