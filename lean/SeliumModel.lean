import SeliumModel.Backoff
import SeliumModel.Lemmas.Backoff
