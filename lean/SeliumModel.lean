import SeliumModel.Backoff
import SeliumModel.Lemmas.Backoff
import SeliumModel.Wire.Bincode
import SeliumModel.Lemmas.Bincode
import SeliumModel.Wire.Framed
import SeliumModel.Wire.Batch
import SeliumModel.Lemmas.Frame
