/-
Model of `client/src/keep_alive/backoff_strategy.rs` (`BackoffStrategyIter::next`, `saturating_mul`).

Durations are natural numbers of nanoseconds; `Duration::MAX` is `DMAX`. Every bounded machine operation
the code performs (`u128::checked_mul`, `u128::checked_pow`, `u64::try_from`, `as u32`) is modelled with its
real range, so "the schedule follows the law and saturates" is a theorem about bounded arithmetic, not a
definition.
-/
import SeliumModel.Gen.Backoff

namespace Selium.Backoff

def NANOS : Nat := 1000000000
def U32MAX : Nat := 4294967295
def U64MAX : Nat := 18446744073709551615
def U128MAX : Nat := 340282366920938463463374607431768211455
/-- `Duration::MAX` = `u64::MAX` seconds + 999 999 999 ns. -/
def DMAX : Nat := 18446744073709551615999999999

inductive Strategy where
  | linear
  | constant
  | exponential (factor : Nat)
  deriving Repr, DecidableEq

/-- `BackoffStrategy` after the builder calls. `step ≤ DMAX`, `maxAttempts ≤ U32MAX`, `factor ≤ U64MAX`
    are the ranges of the Rust types and appear as hypotheses where a theorem needs them. -/
structure Cfg where
  strategy : Strategy
  step : Nat
  maxAttempts : Nat
  maxDuration : Option Nat
  deriving Repr

/-- `BackoffStrategy::default()` with the constants read from the source by the translator. -/
def Cfg.default (s : Strategy) : Cfg :=
  { strategy := s, step := Selium.Gen.Backoff.defaultStepNanos,
    maxAttempts := Selium.Gen.Backoff.defaultMaxAttempts, maxDuration := none }

structure Attempt where
  duration : Nat
  attemptNum : Nat
  maxAttempts : Nat
  deriving Repr, DecidableEq

/-- `u128::checked_mul`. -/
def checkedMul128 (a b : Nat) : Option Nat :=
  if a * b ≤ U128MAX then some (a * b) else none

/-- `u128::checked_pow`, computed without ever forming a number above `U128MAX * b`.
    (`checkedPow_spec` shows it is `b ^ e` exactly when that fits.) -/
def checkedPow128 (b : Nat) : Nat → Option Nat
  | 0 => some 1
  | e + 1 =>
    match checkedPow128 b e with
    | none => none
    | some p => checkedMul128 p b

/-- `saturating_mul(duration, multiplier)` of the repaired code. -/
def satMul (d m : Nat) : Nat :=
  match checkedMul128 d m with
  | none => DMAX
  | some n => if n / NANOS ≤ U64MAX then (n / NANOS) * NANOS + n % NANOS else DMAX

/-- The delay computed before clamping to `max_duration`, for attempt counter `cur`. -/
def rawDelay (c : Cfg) (cur : Nat) : Nat :=
  match c.strategy with
  | .linear => satMul c.step cur
  | .constant => c.step
  | .exponential f =>
    match checkedPow128 f (cur - 1) with
    | some m => satMul c.step m
    | none => if c.step = 0 then c.step else DMAX

def clamp (c : Cfg) (d : Nat) : Nat :=
  match c.maxDuration with
  | some m => min d m
  | none => d

/-- `BackoffStrategyIter::next`: `none` when exhausted, else the attempt and the new counter.
    `cur` is the `u64` field `current_attempt` (starts at 1). -/
def next (c : Cfg) (cur : Nat) : Option (Attempt × Nat) :=
  if cur > c.maxAttempts then none
  else some ({ duration := clamp c (rawDelay c cur), attemptNum := cur % (U32MAX + 1),
               maxAttempts := c.maxAttempts }, cur + 1)

/-- Draw at most `n` attempts starting from counter `cur`. -/
def take (c : Cfg) : Nat → Nat → List Attempt
  | 0, _ => []
  | n + 1, cur =>
    match next c cur with
    | none => []
    | some (a, cur') => a :: take c n cur'

/-- The whole schedule produced by `into_iter()` (the counter starts at 1; `maxAttempts` draws exhaust it). -/
def schedule (c : Cfg) : List Attempt := take c (c.maxAttempts + 1) 1

/-- The law of C13 in unbounded arithmetic. -/
def law (c : Cfg) (attempt : Nat) : Nat :=
  match c.strategy with
  | .linear => c.step * attempt
  | .constant => c.step
  | .exponential f => c.step * f ^ (attempt - 1)

end Selium.Backoff
