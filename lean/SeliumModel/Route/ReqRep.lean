import SeliumModel.Sink.Router
import SeliumModel.Route.StreamMap
/-
`server/src/topic/reqrep.rs`: `impl Future for Topic` (the repaired code), block by block:
A buffered request -> replier, B pending rejection of a late replier, H registration channel, D replier stream,
E buffered reply -> requestor, F requestor streams, G park. Each block is a function `RR → Flow`; `next` falls
through to the following block, `again` is `continue` (start the loop over), `ret` returns from `poll`.
The child-call trace and the two oracles (order in which requestor streams / requestor sinks are polled: the
random start of `StreamMap`, the iteration order of the `HashMap` in `Router`) live in the state.
-/
namespace Selium.Route
open Selium.Sink

/-- a child call on the requestor side (`c`) or on the `n`-th replier socket (`v n`) -/
inductive REv where
  | c (e : Ev RFrame)
  | v (n : Nat) (e : Ev RFrame)
  deriving Repr

inductive RSock where
  | client (sink : Child RFrame) (stream : List (SAns RFrame))
  | server (sink : Child RFrame) (stream : List (SAns RFrame))
  deriving Repr

structure Replier where
  n : Nat
  sink : Child RFrame
  stream : List (SAns RFrame)
  deriving Repr

/-- a late replier being turned away: first the error frame is to be sent, then its sink closed -/
structure Rejection where
  toSend : Bool
  n : Nat
  sink : Child RFrame
  deriving Repr

def REPLIER_ALREADY_BOUND : Nat := 5
/-- `Frame::Error(ErrorPayload { code: REPLIER_ALREADY_BOUND, .. })` (error frames are `other (100 + code)`) -/
def rejectionFrame : RFrame := .other (100 + REPLIER_ALREADY_BOUND)

structure RR where
  server : Option Replier := none
  streams : List (StreamSt RFrame) := []
  sinks : List (Child RFrame) := []
  nextId : Nat := 0
  nextServer : Nat := 0
  queue : List RSock := []
  closed : Bool := false
  bufReq : Option RFrame := none
  bufRep : Option RFrame := none
  bufErr : Option Rejection := none
  handleReg : Bool := false
  -- loop-local flags of the current iteration
  serverPending : Bool := false
  streamPending : Bool := false
  -- oracles and trace
  so : List Nat := []
  ko : List Nat := []
  trace : List REv := []
  -- ghost logs
  taken : List (Nat × RFrame) := []        -- (client id, request as tagged by the router), in the order taken
  handed : List (Nat × RFrame) := []       -- (replier n, request its sink accepted)
  lost : List RFrame := []                 -- requests dropped: taken while no replier was bound, or refused by its sink
  repTaken : List RFrame := []             -- replies yielded by replier streams, in order
  routed : List (RFrame × Routed) := []    -- what became of each reply
  rejected : List Rejection := []          -- late repliers whose rejection is complete (with what their sink got)
  deriving Repr

inductive ROutcome where
  | blockedOnReplier      -- the bound replier's sink answered Pending
  | blockedOnRejected     -- a rejected replier's sink answered Pending
  | blockedOnRequestor    -- a requestor sink answered Pending
  | idle                  -- nothing connected, nothing buffered: sleeping on the registration channel
  | waiting               -- both sides reported Pending (or are absent); everything flushed
  | done
  | outOfFuel
  deriving DecidableEq, Repr

def ROutcome.isPending : ROutcome → Bool
  | .blockedOnReplier | .blockedOnRejected | .blockedOnRequestor | .idle | .waiting => true
  | _ => false

inductive Flow where
  | ret (o : ROutcome) (s : RR)
  | next (s : RR)
  | again (s : RR)

def Flow.state : Flow → RR
  | .ret _ s => s | .next s => s | .again s => s

def Flow.andThen (f : Flow) (g : RR → Flow) : Flow :=
  match f with
  | .next s => g s
  | other => other

def log (s : RR) (es : List REv) : RR := { s with trace := s.trace ++ es }

/-- unbind the replier: `*server = None` drops its sink and stream -/
def unbind (s : RR) (r : Replier) : RR := log { s with server := none } [.v r.n (.dropped r.n)]

/-! ### A — a buffered request goes to the replier before anything else -/
def partA (s : RR) : Flow :=
  match s.bufReq, s.server with
  | some f, some r =>
    match r.sink.readyAns with
    | .pending => .ret .blockedOnReplier (log { s with server := some { r with sink := r.sink.afterReady } } [.v r.n (.ready r.n .pending)])
    | .err => .next (unbind (log s [.v r.n (.ready r.n .err)]) r)
    | .ready =>
      if r.sink.afterReady.sendOk then
        .next (log { s with server := some { r with sink := r.sink.afterReady.afterSend f }, bufReq := none,
                            handed := s.handed ++ [(r.n, f)] }
                   [.v r.n (.ready r.n .ready), .v r.n (.send r.n f true)])
      else
        -- the replier's sink refuses this request (e.g. too large once tagged): it is dropped
        .next (log { s with server := some { r with sink := r.sink.afterReady.afterSend f }, bufReq := none,
                            lost := s.lost ++ [f] }
                   [.v r.n (.ready r.n .ready), .v r.n (.send r.n f false)])
  | _, _ => .next s

/-! ### B — tell a late replier it is not bound, then close it -/
def partB (s : RR) : Flow :=
  match s.bufErr with
  | none => .next s
  | some j =>
    if j.toSend then
      match j.sink.readyAns with
      | .pending => .ret .blockedOnRejected (log { s with bufErr := some { j with sink := j.sink.afterReady } } [.v j.n (.ready j.n .pending)])
      | .err => .next (log { s with bufErr := none, rejected := s.rejected ++ [{ j with sink := j.sink.afterReady }] }
                           [.v j.n (.ready j.n .err), .v j.n (.dropped j.n)])
      | .ready =>
        if j.sink.afterReady.sendOk then
          -- handed over: close it before anything else (`continue`)
          .again (log { s with bufErr := some { toSend := false, n := j.n, sink := j.sink.afterReady.afterSend rejectionFrame } }
                      [.v j.n (.ready j.n .ready), .v j.n (.send j.n rejectionFrame true)])
        else
          .next (log { s with bufErr := none, rejected := s.rejected ++ [{ j with sink := j.sink.afterReady.afterSend rejectionFrame }] }
                     [.v j.n (.ready j.n .ready), .v j.n (.send j.n rejectionFrame false), .v j.n (.dropped j.n)])
    else
      match j.sink.closeAns with
      | .pending => .ret .blockedOnRejected (log { s with bufErr := some { j with sink := j.sink.afterClose } } [.v j.n (.close j.n .pending)])
      | a => .next (log { s with bufErr := none, rejected := s.rejected ++ [{ j with sink := j.sink.afterClose }] }
                        [.v j.n (.close j.n a), .v j.n (.dropped j.n)])

/-- `ready!(sink.poll_flush(cx)).unwrap()` on the `Router` -/
def flushRouter (s : RR) : PollRes × RR :=
  ((routerFlush s.ko s.sinks).1,
   log { s with sinks := (routerFlush s.ko s.sinks).2.1, ko := (routerFlush s.ko s.sinks).2.2.2 }
       ((routerFlush s.ko s.sinks).2.2.1.map REv.c))

/-- flush the bound replier's sink; an error unbinds it (`keepOnErr`: only warn, used when it is leaving anyway) -/
def flushReplier (s : RR) (r : Replier) (after : RR → Flow) : Flow :=
  match r.sink.flushAns with
  | .pending => .ret .blockedOnReplier (log { s with server := some { r with sink := r.sink.afterFlush } } [.v r.n (.flush r.n .pending)])
  | .err => after (unbind (log s [.v r.n (.flush r.n .err)]) r)
  | .ready => after (log { s with server := some { r with sink := r.sink.afterFlush } } [.v r.n (.flush r.n .ready)])

/-! ### H — the registration channel -/
def adoptSock (s : RR) (sock : RSock) (q : List RSock) : RR :=
  match sock with
  | .client sink script =>
    { s with queue := q,
             streams := s.streams ++ [{ id := s.nextId, script := script }],
             sinks := s.sinks ++ [{ sink with id := s.nextId, got := [], flushed := 0 }],
             nextId := s.nextId + 1 }
  | .server sink script =>
    match s.server with
    | some _ =>
      { s with queue := q, nextServer := s.nextServer + 1,
               bufErr := some { toSend := true, n := s.nextServer, sink := { sink with id := s.nextServer, got := [], flushed := 0 } } }
    | none =>
      { s with queue := q, nextServer := s.nextServer + 1,
               server := some { n := s.nextServer, sink := { sink with id := s.nextServer, got := [], flushed := 0 }, stream := script } }

def partH (s : RR) : Flow :=
  match s.queue with
  | sock :: q => .again (adoptSock s sock q)
  | [] =>
    if s.closed then
      match (flushRouter s).1 with
      | .pending => .ret .blockedOnRequestor (flushRouter s).2
      | .ready => .ret .done (flushRouter s).2
    else if s.streams.isEmpty && s.server.isNone && s.bufReq.isNone && s.bufRep.isNone then
      .ret .idle { s with handleReg := true }
    else .next { s with handleReg := true }

/-! ### D — take the next reply from the replier, once the previous one has been handed on -/
def partD (s : RR) : Flow :=
  match s.server, s.bufRep with
  | some r, none =>
    match r.stream with
    | .item f :: q =>
      .next (log { s with server := some { r with stream := q }, bufRep := some f, repTaken := s.repTaken ++ [f] }
                 [.v r.n (.sItem r.n f)])
    | .err :: q => .next (log { s with server := some { r with stream := q } } [.v r.n (.sErr r.n)])
    | .pending :: q =>
      .next (log { s with server := some { r with stream := q }, serverPending := true } [.v r.n (.sPending r.n)])
    | [] =>
      -- the replier has finished: flush towards it (an error only warns), flush the requestors, unbind
      match r.sink.flushAns with
      | .pending => .ret .blockedOnReplier (log { s with server := some { r with sink := r.sink.afterFlush } }
                                                [.v r.n (.sEnd r.n), .v r.n (.flush r.n .pending)])
      | a =>
        match (flushRouter (log { s with server := some { r with sink := r.sink.afterFlush } }
                                [.v r.n (.sEnd r.n), .v r.n (.flush r.n a)])).1 with
        | .pending => .ret .blockedOnRequestor
            (flushRouter (log { s with server := some { r with sink := r.sink.afterFlush } } [.v r.n (.sEnd r.n), .v r.n (.flush r.n a)])).2
        | .ready => .next (unbind
            (flushRouter (log { s with server := some { r with sink := r.sink.afterFlush } } [.v r.n (.sEnd r.n), .v r.n (.flush r.n a)])).2
            { r with sink := r.sink.afterFlush })
  | _, _ => .next s

/-! ### E — a buffered reply goes to its requestor -/
def partE (s : RR) : Flow :=
  match s.bufRep with
  | none => .next s
  | some f =>
    match (routerReady s.ko s.sinks).1 with
    | .pending =>
      .ret .blockedOnRequestor
        (log { s with sinks := (routerReady s.ko s.sinks).2.1, ko := (routerReady s.ko s.sinks).2.2.2 }
             ((routerReady s.ko s.sinks).2.2.1.map REv.c))
    | .ready =>
      .next (log { s with sinks := (routerSend f (routerReady s.ko s.sinks).2.1).2.1, ko := (routerReady s.ko s.sinks).2.2.2,
                          bufRep := none, routed := s.routed ++ [(f, (routerSend f (routerReady s.ko s.sinks).2.1).1)] }
                 (((routerReady s.ko s.sinks).2.2.1 ++ (routerSend f (routerReady s.ko s.sinks).2.1).2.2).map REv.c))

/-- what the router makes of a request from requestor `sid`: the origin tag is (over)written -/
def tagRequest (sid : Nat) (h : Option Hdr) (payload : Nat) : RFrame :=
  .msg (some ((h.getD []).set CID (toString sid))) payload

/-! ### F — take the next request from the requestor streams -/
def partF (s : RR) : Flow :=
  match smPoll (s.so.headD 0) s.streams with
  | (.item sid (.msg h p), es, evs) =>
    .next (log { s with streams := es, so := s.so.drop evs.length, bufReq := some (tagRequest sid h p),
                        taken := s.taken ++ [(sid, tagRequest sid h p)], lost := s.lost ++ s.bufReq.toList }
               (evs.map REv.c))
  | (.item _ (.other _), es, evs) => .next (log { s with streams := es, so := s.so.drop evs.length } (evs.map REv.c))
  | (.error _, es, evs) => .next (log { s with streams := es, so := s.so.drop evs.length } (evs.map REv.c))
  | (.pending, es, evs) =>
    .next (log { s with streams := es, so := s.so.drop evs.length, streamPending := true } (evs.map REv.c))
  | (.none, es, evs) =>
    match (flushRouter (log { s with streams := es, so := s.so.drop evs.length } (evs.map REv.c))).1 with
    | .pending => .ret .blockedOnRequestor (flushRouter (log { s with streams := es, so := s.so.drop evs.length } (evs.map REv.c))).2
    | .ready =>
      match (flushRouter (log { s with streams := es, so := s.so.drop evs.length } (evs.map REv.c))).2.server with
      | some r => flushReplier (flushRouter (log { s with streams := es, so := s.so.drop evs.length } (evs.map REv.c))).2 r
                    (fun s' => .next { s' with streamPending := true })
      | none => .next { (flushRouter (log { s with streams := es, so := s.so.drop evs.length } (evs.map REv.c))).2 with streamPending := true }

/-! ### G — park when both sides have nothing, else go round again -/
def partG (s : RR) : Flow :=
  if s.serverPending && s.streamPending then
    match (flushRouter s).1 with
    | .pending => .ret .blockedOnRequestor (flushRouter s).2
    | .ready =>
      match (flushRouter s).2.server with
      | some r => flushReplier (flushRouter s).2 r (fun s' => .ret .waiting s')
      | none => .ret .waiting (flushRouter s).2
  else .again s

/-- one iteration of the `loop` -/
def iter (s : RR) : Flow :=
  (((((partA { s with serverPending := s.server.isNone, streamPending := false }).andThen partB).andThen partH).andThen
      partD).andThen partE).andThen partF |>.andThen partG

def rrPoll : Nat → RR → ROutcome × RR
  | 0, s => (.outOfFuel, s)
  | fuel + 1, s =>
    match iter s with
    | .ret o s' => (o, s')
    | .next s' => rrPoll fuel s'
    | .again s' => rrPoll fuel s'

/-! ### histories -/
inductive REvent where
  | enqueue (sock : RSock)
  | close
  | poll (fuel : Nat) (so ko : List Nat)

def rrApply (s : RR) : REvent → RR
  | .enqueue sock => if s.closed then s else { s with queue := s.queue ++ [sock], handleReg := false }
  | .close => { s with closed := true, handleReg := false }
  | .poll fuel so ko => (rrPoll fuel { s with so := so, ko := ko }).2

def rrExec (evs : List REvent) : RR := evs.foldl rrApply {}

end Selium.Route
