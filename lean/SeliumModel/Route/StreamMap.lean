import SeliumModel.Sink.Fanout
/-
`tokio_stream::StreamMap::poll_next` (tokio-stream 0.1.14, `poll_next_entry`), modelled exactly: entries in a
vector, a start index chosen at random (here: given by the caller, theorems quantify over it), at most
`len` polls, `swap_remove` of ended streams with the library's cursor adjustments.
A scripted stream answers `poll_next` from a queue; when the queue is exhausted it has ended.
-/
namespace Selium.Route
open Selium.Sink

inductive SAns (α : Type) where
  | item (x : α)
  | err
  | pending
  deriving Repr

structure StreamSt (α : Type) where
  id : Nat
  script : List (SAns α)
  taken : List α := []      -- ghost: items this stream has yielded, in order
  deriving Repr

inductive SMRes (α : Type) where
  | item (sid : Nat) (x : α)
  | error (sid : Nat)
  | none            -- the map is empty: `Ready(None)`
  | pending
  deriving Repr

def swapRemove {β : Type} (l : List β) (i : Nat) : List β :=
  match l.getLast? with
  | none => []
  | some last => if i + 1 = l.length then l.dropLast else (l.set i last).dropLast

variable {α : Type}

/-- the `for _ in 0..len` loop: `n` iterations left, cursor `idx`, the random `start` -/
def smLoop : Nat → Nat → Nat → List (StreamSt α) → SMRes α × List (StreamSt α) × List (Ev α)
  | 0, _, _, es => (if es.isEmpty then .none else .pending, es, [])
  | n + 1, start, idx, es =>
    match es[idx]? with
    | none => (if es.isEmpty then .none else .pending, es, [])   -- unreachable: idx < len is maintained
    | some st =>
      match st.script with
      | .item x :: q =>
        (.item st.id x, es.set idx { st with script := q, taken := st.taken ++ [x] }, [.sItem st.id x])
      | .err :: q => (.error st.id, es.set idx { st with script := q }, [.sErr st.id])
      | .pending :: q =>
        ((smLoop n start ((idx + 1) % es.length) (es.set idx { st with script := q })).1,
         (smLoop n start ((idx + 1) % es.length) (es.set idx { st with script := q })).2.1,
         .sPending st.id :: (smLoop n start ((idx + 1) % es.length) (es.set idx { st with script := q })).2.2)
      | [] =>
        -- Ready(None): remove the entry, adjust the cursor as the library does
        ((smLoop n start
            (if idx = (swapRemove es idx).length then 0
             else if idx < start ∧ start ≤ (swapRemove es idx).length then (idx + 1) % (swapRemove es idx).length
             else idx) (swapRemove es idx)).1,
         (smLoop n start
            (if idx = (swapRemove es idx).length then 0
             else if idx < start ∧ start ≤ (swapRemove es idx).length then (idx + 1) % (swapRemove es idx).length
             else idx) (swapRemove es idx)).2.1,
         .sEnd st.id :: (smLoop n start
            (if idx = (swapRemove es idx).length then 0
             else if idx < start ∧ start ≤ (swapRemove es idx).length then (idx + 1) % (swapRemove es idx).length
             else idx) (swapRemove es idx)).2.2)

/-- index of the stream with id `sid` (0 when absent) -/
def indexOfId (es : List (StreamSt α)) (sid : Nat) : Nat := (es.findIdx? (·.id = sid)).getD 0

/-- `StreamMap::poll_next` when the random start falls on the stream with id `startId` -/
def smPoll (startId : Nat) (es : List (StreamSt α)) : SMRes α × List (StreamSt α) × List (Ev α) :=
  smLoop es.length (indexOfId es startId) (indexOfId es startId) es

end Selium.Route
