import SeliumModel.Route.StreamMap
/-
`server/src/topic/pubsub.rs`: `impl Future for Topic` (with the repaired early-park arm), statement by
statement. One `poll` is the loop `iter` run until it returns; `fuel` bounds the number of iterations
(`c09_pubsub_terminates` shows a fuel linear in the available data always suffices).

Ghost state: `accepted` (items taken from publisher streams, in the order taken), `src` (which stream each came
from), `scripts` (what each publisher was going to send, recorded at adoption), `evicted` (sinks removed because they failed), `regAt` inside each sink.
-/
namespace Selium.Route
open Selium.Sink

inductive Sock (α : Type) where
  | stream (script : List (SAns α))
  | sink (c : Child α)          -- its `id` / `regAt` are assigned on adoption
  deriving Repr

structure PS (α : Type) where
  streams : List (StreamSt α) := []
  nextStream : Nat := 0
  sinks : List (Child α) := []
  nextSink : Nat := 0
  queue : List (Sock α) := []      -- the registration channel (`handle`)
  closed : Bool := false
  buffered : Option α := none
  -- ghost
  accepted : List α := []
  src : List Nat := []
  scripts : List (List (SAns α)) := []   -- what each publisher stream (by id) held when it was adopted
  evicted : List (Child α) := []
  handleReg : Bool := false        -- the registration channel holds the task's waker
  deriving Repr

/-- how one `poll` ended. The first three are `Poll::Pending`, split by what the task is waiting for. -/
inductive Outcome where
  | blockedOnSink    -- a subscriber sink answered Pending to poll_ready / poll_flush: it holds the waker
  | idle             -- nothing to do: sleeping on the registration channel only
  | waitingStreams   -- every remaining publisher stream answered Pending
  | done             -- `Poll::Ready(())`
  | outOfFuel        -- artefact of the fuel bound; `c09_pubsub_terminates` shows it does not occur
  deriving DecidableEq, Repr

def Outcome.isPending : Outcome → Bool
  | .blockedOnSink | .idle | .waitingStreams => true
  | _ => false

variable {α : Type}

/-- children that answered Pending in a list of events: they hold the task's waker -/
def watchers (evs : List (Ev α)) : List (Char × Nat) :=
  evs.filterMap fun e =>
    match e with
    | .ready i .pending => some ('k', i)
    | .flush i .pending => some ('k', i)
    | .close i .pending => some ('k', i)
    | .sPending i => some ('t', i)
    | _ => none

/-- sinks of `before` that are no longer in `after` (by id): evicted by this operation -/
def gone (before after : List (Child α)) : List (Child α) :=
  before.filter fun c => !(after.any fun d => d.id = c.id)

/-- `ready!(sink.poll_flush(cx)).unwrap()` -/
def flushSinks (s : PS α) : PollRes × PS α × List (Ev α) :=
  ((pollFlush s.sinks).1,
   { s with sinks := (pollFlush s.sinks).2.1, evicted := s.evicted ++ gone s.sinks (pollFlush s.sinks).2.1 },
   (pollFlush s.sinks).2.2)

/-- adopt one socket from the registration channel -/
def adopt (s : PS α) (sock : Sock α) (q : List (Sock α)) : PS α :=
  match sock with
  | .stream sc =>
    { s with queue := q, streams := s.streams ++ [{ id := s.nextStream, script := sc }], nextStream := s.nextStream + 1,
             scripts := s.scripts ++ [sc] }
  | .sink c =>
    { s with queue := q, sinks := insert s.sinks { c with id := s.nextSink, regAt := s.accepted.length, got := [], flushed := 0 },
             nextSink := s.nextSink + 1 }

/-- the part of one loop iteration from the stream poll on. `oracle` lists, for the stream polls still to come,
    which stream is polled; its head decides where `StreamMap` starts (the library picks at random; the
    correspondence driver passes the order observed on the implementation, theorems quantify over all lists),
    and each call consumes as many entries as it polled streams. -/
def streamPart (oracle : List Nat) (s : PS α)
    (rec : List Nat → PS α → Outcome × PS α × List (Ev α)) : Outcome × PS α × List (Ev α) :=
  match smPoll (oracle.headD 0) s.streams with
  | (.item sid x, es, evs) =>
    ((rec (oracle.drop evs.length) { s with streams := es, buffered := some x, accepted := s.accepted ++ [x], src := s.src ++ [sid] }).1,
     (rec (oracle.drop evs.length) { s with streams := es, buffered := some x, accepted := s.accepted ++ [x], src := s.src ++ [sid] }).2.1,
     evs ++ (rec (oracle.drop evs.length) { s with streams := es, buffered := some x, accepted := s.accepted ++ [x], src := s.src ++ [sid] }).2.2)
  | (.error _, es, evs) =>
    ((rec (oracle.drop evs.length) { s with streams := es }).1, (rec (oracle.drop evs.length) { s with streams := es }).2.1,
     evs ++ (rec (oracle.drop evs.length) { s with streams := es }).2.2)
  | (.none, es, evs) =>
    -- all streams have finished: flush, then go round again
    match (flushSinks { s with streams := es }).1 with
    | .pending => (.blockedOnSink, (flushSinks { s with streams := es }).2.1, evs ++ (flushSinks { s with streams := es }).2.2)
    | .ready =>
      ((rec (oracle.drop evs.length) (flushSinks { s with streams := es }).2.1).1,
       (rec (oracle.drop evs.length) (flushSinks { s with streams := es }).2.1).2.1,
       evs ++ (flushSinks { s with streams := es }).2.2 ++ (rec (oracle.drop evs.length) (flushSinks { s with streams := es }).2.1).2.2)
  | (.pending, es, evs) =>
    -- no message available: flush and park (the streams hold the waker)
    (match (flushSinks { s with streams := es }).1 with | .pending => .blockedOnSink | .ready => .waitingStreams,
     (flushSinks { s with streams := es }).2.1, evs ++ (flushSinks { s with streams := es }).2.2)

/-- the part of one iteration from the registration-channel poll on (`buffered` has been written) -/
def handlePart (oracle : List Nat) (s : PS α)
    (rec : List Nat → PS α → Outcome × PS α × List (Ev α)) : Outcome × PS α × List (Ev α) :=
  match s.queue with
  | sock :: q =>
    -- adopt it and `continue`: the channel is drained before anything else happens
    rec oracle (adopt s sock q)
  | [] =>
    if s.closed then
      -- the channel is terminated: flush, shut the sockets down, finish
      match (flushSinks s).1 with
      | .pending => (.blockedOnSink, (flushSinks s).2.1, (flushSinks s).2.2)
      | .ready => (.done, (flushSinks s).2.1, (flushSinks s).2.2)
    else if s.streams.isEmpty && s.buffered.isNone then
      -- nothing to do: complete an outstanding flush, then sleep on the channel
      (match (flushSinks s).1 with | .pending => .blockedOnSink | .ready => .idle,
       { (flushSinks s).2.1 with handleReg := true }, (flushSinks s).2.2)
    else streamPart oracle { s with handleReg := true } rec

/-- `fuel` iterations of the `loop` in `poll` -/
def pollFuel : Nat → List Nat → PS α → Outcome × PS α × List (Ev α)
  | 0, _, s => (.outOfFuel, s, [])
  | fuel + 1, oracle, s =>
    match s.buffered with
    | some x =>
      -- write the buffered item to every sink before anything else
      match (pollReady s.sinks).1 with
      | .pending =>
        (.blockedOnSink, { s with sinks := (pollReady s.sinks).2.1, evicted := s.evicted ++ gone s.sinks (pollReady s.sinks).2.1 },
         (pollReady s.sinks).2.2)
      | .ready =>
        ((handlePart oracle
            { s with sinks := (startSend x (pollReady s.sinks).2.1).1, buffered := none,
                     evicted := s.evicted ++ gone s.sinks (pollReady s.sinks).2.1
                                  ++ gone (pollReady s.sinks).2.1 (startSend x (pollReady s.sinks).2.1).1 } (pollFuel fuel)).1,
         (handlePart oracle
            { s with sinks := (startSend x (pollReady s.sinks).2.1).1, buffered := none,
                     evicted := s.evicted ++ gone s.sinks (pollReady s.sinks).2.1
                                  ++ gone (pollReady s.sinks).2.1 (startSend x (pollReady s.sinks).2.1).1 } (pollFuel fuel)).2.1,
         (pollReady s.sinks).2.2 ++ (startSend x (pollReady s.sinks).2.1).2 ++
         (handlePart oracle
            { s with sinks := (startSend x (pollReady s.sinks).2.1).1, buffered := none,
                     evicted := s.evicted ++ gone s.sinks (pollReady s.sinks).2.1
                                  ++ gone (pollReady s.sinks).2.1 (startSend x (pollReady s.sinks).2.1).1 } (pollFuel fuel)).2.2)
    | none => handlePart oracle s (pollFuel fuel)

end Selium.Route

namespace Selium.Route
open Selium.Sink
variable {α : Type}

/-- What can happen to a topic router from outside: a registration is sent into its channel, the server
    closes the channel, the executor polls it (with any fuel and any random choices of `StreamMap`). -/
inductive Event (α : Type) where
  | enqueue (sock : Sock α)
  | close
  | poll (fuel : Nat) (oracle : List Nat)

/-- sending into / closing the channel fires the waker the channel holds -/
def applyEvent (s : PS α) : Event α → PS α
  | .enqueue sock => if s.closed then s else { s with queue := s.queue ++ [sock], handleReg := false }
  | .close => { s with closed := true, handleReg := false }
  | .poll fuel oracle => (pollFuel fuel oracle s).2.1

/-- the state after any history, starting from `Topic::pair()` -/
def exec (evs : List (Event α)) : PS α := evs.foldl applyEvent {}

/-- the data one `poll` can work on: queued sockets and what the publisher streams still hold -/
def sockWeight : Sock α → Nat
  | .stream sc => sc.length + 2
  | .sink _ => 1

def streamsWeight (es : List (StreamSt α)) : Nat := (es.map fun st => st.script.length + 1).sum

def work (s : PS α) : Nat := (s.queue.map sockWeight).sum + streamsWeight s.streams

end Selium.Route
