/-
C06 — No bytes from the network can crash a decoder.

Every decoding step Selium itself implements is a total function of the input bytes in the model: it yields a
value or an `err`, never `panic`. The decoders are modelled with their real failure points (`Res.panic` exists
in the result type, and the unrepaired `decode_message_batch` / reader-based `BincodeCodec::decode` did reach
it or aborted); these theorems say the repaired code cannot. Memory: every length read from the wire is
compared with the bytes actually present before anything is copied (`takeBytes`, `decodeBatchN`), so a decoded
value is never larger than the input it came from (`c06_bincode_no_amplification`).
Third-party decompressors are parameters (`Compressor.Total`): exercised in a child process under an
address-space limit by the `codec` suite, not proved. Theorems depending on that carry `_partial`.
-/
import SeliumModel.Lemmas.Total
import SeliumModel.Client.Codecs
import SeliumModel.Client.Subscriber
import SeliumModel.Gen.Client

namespace Selium.Client
open Selium Selium.Bincode Selium.Wire

/-- `MessageCodec::decode` on any buffer: a frame, "need more", or an error. -/
theorem c06_frame_total (src : Bytes) (s : String) : decode src ≠ .panic s := decode_no_panic src s

theorem drain_no_panic_item (buf : Bytes) : ∀ i ∈ (drain buf).1, ∀ s, i ≠ .panic s := by
  induction hn : buf.length using Nat.strongRecOn generalizing buf with
  | ind n ih =>
    match hd : decode buf with
    | .ok (some f, rest) =>
      have hlt : rest.length < buf.length := decode_shrinks buf f rest hd
      rw [drain_some buf f rest hd]
      intro i hi s
      simp only [List.mem_cons] at hi
      rcases hi with rfl | hi
      · simp
      · exact ih rest.length (by omega) rest rfl i hi s
    | .ok (none, b') => rw [drain_none buf b' hd]; simp
    | .err e => rw [drain_err buf e hd]; simp
    | .panic e => exact absurd hd (decode_no_panic buf e)

/-- Whatever bytes arrive, in whatever chunks, a `FramedRead<_, MessageCodec>` yields frames and errors only. -/
theorem c06_stream_total (buf : Bytes) (reads : List Read) : ∀ i ∈ run buf reads, ∀ s, i ≠ .panic s := by
  induction reads generalizing buf with
  | nil => simp [run]
  | cons r rs ih =>
    cases r with
    | pending => simpa [run] using ih buf
    | data c =>
      simp only [run]
      cases h : (drain (buf ++ c)).2 with
      | none => simpa using drain_no_panic_item (buf ++ c)
      | some left =>
        intro i hi s
        simp only [List.mem_append] at hi
        rcases hi with hi | hi
        · exact drain_no_panic_item (buf ++ c) i hi s
        · exact ih left i hi s
    | eof =>
      simp only [run]
      cases h : (drain buf).2 with
      | none => simpa using drain_no_panic_item buf
      | some left =>
        by_cases he : left.isEmpty
        · simpa [he] using drain_no_panic_item buf
        · intro i hi s
          simp only [he, Bool.false_eq_true, if_false, List.mem_append, List.mem_singleton] at hi
          rcases hi with hi | rfl
          · exact drain_no_panic_item buf i hi s
          · simp

/-- `decode_message_batch` on any bytes. -/
theorem c06_batch_total (b : Bytes) (s : String) : decodeBatch b ≠ .panic s := decodeBatch_no_panic b s

/-- … and every message it returns is a piece of the input: nothing is sized from a declared count or length. -/
theorem c06_batch_bounded (n : Nat) (b : Bytes) (ms : List Bytes) (h : decodeBatchN n b = .ok ms) :
    (ms.map List.length).sum + 8 * ms.length ≤ b.length := by
  induction n generalizing b ms with
  | zero => simp [decodeBatchN] at h; subst h; simp
  | succ n ih =>
    unfold decodeBatchN at h
    split at h
    · simp at h
    · split at h
      · simp at h
      · rename_i h8 hl
        split at h
        · rename_i ms' hrec
          simp at h
          subst h
          have := ih _ _ hrec
          simp only [List.map_cons, List.sum_cons, List.length_cons, List.length_take, List.length_drop] at this ⊢
          omega
        · simp at h
        · simp at h

theorem c06_string_total (b : Bytes) (s : String) : stringCodec.decode b ≠ .panic s := by
  simp only [stringCodec]; split <;> simp

theorem c06_bytes_total (b : Bytes) (s : String) : bytesCodec.decode b ≠ .panic s := by
  simp [bytesCodec]

/-- `BincodeCodec::decode` for every schema, on any bytes. -/
theorem c06_bincode_total (t : Ty) (b : Bytes) (s : String) : (bincodeCodec t).decode b ≠ .panic s := by
  simp only [bincodeCodec]
  split
  · simp
  · simp
  · rename_i s' h; exact absurd h (dec_no_panic t b s')

theorem mapRes_no_panic {α} (f : Bytes → Res α) (hf : ∀ b s, f b ≠ .panic s) (l : List Bytes) (s : String) :
    mapRes f l ≠ .panic s := by
  induction l generalizing s with
  | nil => simp [mapRes]
  | cons a as ih =>
    unfold mapRes
    split
    · split
      · simp
      · simp
      · rename_i s' h; exact absurd h (ih s')
    · simp
    · rename_i s' h; exact absurd h (hf a s')

/-- The subscriber's pipeline decompress → unbatch → decode (and the un-batched decompress → decode) on
    whatever a publisher sent, for a panic-free codec and a total decompressor. -/
theorem c06_pipeline_total_partial {α} (c : Codec α) (hc : ∀ b s, c.decode b ≠ .panic s)
    (z : Compressor) (hz : z.Total) (w : Bytes) (s : String) :
    recvOne c z w ≠ .panic s ∧ recvBatch c z w ≠ .panic s := by
  constructor
  · unfold recvOne
    split
    · exact hc _ s
    · simp
    · rename_i s' h; exact absurd h (hz w s')
  · unfold recvBatch
    split
    · split
      · exact mapRes_no_panic c.decode hc _ s
      · simp
      · rename_i s' h; exact absurd h (decodeBatch_no_panic _ s')
    · simp
    · rename_i s' h; exact absurd h (hz w s')

/-- With no decompression configured the pipeline is total outright. -/
theorem c06_pipeline_total_uncompressed {α} (c : Codec α) (hc : ∀ b s, c.decode b ≠ .panic s)
    (w : Bytes) (s : String) :
    recvOne c noCompression w ≠ .panic s ∧ recvBatch c noCompression w ≠ .panic s :=
  c06_pipeline_total_partial c hc noCompression (by intro b s; simp [noCompression]) w s

/-! ### the subscriber's `poll_next` itself: bounded work, bounded stack, no panic

`Client/Subscriber.lean` models one call of `Subscriber::poll_next` with the stack depth it reaches. Frames that
yield nothing (empty batches) make it go on to the next frame; done by self-call that costs one stack frame per
such frame — `c06_recursive_subscriber_stack_grows` — so a publisher could overflow the consumer's stack with a
run of 17-byte frames; done by a loop the depth is 1 whatever arrives. Which of the two the code does is read
from the source (`Gen.Client.subscriberPollNextRecurses`). -/

/-- one call of `poll_next` ends: it looks at each buffered frame at most once -/
theorem c06_subscriber_poll_terminates {α} (c : Codec α) (z : Compressor) (r : Bool) (fuel : Nat) (s : Sub)
    (h : s.script.length < fuel) : ∀ o s' d, Sub.pollNext c z r fuel s = (o, s', d) → o ≠ .outOfFuel := by
  induction fuel generalizing s with
  | zero => omega
  | succ n ih =>
    intro o s' d hp
    unfold Sub.pollNext at hp
    split at hp
    · cases hp; simp
    · split at hp
      · cases hp; simp
      · cases hp; simp
      · cases hp; simp
      · cases hp; simp
      · cases hp; simp
      · rename_i b q hq
        split at hp
        · split at hp
          · rename_i ms _
            have hl : ({ batch := ms, script := q } : Sub).script.length < n := by
              simp only [hq, List.length_cons] at h; simpa using (by omega : q.length < n)
            cases hp
            exact ih { batch := ms, script := q } hl _ _ _ rfl
          · cases hp; simp
          · cases hp; simp
        · cases hp; simp
        · cases hp; simp

/-- written as a loop, a call of `poll_next` never nests: the stack depth is 1 whatever frames arrive -/
theorem c06_subscriber_stack_bounded {α} (c : Codec α) (z : Compressor) (fuel : Nat) (s : Sub) :
    (Sub.pollNext c z false fuel s).2.2 ≤ 1 := by
  induction fuel generalizing s with
  | zero => simp [Sub.pollNext]
  | succ n ih =>
    unfold Sub.pollNext
    split
    · simp
    · split <;> try simp
      split
      · split
        · simpa using ih _
        · simp
        · simp
      · simp
      · simp

/-- … and the code is written that way (regenerated from `subscriber.rs` on every run) -/
theorem c06_subscriber_does_not_recurse : Gen.Client.subscriberPollNextRecurses = false := by decide

/-- The defect this guards against, for the record: with the self-call, `n` empty batch frames followed by a message
    put `n + 1` activations on the stack in a single call — unbounded in what a publisher sends. -/
theorem c06_recursive_subscriber_stack_grows (n : Nat) (b : Bytes) :
    (Sub.pollNext bytesCodec noCompression true (n + 2)
      { batch := [], script := List.replicate n (.frame (.batch (beBytes 8 0))) ++ [.frame (.message b)] }).2.2 = n + 1 := by
  induction n with
  | zero => simp [Sub.pollNext]
  | succ k ih =>
    have hd : decodeBatch (beBytes 8 0) = .ok [] := by decide
    rw [List.replicate_succ, List.cons_append]
    unfold Sub.pollNext
    simp only [noCompression, hd, if_true]
    simp only [noCompression] at ih
    rw [ih]

/-- no item a subscriber yields is a panic, for a panic-free codec and a total decompressor -/
theorem c06_subscriber_total_partial {α} (c : Codec α) (hc : ∀ b s, c.decode b ≠ .panic s) (z : Compressor) (hz : z.Total)
    (r : Bool) (fuel : Nat) (s : Sub) (x : Res α) (h : (Sub.pollNext c z r fuel s).1 = .item x) : ∀ e, x ≠ .panic e := by
  induction fuel generalizing s with
  | zero => simp [Sub.pollNext] at h
  | succ n ih =>
    unfold Sub.pollNext at h
    split at h
    · cases h; exact hc _
    · split at h
      · simp at h
      · simp at h
      · cases h; simp
      · cases h; intro e; exact (c06_pipeline_total_partial c hc z hz _ e).1
      · simp at h
      · split at h
        · split at h
          · exact ih _ h
          · cases h; simp
          · rename_i e he; exact absurd he (decodeBatch_no_panic _ e)
        · cases h; simp
        · rename_i e he; exact absurd he (hz _ e)

/-- hypotheses are met: three empty batches then a message is four deep with the self-call, one deep with the loop -/
example : (Sub.pollNext bytesCodec noCompression true 9
    { script := [.frame (.batch (beBytes 8 0)), .frame (.batch (beBytes 8 0)), .frame (.batch (beBytes 8 0)), .frame (.message [97])] }).2.2 = 4 := by decide
example : (Sub.pollNext bytesCodec noCompression false 9
    { script := [.frame (.batch (beBytes 8 0)), .frame (.batch (beBytes 8 0)), .frame (.batch (beBytes 8 0)), .frame (.message [97])] }).2.2 = 1 := by decide

/-! Non-vacuity: the inputs that crashed the unrepaired decoders are errors now. -/
example : decodeBatch [0, 0, 0] = .err "batch-truncated" := by decide
example : decodeBatch (beBytes 8 1 ++ beBytes 8 (2^64 - 1)) = .err "batch-truncated" := by decide
example : ((bincodeCodec .str).decode (leBytes 8 (2^40) ++ [97, 98, 99])).isOk = false := by decide +kernel

end Selium.Client

#print axioms Selium.Client.c06_frame_total
#print axioms Selium.Client.drain_no_panic_item
#print axioms Selium.Client.c06_stream_total
#print axioms Selium.Client.c06_batch_total
#print axioms Selium.Client.c06_batch_bounded
#print axioms Selium.Client.c06_string_total
#print axioms Selium.Client.c06_bytes_total
#print axioms Selium.Client.c06_bincode_total
#print axioms Selium.Client.mapRes_no_panic
#print axioms Selium.Client.c06_pipeline_total_partial
#print axioms Selium.Client.c06_pipeline_total_uncompressed
#print axioms Selium.Client.c06_subscriber_poll_terminates
#print axioms Selium.Client.c06_subscriber_stack_bounded
#print axioms Selium.Client.c06_subscriber_does_not_recurse
#print axioms Selium.Client.c06_recursive_subscriber_stack_grows
#print axioms Selium.Client.c06_subscriber_total_partial
