/-
C06 — No bytes from the network can crash a decoder.

Every decoding step Selium itself implements is a total function of the input bytes in the model: it yields a
value or an `err`, never `panic`. The decoders are modelled with their real failure points (`Res.panic` exists
in the result type, and the unrepaired `decode_message_batch` / reader-based `BincodeCodec::decode` did reach
it or aborted); these theorems say the repaired code cannot. Memory: every length read from the wire is
compared with the bytes actually present before anything is copied (`takeBytes`, `decodeBatchN`), so a decoded
value is never larger than the input it came from (`c06_bincode_no_amplification`).
Third-party decompressors are parameters (`Compressor.Total`): exercised in a child process under an
address-space limit by the `codec` suite, not proved. Theorems depending on that carry `_partial`.
-/
import SeliumModel.Lemmas.Total
import SeliumModel.Client.Codecs

namespace Selium.Client
open Selium Selium.Bincode Selium.Wire

/-- `MessageCodec::decode` on any buffer: a frame, "need more", or an error. -/
theorem c06_frame_total (src : Bytes) (s : String) : decode src ≠ .panic s := decode_no_panic src s

theorem drain_no_panic_item (buf : Bytes) : ∀ i ∈ (drain buf).1, ∀ s, i ≠ .panic s := by
  induction hn : buf.length using Nat.strongRecOn generalizing buf with
  | ind n ih =>
    match hd : decode buf with
    | .ok (some f, rest) =>
      have hlt : rest.length < buf.length := decode_shrinks buf f rest hd
      rw [drain_some buf f rest hd]
      intro i hi s
      simp only [List.mem_cons] at hi
      rcases hi with rfl | hi
      · simp
      · exact ih rest.length (by omega) rest rfl i hi s
    | .ok (none, b') => rw [drain_none buf b' hd]; simp
    | .err e => rw [drain_err buf e hd]; simp
    | .panic e => exact absurd hd (decode_no_panic buf e)

/-- Whatever bytes arrive, in whatever chunks, a `FramedRead<_, MessageCodec>` yields frames and errors only. -/
theorem c06_stream_total (buf : Bytes) (reads : List Read) : ∀ i ∈ run buf reads, ∀ s, i ≠ .panic s := by
  induction reads generalizing buf with
  | nil => simp [run]
  | cons r rs ih =>
    cases r with
    | pending => simpa [run] using ih buf
    | data c =>
      simp only [run]
      cases h : (drain (buf ++ c)).2 with
      | none => simpa using drain_no_panic_item (buf ++ c)
      | some left =>
        intro i hi s
        simp only [List.mem_append] at hi
        rcases hi with hi | hi
        · exact drain_no_panic_item (buf ++ c) i hi s
        · exact ih left i hi s
    | eof =>
      simp only [run]
      cases h : (drain buf).2 with
      | none => simpa using drain_no_panic_item buf
      | some left =>
        by_cases he : left.isEmpty
        · simpa [he] using drain_no_panic_item buf
        · intro i hi s
          simp only [he, Bool.false_eq_true, if_false, List.mem_append, List.mem_singleton] at hi
          rcases hi with hi | rfl
          · exact drain_no_panic_item buf i hi s
          · simp

/-- `decode_message_batch` on any bytes. -/
theorem c06_batch_total (b : Bytes) (s : String) : decodeBatch b ≠ .panic s := decodeBatch_no_panic b s

/-- … and every message it returns is a piece of the input: nothing is sized from a declared count or length. -/
theorem c06_batch_bounded (n : Nat) (b : Bytes) (ms : List Bytes) (h : decodeBatchN n b = .ok ms) :
    (ms.map List.length).sum + 8 * ms.length ≤ b.length := by
  induction n generalizing b ms with
  | zero => simp [decodeBatchN] at h; subst h; simp
  | succ n ih =>
    unfold decodeBatchN at h
    split at h
    · simp at h
    · split at h
      · simp at h
      · rename_i h8 hl
        split at h
        · rename_i ms' hrec
          simp at h
          subst h
          have := ih _ _ hrec
          simp only [List.map_cons, List.sum_cons, List.length_cons, List.length_take, List.length_drop] at this ⊢
          omega
        · simp at h
        · simp at h

theorem c06_string_total (b : Bytes) (s : String) : stringCodec.decode b ≠ .panic s := by
  simp only [stringCodec]; split <;> simp

theorem c06_bytes_total (b : Bytes) (s : String) : bytesCodec.decode b ≠ .panic s := by
  simp [bytesCodec]

/-- `BincodeCodec::decode` for every schema, on any bytes. -/
theorem c06_bincode_total (t : Ty) (b : Bytes) (s : String) : (bincodeCodec t).decode b ≠ .panic s := by
  simp only [bincodeCodec]
  split
  · simp
  · simp
  · rename_i s' h; exact absurd h (dec_no_panic t b s')

theorem mapRes_no_panic {α} (f : Bytes → Res α) (hf : ∀ b s, f b ≠ .panic s) (l : List Bytes) (s : String) :
    mapRes f l ≠ .panic s := by
  induction l generalizing s with
  | nil => simp [mapRes]
  | cons a as ih =>
    unfold mapRes
    split
    · split
      · simp
      · simp
      · rename_i s' h; exact absurd h (ih s')
    · simp
    · rename_i s' h; exact absurd h (hf a s')

/-- The subscriber's pipeline decompress → unbatch → decode (and the un-batched decompress → decode) on
    whatever a publisher sent, for a panic-free codec and a total decompressor. -/
theorem c06_pipeline_total_partial {α} (c : Codec α) (hc : ∀ b s, c.decode b ≠ .panic s)
    (z : Compressor) (hz : z.Total) (w : Bytes) (s : String) :
    recvOne c z w ≠ .panic s ∧ recvBatch c z w ≠ .panic s := by
  constructor
  · unfold recvOne
    split
    · exact hc _ s
    · simp
    · rename_i s' h; exact absurd h (hz w s')
  · unfold recvBatch
    split
    · split
      · exact mapRes_no_panic c.decode hc _ s
      · simp
      · rename_i s' h; exact absurd h (decodeBatch_no_panic _ s')
    · simp
    · rename_i s' h; exact absurd h (hz w s')

/-- With no decompression configured the pipeline is total outright. -/
theorem c06_pipeline_total_uncompressed {α} (c : Codec α) (hc : ∀ b s, c.decode b ≠ .panic s)
    (w : Bytes) (s : String) :
    recvOne c noCompression w ≠ .panic s ∧ recvBatch c noCompression w ≠ .panic s :=
  c06_pipeline_total_partial c hc noCompression (by intro b s; simp [noCompression]) w s

/-! Non-vacuity: the inputs that crashed the unrepaired decoders are errors now. -/
example : decodeBatch [0, 0, 0] = .err "batch-truncated" := by decide
example : decodeBatch (beBytes 8 1 ++ beBytes 8 (2^64 - 1)) = .err "batch-truncated" := by decide
example : ((bincodeCodec .str).decode (leBytes 8 (2^40) ++ [97, 98, 99])).isOk = false := by decide +kernel

end Selium.Client

#print axioms Selium.Client.c06_frame_total
#print axioms Selium.Client.drain_no_panic_item
#print axioms Selium.Client.c06_stream_total
#print axioms Selium.Client.c06_batch_total
#print axioms Selium.Client.c06_batch_bounded
#print axioms Selium.Client.c06_string_total
#print axioms Selium.Client.c06_bytes_total
#print axioms Selium.Client.c06_bincode_total
#print axioms Selium.Client.mapRes_no_panic
#print axioms Selium.Client.c06_pipeline_total_partial
#print axioms Selium.Client.c06_pipeline_total_uncompressed
