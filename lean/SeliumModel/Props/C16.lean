/-
C16 — Shutdown: every topic router terminates after flushing what it accepted.

Pub/sub half. Once the registration channel is closed, a poll from ANY state (idle, mid-delivery with an item
buffered, sockets still queued, only publishers or only subscribers connected) either finishes or is waiting
for a subscriber sink that answered Pending (which holds the waker); it never goes back to waiting for
publishers. If the subscribers can accept data it finishes, within `work s + 1` loop iterations, and at that
point everything it had taken from a publisher is handed over and flushed.
-/
import SeliumModel.Lemmas.PubSubHealthy
import SeliumModel.Lemmas.PubSubSettle
import SeliumModel.Lemmas.ReqRepMore
import SeliumModel.Lemmas.ReqRepClosed
import SeliumModel.Lemmas.ReqRepQuiet
import SeliumModel.Lemmas.ReqRepSettle
import SeliumModel.Lemmas.System

namespace Selium.Route
open Selium.Sink
variable {α : Type}

/-- closed ⇒ the poll finishes or is blocked on a subscriber (never idle, never waiting for publishers) -/
theorem c16_pubsub_closed_outcome (oracle : List Nat) (s : PS α) (hc : s.closed = true) :
    (pollFuel (work s + 1) oracle s).1 = .done ∨ (pollFuel (work s + 1) oracle s).1 = .blockedOnSink := by
  rcases pollFuel_closed (work s + 1) oracle s hc with h | h | h
  · exact Or.inl h
  · exact Or.inr h
  · exact absurd h (pollFuel_terminates (work s + 1) oracle s (Nat.lt_succ_self _))

/-- closed and subscribers able to accept data ⇒ the router finishes in bounded time, from any state -/
theorem c16_pubsub_finishes (oracle : List Nat) (s : PS α) (hc : s.closed = true) (hcalm : CalmState s) :
    (pollFuel (work s + 1) oracle s).1 = .done := by
  rcases c16_pubsub_closed_outcome oracle s hc with h | h
  · exact h
  · exact absurd h (pollFuel_calm (work s + 1) oracle s hcalm)

/-- … and before finishing it hands over and flushes every message it had already taken from a publisher:
    at `done`, for a state satisfying the C01 invariant, each subscriber holds the whole run and it is flushed. -/
theorem c16_pubsub_finishes_flushed (fuel : Nat) (oracle : List Nat) (s : PS α) (hinv : Inv s)
    (hd : (pollFuel fuel oracle s).1 = .done) :
    ∀ k ∈ (pollFuel fuel oracle s).2.1.sinks,
      k.got = (pollFuel fuel oracle s).2.1.accepted.drop k.regAt ∧ k.flushed = k.got.length := by
  intro k hk
  have hq := pollFuel_quiet fuel oracle s (Or.inr (Or.inr hd))
  have := ((pollFuel_inv fuel oracle s hinv).1 k hk).2
  rw [hq.1] at this
  simp only [Option.toList, List.append_nil] at this
  exact ⟨this, hq.2 k hk⟩

/-- a Pending sink only delays it: blocked means a sink answered Pending, i.e. it will wake the task -/
theorem c16_pubsub_blocked_then_retry (oracle : List Nat) (s : PS α) (hc : s.closed = true) :
    (pollFuel (work s + 1) oracle s).2.1.closed = true := by
  rw [pollFuel_keeps_closed]; exact hc

/-- "Shutdown therefore cannot hang on a topic." From ANY reachable state in which the channel has been closed,
    whatever the subscribers answer (any finite run of Pending answers, errors, at readiness or flush) and
    whatever `StreamMap` chooses: the wake-driven executor (`runPolls`: a poll happens only because a sink that
    answered Pending fired the waker) reaches `Poll::Ready(())` after at most `measure s` further polls, and at
    that point every subscriber still registered has been handed, and had flushed, every message the router had
    taken from a publisher since that subscriber's registration. -/
theorem c16_pubsub_shutdown_completes (history : List (Event α)) (hc : (exec history).closed = true)
    (orc : Nat → List Nat) :
    ∃ n, n ≤ measure (exec history) ∧
      (pollFuel (work (runPolls orc n (exec history)) + 1) (orc n) (runPolls orc n (exec history))).1 = .done ∧
      ∀ k ∈ (pollFuel (work (runPolls orc n (exec history)) + 1) (orc n) (runPolls orc n (exec history))).2.1.sinks,
        k.got = (pollFuel (work (runPolls orc n (exec history)) + 1) (orc n) (runPolls orc n (exec history))).2.1.accepted.drop k.regAt ∧
        k.flushed = k.got.length := by
  obtain ⟨n, hn, hd⟩ := runPolls_closed_finishes (exec history) hc orc
  exact ⟨n, hn, hd, c16_pubsub_finishes_flushed _ _ _ (runPolls_inv orc n _ (exec_inv history)) hd⟩

/-! Non-vacuity: closing mid-delivery (an item buffered, a socket still queued, a publisher that is idle). -/
example :
    (pollFuel 10 [] ({ closed := true, buffered := some 4, accepted := [4], sinks := [{ id := 0 }],
                       streams := [{ id := 0, script := [.pending] }], queue := [.sink { id := 0 }] } : PS Nat)).1 = .done := by
  decide +kernel

/-- … and it takes nothing more from the publishers: after the channel is closed a poll, from any state and with
    any number of registrations still queued, leaves every publisher stream exactly as it was (no stream is polled:
    a poll would consume the head of its script or remove it) and accepts no further message. Shutdown does not
    depend on the publishers running dry. -/
theorem c16_pubsub_closed_takes_nothing_more (fuel : Nat) (oracle : List Nat) (s : PS α) (hc : s.closed = true) :
    (pollFuel fuel oracle s).2.1.accepted = s.accepted ∧
    ∃ adopted, (pollFuel fuel oracle s).2.1.streams = s.streams ++ adopted := by
  induction fuel generalizing oracle s with
  | zero => exact ⟨rfl, [], by simp [pollFuel]⟩
  | succ fuel ih =>
    have hh : ∀ (o : List Nat) (s : PS α), s.closed = true →
        (handlePart o s (pollFuel fuel)).2.1.accepted = s.accepted ∧
        ∃ adopted, (handlePart o s (pollFuel fuel)).2.1.streams = s.streams ++ adopted := by
      intro o s hc
      unfold handlePart
      cases hq : s.queue with
      | cons sock q =>
        simp only
        have hc' : (adopt s sock q).closed = true := by unfold adopt; cases sock <;> exact hc
        obtain ⟨ha, ex, hs⟩ := ih o (adopt s sock q) hc'
        refine ⟨by rw [ha]; unfold adopt; cases sock <;> rfl, ?_⟩
        rw [hs]
        unfold adopt
        cases sock with
        | stream sc => exact ⟨{ id := s.nextStream, script := sc } :: ex, by simp⟩
        | sink c => exact ⟨ex, rfl⟩
      | nil =>
        simp only
        rw [if_pos hc]
        cases (flushSinks s).1 <;> exact ⟨rfl, [], by simp [flushSinks]⟩
    unfold pollFuel
    cases hx : s.buffered with
    | some x =>
      simp only
      cases hrd : (pollReady s.sinks).1 with
      | pending => exact ⟨rfl, [], by simp⟩
      | ready => simp only; exact hh oracle _ hc
    | none => simp only; exact hh oracle s hc

/-- non-vacuity: a closed router whose only publisher has a standing backlog finishes without touching it -/
example :
    (pollFuel 10 [] ({ closed := true, sinks := [{ id := 0 }], nextSink := 1, nextStream := 1,
                       streams := [{ id := 0, script := List.replicate 50 (.item 9) }] } : PS Nat)).1 = .done := by
  decide +kernel

end Selium.Route


/-! ## Request/reply half -/
namespace Selium.Route
open Selium.Sink

/-- … and when it finishes, every reply it had handed to a requestor's sink has been flushed. -/
theorem c16_reqrep_done_flushed (fuel : Nat) (s : RR) (h : (rrPoll fuel s).1 = .done) :
    ∀ k ∈ (rrPoll fuel s).2.sinks, k.flushed = k.got.length := (rrPoll_quiet fuel s).2 h

/-- "Shutdown therefore cannot hang on a topic", request/reply half: from any state in which the channel has been closed,
    whatever the requestors', the replier's and a rejected replier's sinks answer (any finite run of Pending answers, errors) and
    whatever the `StreamMap` / `HashMap` orders are, the wake-driven executor reaches `Poll::Ready(())` within `rmeasure s` further
    polls, and every reply that had been handed to a requestor's sink is flushed by then. -/
theorem c16_reqrep_shutdown_completes (s : RR) (hc : s.closed = true) (orc : Nat → List Nat × List Nat) :
    ∃ n, n ≤ rmeasure s ∧
      (rrPoll (rwork (rrRunPolls orc n s) + 1) (withOracles (rrRunPolls orc n s) (orc n))).1 = .done ∧
      ∀ k ∈ (rrPoll (rwork (rrRunPolls orc n s) + 1) (withOracles (rrRunPolls orc n s) (orc n))).2.sinks,
        k.flushed = k.got.length := rrRunPolls_closed_finishes s hc orc

/-- Once the channel is closed a poll of the request/reply router, from any state (idle, only one side
    connected, a request / reply / rejection buffered, sockets still queued), finishes or is waiting for one
    particular sink that answered Pending — within `rwork s + 1` iterations. It never goes back to waiting for
    peers' streams. -/
theorem c16_reqrep_closed_outcome (s : RR) (hc : s.closed = true) :
    (rrPoll (rwork s + 1) s).1 = .done ∨ (rrPoll (rwork s + 1) s).1 = .blockedOnReplier ∨
    (rrPoll (rwork s + 1) s).1 = .blockedOnRejected ∨ (rrPoll (rwork s + 1) s).1 = .blockedOnRequestor := by
  rcases rrPoll_closed (rwork s + 1) s hc with h | h | h | h | h
  · exact Or.inl h
  · exact Or.inr (Or.inl h)
  · exact Or.inr (Or.inr (Or.inl h))
  · exact Or.inr (Or.inr (Or.inr h))
  · exact absurd h (rrPoll_terminates (rwork s + 1) s (Nat.lt_succ_self _))

/-- Once the channel is closed a poll of the request/reply router, with any fuel and from any state, takes no
    further request from a requestor and no further reply from a replier: shutdown does not wait for the peers to
    run dry (what it had accepted before is dealt with as `c16_reqrep_closed_outcome` says). -/
theorem c16_reqrep_closed_takes_nothing_more (fuel : Nat) (s : RR) (hc : s.closed = true) :
    (rrPoll fuel s).2.taken = s.taken ∧ (rrPoll fuel s).2.repTaken = s.repTaken := by
  induction fuel generalizing s with
  | zero => exact ⟨rfl, rfl⟩
  | succ fuel ih =>
    unfold rrPoll
    have hk := iter_keeps s hc
    have hcl := iter_closed s hc
    cases hi : iter s with
    | ret o s' => rw [hi] at hk; exact hk
    | next s' => rw [hi] at hcl; exact absurd hcl id
    | again s' =>
      rw [hi] at hk hcl
      have := ih s' hcl
      exact ⟨this.1.trans hk.1, this.2.trans hk.2⟩

example : (rrPoll 20 ({ closed := true, bufReq := some (.msg none 1), queue := [.client { id := 0 } [.pending]] } : RR)).1 = .done := by
  decide +kernel

end Selium.Route

/-! ## The server's shutdown (`Server::shutdown`): every topic's channel is closed, every pub/sub router finishes -/
namespace Selium.Server
open Selium.Route Selium.Sink

/-- `topics.values_mut().for_each(|t| t.close_channel())`: after shutdown the registration channel of every topic
    the server knows — of either messaging pattern — is closed. -/
theorem c16_shutdown_closes_every_topic (history : List SEvent) (n : Name) :
    ((sysExec history).registry.lookup n = some .pubsub → ((sysExec (history ++ [.shutdown])).ps n).closed = true) ∧
    ((sysExec history).registry.lookup n = some .reqrep → ((sysExec (history ++ [.shutdown])).rr n).closed = true) := by
  rw [sysExec_snoc]
  constructor
  · intro h; simp [sysApply, h, applyEvent]
  · intro h; simp [sysApply, h, rrApply]

/-- Shutdown cannot hang on a pub/sub topic of a running server: whatever the server's history (any names, peers,
    scripts, traffic in flight, registrations still queued), once `shutdown` has happened every pub/sub topic's
    router reaches `Poll::Ready(())` under the wake-driven executor after at most `measure` further polls, having
    handed over and flushed every message it had taken from a publisher. -/
theorem c16_server_shutdown_every_pubsub_topic_completes (history : List SEvent) (n : Name)
    (hreg : (sysExec history).registry.lookup n = some .pubsub) (orc : Nat → List Nat) :
    ∃ k, k ≤ measure ((sysExec (history ++ [.shutdown])).ps n) ∧
      (pollFuel (work (runPolls orc k ((sysExec (history ++ [.shutdown])).ps n)) + 1) (orc k)
        (runPolls orc k ((sysExec (history ++ [.shutdown])).ps n))).1 = .done ∧
      ∀ c ∈ (pollFuel (work (runPolls orc k ((sysExec (history ++ [.shutdown])).ps n)) + 1) (orc k)
              (runPolls orc k ((sysExec (history ++ [.shutdown])).ps n))).2.1.sinks,
        c.got = (pollFuel (work (runPolls orc k ((sysExec (history ++ [.shutdown])).ps n)) + 1) (orc k)
              (runPolls orc k ((sysExec (history ++ [.shutdown])).ps n))).2.1.accepted.drop c.regAt ∧
        c.flushed = c.got.length := by
  have hc := (c16_shutdown_closes_every_topic history n).1 hreg
  rw [sys_ps_is_router] at hc ⊢
  exact c16_pubsub_shutdown_completes _ hc orc

end Selium.Server

#print axioms Selium.Route.c16_pubsub_closed_outcome
#print axioms Selium.Route.c16_pubsub_finishes
#print axioms Selium.Route.c16_pubsub_finishes_flushed
#print axioms Selium.Route.c16_pubsub_blocked_then_retry
#print axioms Selium.Route.c16_pubsub_shutdown_completes
#print axioms Selium.Route.c16_pubsub_closed_takes_nothing_more
#print axioms Selium.Route.c16_reqrep_closed_outcome
#print axioms Selium.Route.c16_reqrep_done_flushed
#print axioms Selium.Route.c16_reqrep_shutdown_completes
#print axioms Selium.Route.c16_reqrep_closed_takes_nothing_more
#print axioms Selium.Server.c16_shutdown_closes_every_topic
#print axioms Selium.Server.c16_server_shutdown_every_pubsub_topic_completes
