/-
C01 — Pub/sub fan-out: every subscriber gets every message once, in publisher order.

Model: `Route/PubSub.lean` (the router's `poll`, statement by statement, repaired code), `Sink/Fanout.lean`
(`FanoutMany`), `Route/StreamMap.lean` (tokio-stream's `StreamMap`, exact), scripted children. Theorems hold for
every history of registrations / channel close / polls, every script of every publisher stream and subscriber
sink (ready, pending, error at any point), every random start of `StreamMap`, any number of peers.
Isolation between topics (a message of topic a never reaches a subscriber of topic b) is `c11_registry_isolation`
in `Props/C11.lean`: each name owns its own router state.
-/
import SeliumModel.Lemmas.PubSubHealthy
import SeliumModel.Lemmas.PubSubOrder
import SeliumModel.Lemmas.System

namespace Selium.Route
open Selium.Sink
variable {α : Type}

/-- For every reachable router state and every subscriber sink still registered: what it was handed so far,
    plus the one item taken from a publisher but not yet written, is exactly the run of accepted items from the
    point its registration was processed — byte-for-byte the same items, each once, in the order accepted,
    nothing skipped. An evicted sink got a prefix of that run (never a duplicate or a reordering). -/
theorem c01_exactly_once_in_order (history : List (Event α)) :
    (∀ k ∈ (exec history).sinks,
        k.regAt ≤ (exec history).accepted.length ∧
        k.got ++ (exec history).buffered.toList = (exec history).accepted.drop k.regAt) ∧
    (∀ k ∈ (exec history).evicted, k.got <+: (exec history).accepted.drop k.regAt) := by
  have := exec_inv history
  exact ⟨this.1, fun k hk => (this.2 k hk).2⟩

/-- The same, as a one-step statement: any single poll preserves the invariant from any state satisfying it. -/
theorem c01_poll_preserves (fuel : Nat) (oracle : List Nat) (s : PS α) (h : Inv s) :
    Inv (pollFuel fuel oracle s).2.1 := pollFuel_inv fuel oracle s h

/-- Once a poll ends without being blocked by a subscriber sink (the router is idle, is waiting for
    publishers, or has finished), nothing the router accepted is left undelivered or unflushed: no item is
    buffered and a successful flush covers everything each subscriber was handed. -/
theorem c01_nothing_left_behind (fuel : Nat) (oracle : List Nat) (s : PS α)
    (h : (pollFuel fuel oracle s).1 = .idle ∨ (pollFuel fuel oracle s).1 = .waitingStreams ∨
         (pollFuel fuel oracle s).1 = .done) :
    (pollFuel fuel oracle s).2.1.buffered = none ∧
    ∀ k ∈ (pollFuel fuel oracle s).2.1.sinks, k.flushed = k.got.length :=
  pollFuel_quiet fuel oracle s h

/-- Together: in such a state every registered subscriber has received, and had flushed, every item accepted
    since its registration. -/
theorem c01_delivered_and_flushed (history : List (Event α)) (fuel : Nat) (oracle : List Nat)
    (h : (pollFuel fuel oracle (exec history)).1 = .idle ∨ (pollFuel fuel oracle (exec history)).1 = .waitingStreams ∨
         (pollFuel fuel oracle (exec history)).1 = .done) :
    ∀ k ∈ (pollFuel fuel oracle (exec history)).2.1.sinks,
      k.got = (pollFuel fuel oracle (exec history)).2.1.accepted.drop k.regAt ∧ k.flushed = k.got.length := by
  intro k hk
  have hq := pollFuel_quiet fuel oracle (exec history) h
  have hi := pollFuel_inv fuel oracle (exec history) (exec_inv history)
  have := (hi.1 k hk).2
  rw [hq.1] at this
  simp only [Option.toList, List.append_nil] at this
  exact ⟨this, hq.2 k hk⟩

/-- Publisher order. For every reachable router state and every publisher stream the topic ever adopted (live or
    already gone): the items accepted from it are, in the order accepted, a prefix of the items it held when it
    was adopted — nothing from one publisher is reordered, duplicated or skipped on the way into the router,
    whatever `StreamMap`'s random starts, its `swap_remove` reshuffling and the Pending answers were. For a
    stream that is still live, what was accepted followed by what it still holds is exactly what it came with. -/
theorem c01_publisher_order (history : List (Event α)) :
    (∀ sid, fromPub (exec history).accepted (exec history).src sid <+:
              itemsOf ((exec history).scripts[sid]?.getD [])) ∧
    (∀ st ∈ (exec history).streams,
        fromPub (exec history).accepted (exec history).src st.id ++ itemsOf st.script =
          itemsOf ((exec history).scripts[st.id]?.getD [])) := by
  have h := exec_pub history
  exact ⟨h.2.2.2.2.2.1, h.2.2.2.2.1⟩

/-- What a subscriber observes of any one publisher: the items it was handed (plus the one buffered for it) that
    came from publisher `sid` form one contiguous run of that publisher's sequence, in that publisher's order —
    the run that starts where the subscriber's registration was processed. -/
theorem c01_subscriber_sees_publisher_run (history : List (Event α)) (sid : Nat) :
    ∀ k ∈ (exec history).sinks, ∃ before,
      before ++ fromPub (k.got ++ (exec history).buffered.toList) ((exec history).src.drop k.regAt) sid <+:
        itemsOf ((exec history).scripts[sid]?.getD []) := by
  intro k hk
  have hp := exec_pub history
  have hi := (c01_exactly_once_in_order history).1 k hk
  refine ⟨fromPub ((exec history).accepted.take k.regAt) ((exec history).src.take k.regAt) sid, ?_⟩
  rw [hi.2, ← fromPub_append _ _ _ _ _ (by simp [hp.1]), List.take_append_drop, List.take_append_drop]
  exact hp.2.2.2.2.2.1 sid

/-- A publisher that has gone was forwarded completely: for every reachable router state and every publisher
    stream the topic adopted and no longer holds (`StreamMap` only lets go of a stream that has ended), the items
    accepted from it are exactly the items it came with, in its order. -/
theorem c01_ended_publisher_fully_accepted (history : List (Event α)) (sid : Nat)
    (hlt : sid < (exec history).nextStream) (hgone : ∀ st ∈ (exec history).streams, st.id ≠ sid) :
    fromPub (exec history).accepted (exec history).src sid = itemsOf ((exec history).scripts[sid]?.getD []) :=
  (exec_pub history).2.2.2.2.2.2 sid hlt hgone

theorem exec_snoc (history : List (Event α)) (e : Event α) : exec (history ++ [e]) = applyEvent (exec history) e := by
  simp [exec, List.foldl_append]

/-- End to end through the router: once a poll ends without being blocked by a subscriber, a subscriber that was
    registered before anything was accepted has received — and had flushed — everything every ended publisher
    sent: the part of what it got that came from publisher `sid` is `sid`'s whole sequence, in order. -/
theorem c01_subscriber_gets_all_of_an_ended_publisher (history : List (Event α)) (fuel : Nat) (oracle : List Nat)
    (h : (pollFuel fuel oracle (exec history)).1 = .idle ∨ (pollFuel fuel oracle (exec history)).1 = .waitingStreams ∨
         (pollFuel fuel oracle (exec history)).1 = .done)
    (k : Child α) (hk : k ∈ (pollFuel fuel oracle (exec history)).2.1.sinks) (hreg : k.regAt = 0)
    (sid : Nat) (hlt : sid < (pollFuel fuel oracle (exec history)).2.1.nextStream)
    (hgone : ∀ st ∈ (pollFuel fuel oracle (exec history)).2.1.streams, st.id ≠ sid) :
    fromPub k.got (pollFuel fuel oracle (exec history)).2.1.src sid =
        itemsOf ((pollFuel fuel oracle (exec history)).2.1.scripts[sid]?.getD []) ∧
      k.flushed = k.got.length := by
  have hd := c01_delivered_and_flushed history fuel oracle h k hk
  have hs : (pollFuel fuel oracle (exec history)).2.1 = exec (history ++ [.poll fuel oracle]) := by
    rw [exec_snoc]; rfl
  rw [hreg, List.drop_zero] at hd
  refine ⟨?_, hd.2⟩
  rw [hd.1, hs]
  rw [hs] at hlt hgone
  exact c01_ended_publisher_fully_accepted (history ++ [.poll fuel oracle]) sid hlt hgone

/-! Non-vacuity: a concrete run — two subscribers (one not ready at first), one publisher with two items. -/
def exHistory : List (Event Nat) :=
  [.enqueue (.sink { id := 0, readyQ := [.pending] }), .enqueue (.sink { id := 0 }),
   .enqueue (.stream [.item 7, .item 8]), .poll 20 [], .poll 20 [], .poll 20 []]

def exHistory2 : List (Event Nat) :=
  [.enqueue (.stream [.item 1, .pending, .item 2]), .enqueue (.stream [.pending, .item 10, .item 11]),
   .enqueue (.sink { id := 0 }), .poll 20 [1, 0], .poll 20 [0, 1], .poll 20 [1], .poll 20 []]

example : (exec exHistory2).accepted = [1, 10, 2, 11] ∧ (exec exHistory2).src = [0, 1, 0, 1] ∧
    fromPub (exec exHistory2).accepted (exec exHistory2).src 0 = [1, 2] ∧
    fromPub (exec exHistory2).accepted (exec exHistory2).src 1 = [10, 11] := by decide +kernel

example : (exec exHistory).accepted = [7, 8] ∧ (exec exHistory).sinks.map (·.got) = [[7, 8], [7, 8]] ∧
    (exec exHistory).sinks.map (·.flushed) = [2, 2] ∧ (exec exHistory).buffered = none := by decide +kernel

end Selium.Route

/-! ## Every topic of a running server, and no other topic

`Server/System.lean` composes `handle_stream`'s registry with one router per name. -/
namespace Selium.Server
open Selium.Route Selium.Sink

/-- The fan-out theorem holds for every topic of a whole server, whatever else the server is doing: in any history
    of streams being opened (for any names, roles, valid or not), routers being polled and shutdown, each
    subscriber of topic `n` has been handed exactly the run of messages `n`'s router accepted since its
    registration — each once, in order. -/
theorem c01_every_topic_of_the_server (history : List SEvent) (n : Name) :
    (∀ k ∈ ((sysExec history).ps n).sinks,
        k.regAt ≤ ((sysExec history).ps n).accepted.length ∧
        k.got ++ ((sysExec history).ps n).buffered.toList = ((sysExec history).ps n).accepted.drop k.regAt) ∧
    (∀ k ∈ ((sysExec history).ps n).evicted, k.got <+: ((sysExec history).ps n).accepted.drop k.regAt) := by
  rw [sys_ps_is_router]; exact c01_exactly_once_in_order _

/-- "… and to no subscriber of any other topic." The router state of topic `n` — its publishers, what it accepted,
    and everything each of its subscribers was handed — is the same as in the history from which every event that
    does not mention `n` was deleted: whatever is published, registered, polled or failing under another name
    reaches no subscriber of `n`, and nothing addressed to `n` is diverted elsewhere. -/
theorem c01_no_other_topic_interferes (history : List SEvent) (n : Name) :
    (sysExec history).ps n = (sysExec (history.filter (mentions n))).ps n :=
  (sys_topic_independent n history).2.1

/-- A message only ever enters the router of the name its publisher registered on: the events a topic's router sees
    are the registrations whose first frame named it (and were accepted), its own polls, and shutdown. -/
theorem c01_topic_router_sees_only_its_own_events (history : List SEvent) (n : Name) :
    (sysExec history).ps n = Route.exec (psEvents n [] history) := sys_ps_is_router n history

/-! Non-vacuity: two topics on one server; a publisher and a subscriber on each; what is published on one is
    handed to that topic's subscriber only. -/
def nameA : Name := { ns := [97, 97, 97], tp := [120, 120, 120] }
def nameB : Name := { ns := [97, 97, 97], tp := [121, 121, 121] }
def exServer : List SEvent :=
  [.openStream (some (.register .subscriber nameA)) { id := 0 } [],
   .openStream (some (.register .subscriber nameB)) { id := 0 } [],
   .openStream (some (.register .publisher nameA)) { id := 0 } [.item (.msg none 1), .item (.msg none 2)],
   .openStream (some (.register .publisher nameB)) { id := 0 } [.item (.msg none 7)],
   .pollPubsub nameA 20 [], .pollPubsub nameB 20 [], .pollPubsub nameA 20 [], .pollPubsub nameB 20 []]

example : ((sysExec exServer).ps nameA).sinks.map (·.got) = [[.msg none 1, .msg none 2]] ∧
    ((sysExec exServer).ps nameB).sinks.map (·.got) = [[.msg none 7]] := by decide +kernel

end Selium.Server

#print axioms Selium.Route.c01_exactly_once_in_order
#print axioms Selium.Route.c01_poll_preserves
#print axioms Selium.Route.c01_nothing_left_behind
#print axioms Selium.Route.c01_delivered_and_flushed
#print axioms Selium.Route.c01_publisher_order
#print axioms Selium.Route.c01_subscriber_sees_publisher_run
#print axioms Selium.Route.c01_ended_publisher_fully_accepted
#print axioms Selium.Route.exec_snoc
#print axioms Selium.Route.c01_subscriber_gets_all_of_an_ended_publisher
#print axioms Selium.Server.c01_every_topic_of_the_server
#print axioms Selium.Server.c01_no_other_topic_interferes
#print axioms Selium.Server.c01_topic_router_sees_only_its_own_events
