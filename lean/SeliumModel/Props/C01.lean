/-
C01 — Pub/sub fan-out: every subscriber gets every message once, in publisher order.

Model: `Route/PubSub.lean` (the router's `poll`, statement by statement, repaired code), `Sink/Fanout.lean`
(`FanoutMany`), `Route/StreamMap.lean` (tokio-stream's `StreamMap`, exact), scripted children. Theorems hold for
every history of registrations / channel close / polls, every script of every publisher stream and subscriber
sink (ready, pending, error at any point), every random start of `StreamMap`, any number of peers.
Isolation between topics (a message of topic a never reaches a subscriber of topic b) is `c11_registry_isolation`
in `Props/C11.lean`: each name owns its own router state.
-/
import SeliumModel.Lemmas.PubSubHealthy

namespace Selium.Route
open Selium.Sink
variable {α : Type}

/-- For every reachable router state and every subscriber sink still registered: what it was handed so far,
    plus the one item taken from a publisher but not yet written, is exactly the run of accepted items from the
    point its registration was processed — byte-for-byte the same items, each once, in the order accepted,
    nothing skipped. An evicted sink got a prefix of that run (never a duplicate or a reordering). -/
theorem c01_exactly_once_in_order (history : List (Event α)) :
    (∀ k ∈ (exec history).sinks,
        k.regAt ≤ (exec history).accepted.length ∧
        k.got ++ (exec history).buffered.toList = (exec history).accepted.drop k.regAt) ∧
    (∀ k ∈ (exec history).evicted, k.got <+: (exec history).accepted.drop k.regAt) := by
  have := exec_inv history
  exact ⟨this.1, fun k hk => (this.2 k hk).2⟩

/-- The same, as a one-step statement: any single poll preserves the invariant from any state satisfying it. -/
theorem c01_poll_preserves (fuel : Nat) (oracle : List Nat) (s : PS α) (h : Inv s) :
    Inv (pollFuel fuel oracle s).2.1 := pollFuel_inv fuel oracle s h

/-- Once a poll ends without being blocked by a subscriber sink (the router is idle, is waiting for
    publishers, or has finished), nothing the router accepted is left undelivered or unflushed: no item is
    buffered and a successful flush covers everything each subscriber was handed. -/
theorem c01_nothing_left_behind (fuel : Nat) (oracle : List Nat) (s : PS α)
    (h : (pollFuel fuel oracle s).1 = .idle ∨ (pollFuel fuel oracle s).1 = .waitingStreams ∨
         (pollFuel fuel oracle s).1 = .done) :
    (pollFuel fuel oracle s).2.1.buffered = none ∧
    ∀ k ∈ (pollFuel fuel oracle s).2.1.sinks, k.flushed = k.got.length :=
  pollFuel_quiet fuel oracle s h

/-- Together: in such a state every registered subscriber has received, and had flushed, every item accepted
    since its registration. -/
theorem c01_delivered_and_flushed (history : List (Event α)) (fuel : Nat) (oracle : List Nat)
    (h : (pollFuel fuel oracle (exec history)).1 = .idle ∨ (pollFuel fuel oracle (exec history)).1 = .waitingStreams ∨
         (pollFuel fuel oracle (exec history)).1 = .done) :
    ∀ k ∈ (pollFuel fuel oracle (exec history)).2.1.sinks,
      k.got = (pollFuel fuel oracle (exec history)).2.1.accepted.drop k.regAt ∧ k.flushed = k.got.length := by
  intro k hk
  have hq := pollFuel_quiet fuel oracle (exec history) h
  have hi := pollFuel_inv fuel oracle (exec history) (exec_inv history)
  have := (hi.1 k hk).2
  rw [hq.1] at this
  simp only [Option.toList, List.append_nil] at this
  exact ⟨this, hq.2 k hk⟩

/-! Non-vacuity: a concrete run — two subscribers (one not ready at first), one publisher with two items. -/
def exHistory : List (Event Nat) :=
  [.enqueue (.sink { id := 0, readyQ := [.pending] }), .enqueue (.sink { id := 0 }),
   .enqueue (.stream [.item 7, .item 8]), .poll 20 [], .poll 20 [], .poll 20 []]

example : (exec exHistory).accepted = [7, 8] ∧ (exec exHistory).sinks.map (·.got) = [[7, 8], [7, 8]] ∧
    (exec exHistory).sinks.map (·.flushed) = [2, 2] ∧ (exec exHistory).buffered = none := by decide +kernel

end Selium.Route

#print axioms Selium.Route.c01_exactly_once_in_order
#print axioms Selium.Route.c01_poll_preserves
#print axioms Selium.Route.c01_nothing_left_behind
#print axioms Selium.Route.c01_delivered_and_flushed
