/-
C17 — A stalled topic cannot block registration or traffic on other topics.

The mechanism: `handle_stream` takes the global `topics` lock only to look the topic up (or create it) and to
clone its sender; it waits for room in the topic's channel after releasing the lock. The translator reads from
the source whether an awaited `send` lies inside the lock guard's scope (`Gen.Server.lockHeldAcrossSend`);
the obligation `lock_released_before_send` fails to compile if it does. Over the transition system of
`Server/Registry.lean` (any number of registration tasks, any channel occupancies):
the task holding the lock is never waiting, and a registration for a topic whose channel has room completes in
five of its own steps whatever the state of every other topic — in particular with another topic's channel
over-full because its router is blocked on a subscriber that does not read.
That a router may stop draining its channel while blocked on a subscriber is C01/C09's `blockedOnSink`; the
stall itself (QUIC flow control) is exhibited by the `registry` suite's `stall` case, not proved.
-/
import SeliumModel.Server.Registry

namespace Selium.Server
open Selium.Gen.Server

/-- obligation on the regenerated source facts -/
theorem lock_released_before_send : lockHeldAcrossSend = false := by decide

theorem setPc_getElem? (ts : List Task) (i j : Nat) (pc : PC) :
    (setPc ts i pc)[j]? = (ts[j]?).map fun t => if j = i then { t with pc := pc } else t := by
  simp [setPc, List.getElem?_mapIdx]

/-- in every reachable state the lock is held exactly by a task that is inside the critical section -/
def LockInv (s : Sys) : Prop :=
  (∀ i, s.lock = some i → ∃ t, s.tasks[i]? = some t ∧ t.pc = .inLock) ∧
  (∀ i t, s.tasks[i]? = some t → t.pc = .inLock → s.lock = some i)

theorem step_lockInv (s : Sys) (i : Nat) (h : LockInv s) (he : enabled s i = true) : LockInv (step s i) := by
  unfold step
  unfold enabled at he
  cases ht : s.tasks[i]? with
  | none => simp [ht] at he
  | some t =>
    simp only [ht] at he ⊢
    cases hpc : t.pc with
    | wantLock =>
      simp only [hpc, Option.isNone_iff_eq_none] at he
      simp only
      constructor
      · intro j hj
        simp only [Option.some.injEq] at hj
        subst hj
        exact ⟨{ t with pc := .inLock }, by simp [setPc_getElem?, ht], rfl⟩
      · intro j t' hj hp
        simp only [setPc_getElem?] at hj
        cases hjt : s.tasks[j]? with
        | none => simp [hjt] at hj
        | some tj =>
          simp only [hjt, Option.map_some, Option.some.injEq] at hj
          by_cases hji : j = i
          · rw [hji]
          · simp only [hji, if_false] at hj
            subst hj
            have := h.2 j tj hjt hp
            rw [he] at this; simp at this
    | inLock =>
      simp only [lock_released_before_send, Bool.false_eq_true, if_false]
      constructor
      · intro j hj; simp at hj
      · intro j t' hj hp
        simp only [setPc_getElem?] at hj
        cases hjt : s.tasks[j]? with
        | none => simp [hjt] at hj
        | some tj =>
          simp only [hjt, Option.map_some, Option.some.injEq] at hj
          by_cases hji : j = i
          · simp only [hji, if_true] at hj; subst hj; simp at hp
          · simp only [hji, if_false] at hj
            subst hj
            -- two tasks in the critical section: impossible
            have h1 := h.2 j tj hjt hp
            have h2 := h.2 i t ht hpc
            rw [h1] at h2
            simp only [Option.some.injEq] at h2
            exact absurd h2 hji
    | answer =>
      simp only
      constructor
      · intro j hj
        obtain ⟨tj, hjt, hp⟩ := h.1 j hj
        have hji : j ≠ i := by
          intro heq; subst heq; rw [ht] at hjt; simp only [Option.some.injEq] at hjt; subst hjt; rw [hpc] at hp; simp at hp
        exact ⟨tj, by simp [setPc_getElem?, hjt, hji], hp⟩
      · intro j t' hj hp
        simp only [setPc_getElem?] at hj
        cases hjt : s.tasks[j]? with
        | none => simp [hjt] at hj
        | some tj =>
          simp only [hjt, Option.map_some, Option.some.injEq] at hj
          by_cases hji : j = i
          · simp only [hji, if_true] at hj; subst hj; simp at hp
          · simp only [hji, if_false] at hj; subst hj; exact h.2 j tj hjt hp
    | enqueue =>
      simp only [lock_released_before_send, Bool.false_eq_true, if_false]
      constructor
      · intro j hj
        obtain ⟨tj, hjt, hp⟩ := h.1 j hj
        have hji : j ≠ i := by
          intro heq; subst heq; rw [ht] at hjt; simp only [Option.some.injEq] at hjt; subst hjt; rw [hpc] at hp; simp at hp
        exact ⟨tj, by simp [setPc_getElem?, hjt, hji], hp⟩
      · intro j t' hj hp
        simp only [setPc_getElem?] at hj
        cases hjt : s.tasks[j]? with
        | none => simp [hjt] at hj
        | some tj =>
          simp only [hjt, Option.map_some, Option.some.injEq] at hj
          by_cases hji : j = i
          · simp only [hji, if_true] at hj; subst hj; simp at hp
          · simp only [hji, if_false] at hj; subst hj; exact h.2 j tj hjt hp
    | done => simp [hpc] at he

/-- The task holding the global lock is never waiting on anything: its next step is enabled, whatever the
    occupancy of any topic's channel. (With the unrepaired code the holder could sit in `enqueue` on a full
    channel, and every other registration waited for the lock.) -/
theorem c17_lock_holder_never_blocked (s : Sys) (h : LockInv s) (i : Nat) (hl : s.lock = some i) :
    enabled s i = true := by
  obtain ⟨t, ht, hp⟩ := h.1 i hl
  simp [enabled, ht, hp]

/-- A registration for a topic whose channel has room runs to completion in five of its own steps once the
    lock is free — independently of the occupancy of every other topic's channel. -/
theorem step_at (s : Sys) (i : Nat) (t : Task) (ht : s.tasks[i]? = some t) :
    step s i =
      match t.pc with
      | .wantLock => { s with tasks := setPc s.tasks i .inLock, lock := some i }
      | .inLock => { s with tasks := setPc s.tasks i .answer, lock := none }
      | .answer => { s with tasks := setPc s.tasks i .enqueue }
      | .enqueue => { s with tasks := setPc s.tasks i .done, occ := fun k => if k = t.topic then s.occ k + 1 else s.occ k }
      | .done => s := by
  unfold step
  simp only [ht, lock_released_before_send, Bool.false_eq_true, if_false]
  cases t.pc <;> rfl

/-- regenerated from `handle_stream`: its answers are written with `send` (feed + flush) by the handler itself -/
theorem ack_flushed_by_handler : ackFlushedByHandler = true := by decide

/-- A registration's answer waits for nobody: once the task is about to answer it can do so whoever holds the lock and
    however full its topic's channel is (the router of a stalled topic never gets to flush anything). -/
theorem c17_answer_waits_for_nobody (s : Sys) (i : Nat) (t : Task) (ht : s.tasks[i]? = some t) (hpc : t.pc = .answer) :
    enabled s i = true := by simp [enabled, ht, hpc, ack_flushed_by_handler]

theorem c17_other_topic_progress (s : Sys) (i : Nat) (t : Task) (ht : s.tasks[i]? = some t)
    (hpc : t.pc = .wantLock) (hfree : s.lock = none) (hroom : s.occ t.topic < s.cap) :
    ((runTask s i 5).tasks[i]?).map (·.pc) = some .done := by
  -- the four states the task goes through
  have e1 : enabled s i = true := by simp [enabled, ht, hpc, hfree]
  have h1 := step_at s i t ht
  rw [hpc] at h1
  simp only at h1
  generalize hs1 : step s i = s1 at h1
  have t1 : s1.tasks[i]? = some { t with pc := .inLock } := by rw [h1]; simp [setPc_getElem?, ht]
  have e2 : enabled s1 i = true := by simp [enabled, t1]
  have h2 := step_at s1 i _ t1
  simp only at h2
  generalize hs2 : step s1 i = s2 at h2
  have t2 : s2.tasks[i]? = some { t with pc := .answer } := by rw [h2]; simp [setPc_getElem?, t1]
  have e3 : enabled s2 i = true := by simp [enabled, t2, ack_flushed_by_handler]
  have h3 := step_at s2 i _ t2
  simp only at h3
  generalize hs3 : step s2 i = s3 at h3
  have t3 : s3.tasks[i]? = some { t with pc := .enqueue } := by rw [h3]; simp [setPc_getElem?, t2]
  have o3 : s3.occ = s.occ ∧ s3.cap = s.cap := by rw [h3, h2, h1]; exact ⟨rfl, rfl⟩
  have e4 : enabled s3 i = true := by simp [enabled, t3, o3.1, o3.2, hroom]
  have h4 := step_at s3 i _ t3
  simp only at h4
  generalize hs4 : step s3 i = s4 at h4
  have t4 : s4.tasks[i]? = some { t with pc := .done } := by rw [h4]; simp [setPc_getElem?, t3]
  have e5 : enabled s4 i = false := by simp [enabled, t4]
  simp only [runTask, e1, hs1, e2, hs2, e3, hs3, e4, hs4, e5, if_true]
  simp [t4]

/-- every stream of a connection is handled by a task of its own (regenerated from `handle_connection`) -/
theorem streams_in_own_tasks : streamsHandledInOwnTasks = true := by decide

/-- A peer that has itself queued up for a stalled topic can still open streams: whatever state the registrations of
    the streams it opened earlier are in (waiting for the lock, waiting on a full channel), the connection's accept loop
    takes its next stream. -/
theorem c17_connection_keeps_accepting (s : Sys) (c : Conn) (h : c.accepted < c.streams.length) :
    canAccept streamsHandledInOwnTasks s c = true := by
  simp [canAccept, streams_in_own_tasks, h]

/-- … and a client that is new to the server is accepted however long a topic has been stalled: between two `accept()`s the
    endpoint's loop awaits nothing but the hand-over of the connection to a task of its own (and the shutdown) — regenerated
    from `Server::listen` / `Server::connect`; nothing there asks a router for anything. -/
theorem c17_endpoint_keeps_accepting : endpointLoopAwaitsNothingElse = true := by decide

/-- The defect this guards against, for the record: with `handle_stream` awaited inline, a connection whose last
    registration waits on the stalled topic's full channel accepts nothing more. -/
theorem c17_inline_registration_blocks_the_connection :
    canAccept false
      { tasks := [⟨0, .enqueue⟩, ⟨1, .wantLock⟩], lock := none, occ := fun k => if k = 0 then 101 else 0, cap := 101 }
      { streams := [0, 1], accepted := 1 } = false := by
  decide

/-- the lock invariant holds initially (nobody holds the lock, every task is about to ask for it) -/
theorem lockInv_init (tasks : List Task) (occ : Nat → Nat) (cap : Nat) (h : ∀ t ∈ tasks, t.pc = .wantLock) :
    LockInv { tasks := tasks, lock := none, occ := occ, cap := cap } := by
  constructor
  · intro i hi; simp at hi
  · intro i t ht hp
    have := h t (List.mem_of_getElem? ht)
    rw [this] at hp; simp at hp

/-! Non-vacuity: topic 0's channel is over-full (its router is stalled) and three registrations for it are
    queued up; a registration for topic 1 still completes. -/
def exSys : Sys :=
  { tasks := [⟨0, .wantLock⟩, ⟨0, .wantLock⟩, ⟨0, .wantLock⟩, ⟨1, .wantLock⟩], lock := none,
    occ := fun k => if k = 0 then 101 else 0, cap := 101 }

example : ((runTask (runTask (runTask exSys 0 5) 1 5) 3 5).tasks.map (·.pc)) = [.enqueue, .enqueue, .wantLock, .done] := by
  decide

end Selium.Server

#print axioms Selium.Server.lock_released_before_send
#print axioms Selium.Server.setPc_getElem?
#print axioms Selium.Server.step_lockInv
#print axioms Selium.Server.c17_lock_holder_never_blocked
#print axioms Selium.Server.step_at
#print axioms Selium.Server.ack_flushed_by_handler
#print axioms Selium.Server.c17_answer_waits_for_nobody
#print axioms Selium.Server.c17_other_topic_progress
#print axioms Selium.Server.lockInv_init
#print axioms Selium.Server.streams_in_own_tasks
#print axioms Selium.Server.c17_connection_keeps_accepting
#print axioms Selium.Server.c17_endpoint_keeps_accepting
#print axioms Selium.Server.c17_inline_registration_blocks_the_connection
