/-
C07, stated about the code itself: `Gen/TopicFn.lean` is printed by the translator from `protocol/src/topic_name.rs`
on every run (`TopicName::is_valid`, the rule `create` and the server apply to names that arrive on the wire). The
bridge is `Lemmas/TopicGen.lean` (generated definition = hand-written `Topic.isValid`, for all strings, with
`COMPONENT_REGEX.is_match` instantiated by the model's matcher over the regex parsed from the same file).

Property theorems only.
-/
import SeliumModel.Lemmas.TopicGen
import SeliumModel.Props.C07

namespace Selium.Topic
open Selium Selium.Gen

/-- the translated `is_valid` over the model's regex matcher -/
def genIsValid (ns tp : Str) : Bool := TopicFn.is_valid compMatch ns tp

theorem c07_generated_is_valid_is_the_model (ns tp : Str) : genIsValid ns tp = isValid ns tp := gen_is_valid_eq ns tp

/-- The rule the translated `is_valid` applies to a (namespace, topic) pair from the wire is the rule `try_from` applies
    to text: it holds exactly when the printed name parses, to that very pair. -/
theorem c07_generated_server_rule_is_the_parsers_rule (ns tp : Str) :
    genIsValid ns tp = true ↔ tryFrom (display ns tp) = .ok (ns, tp) := by
  rw [c07_generated_is_valid_is_the_model]
  exact c07_server_same_rule ns tp

/-- … spelled out: both components are 3 to 64 characters of the class, and the namespace does not start with the
    reserved word. -/
theorem c07_generated_is_valid_iff (ns tp : Str) :
    genIsValid ns tp = true ↔ comp ns = true ∧ comp tp = true ∧ Selium.Gen.Topic.reserved.isPrefixOf ns = false := by
  rw [c07_generated_server_rule_is_the_parsers_rule, c07_accept_iff]
  constructor
  · rintro ⟨_, a, b, c⟩; exact ⟨a, b, c⟩
  · rintro ⟨a, b, c⟩; exact ⟨rfl, a, b, c⟩

/-! Non-vacuity: the generated definition computes (`/verif/topic` is accepted, a reserved namespace and a two-character
    topic are not). -/
example : genIsValid [118, 101, 114, 105, 102] [116, 111, 112, 105, 99] = true := by decide +kernel
example : genIsValid [115, 101, 108, 105, 117, 109, 120] [116, 111, 112, 105, 99] = false := by decide +kernel
example : genIsValid [118, 101, 114, 105, 102] [116, 111] = false := by decide +kernel

end Selium.Topic

#print axioms Selium.Topic.c07_generated_is_valid_is_the_model
#print axioms Selium.Topic.c07_generated_server_rule_is_the_parsers_rule
#print axioms Selium.Topic.c07_generated_is_valid_iff
