/-
C12 — Streams re-establish themselves after connection loss, within the retry budget.

Proved: the retry logic (`Client/KeepAlive.lean`), with the scope of the attempt budget and the requestor's
reader restart read from the source by the translator. Exercised, not proved: that reconnecting (quinn,
TLS, re-registration on the server) actually works — the `e2erec` suite cuts real connections with the
`verif-hooks` method, more often than the budget of one outage, and checks traffic after each recovery, and
that exhaustion is reported as too-many-retries when every attempt fails.
-/
import SeliumModel.Client.KeepAlive
import SeliumModel.Client.KeepAliveSM
import SeliumModel.Client.SharedConn
import SeliumModel.Lemmas.Backoff

namespace Selium.KeepAlive
open Selium.Gen.KeepAlive

/-- obligations on the regenerated source facts: every stream kind creates its backoff iterator per outage, the
    requestor starts a reply reader for the new stream, and connection-level errors (and a replier slot still
    being occupied) are classified as recoverable -/
theorem budgets_per_outage : replierBudgetPerOutage = true ∧ requestorBudgetPerOutage = true ∧
    pubsubBudgetPerOutage = true ∧ requestorRestartsReader = true ∧ replierRefusalCountsAsAttempt = true := by decide

theorem recoverable_classification : ioConnectionResetRecoverable = true ∧ ioNotConnectedRecoverable = true ∧
    quicConnectionErrorRecoverable = true ∧ replierAlreadyBoundRecoverable = true := by decide

/-- … and a connection that is lost while a (re-)registration awaits its answer reaches that classification as the read
    error it is: `handle_reply` hands it on unchanged, so the attempt counts as a recoverable failure (`Attempt.recoverable`
    in `reconnect`), not as a refusal by the server -/
theorem registration_loss_is_an_ordinary_loss : registrationReadErrorPassedOn = true := by decide

theorem reconnect_used_le (left : Nat) (rs : List Attempt) : (reconnect left rs).2 ≤ left := by
  induction left generalizing rs with
  | zero => simp [reconnect]
  | succ n ih =>
    unfold reconnect
    cases rs.headD .recoverable with
    | ok => simp
    | fatal => simp
    | recoverable => simp; exact ih rs.tail

/-- all attempts of one outage fail (recoverably) ⇔ the stream reports too-many-retries — it neither hangs
    nor gives up earlier -/
theorem c12_exhaustion_iff (m : Nat) (rs : List Attempt) :
    (reconnect m rs).1 = .tooManyRetries ↔ ∀ i, i < m → rs.getD i .recoverable = .recoverable := by
  induction m generalizing rs with
  | zero => simp [reconnect]
  | succ n ih =>
    unfold reconnect
    cases rs with
    | nil =>
      simp only [List.headD_nil, List.tail_nil]
      rw [ih]
      simp
    | cons r rest =>
      simp only [List.headD_cons, List.tail_cons]
      cases r with
      | ok =>
        simp only [reduceCtorEq, false_iff]
        intro h
        have := h 0 (Nat.succ_pos _)
        simp at this
      | fatal =>
        simp only [reduceCtorEq, false_iff]
        intro h
        have := h 0 (Nat.succ_pos _)
        simp at this
      | recoverable =>
        simp only
        rw [ih]
        constructor
        · intro h i hi
          cases i with
          | zero => simp
          | succ j => simpa using h j (by omega)
        · intro h i hi
          simpa using h (i + 1) (by omega)

/-- … and it gives up only after having made every one of the configured attempts: an outage that ends in
    too-many-retries used exactly `m` attempts, and no outage ever uses more -/
theorem c12_exhausted_outage_used_the_whole_budget (m : Nat) (rs : List Attempt)
    (h : (reconnect m rs).1 = .tooManyRetries) : (reconnect m rs).2 = m := by
  induction m generalizing rs with
  | zero => simp [reconnect]
  | succ n ih =>
    unfold reconnect at h ⊢
    cases hr : rs.headD .recoverable with
    | ok => rw [hr] at h; simp at h
    | fatal => rw [hr] at h; simp at h
    | recoverable => rw [hr] at h; simp only at h ⊢; rw [ih rs.tail h]

/-- "for all backoff configurations": the attempts of one outage are the items of the strategy's schedule (both wrappers
    call `attempts.next()` until it ends), and whatever the law, step, factor, cap — also where the delay saturates — the
    schedule has exactly the configured number of items (model `Backoff.lean`, tied to the code by the `backoff` suite) -/
theorem c12_every_backoff_configuration_supplies_the_whole_budget (c : Selium.Backoff.Cfg) :
    (Selium.Backoff.schedule c).length = c.maxAttempts := by
  unfold Selium.Backoff.schedule
  rw [Selium.Backoff.take_spec]
  simp

/-- … so an outage in which every attempt of the schedule fails recoverably ends in too-many-retries after exactly the
    configured number of attempts, for every configuration -/
theorem c12_exhaustion_after_the_whole_schedule (c : Selium.Backoff.Cfg) (rs : List Attempt)
    (hall : ∀ i, i < c.maxAttempts → rs.getD i .recoverable = .recoverable) :
    reconnect (Selium.Backoff.schedule c).length rs = (Outcome.tooManyRetries, c.maxAttempts) := by
  rw [c12_every_backoff_configuration_supplies_the_whole_budget]
  have h1 := (c12_exhaustion_iff c.maxAttempts rs).mpr hall
  have h2 := c12_exhausted_outage_used_the_whole_budget c.maxAttempts rs h1
  exact Prod.ext h1 h2

/-- an unrecoverable error is reported immediately: at the first attempt that hits it, without using the rest
    of the budget -/
theorem c12_fatal_immediate (m k : Nat) (rs : List Attempt) (hk : k < m)
    (hrec : ∀ i, i < k → rs.getD i .recoverable = .recoverable) (hf : rs.getD k .recoverable = .fatal) :
    reconnect m rs = (.fatalError, k + 1) := by
  induction m generalizing rs k with
  | zero => omega
  | succ n ih =>
    unfold reconnect
    cases rs with
    | nil => simp at hf
    | cons r rest =>
      simp only [List.headD_cons, List.tail_cons]
      cases k with
      | zero =>
        simp only [List.getD_cons_zero] at hf
        subst hf
        rfl
      | succ j =>
        have h0 := hrec 0 (Nat.succ_pos _)
        simp only [List.getD_cons_zero] at h0
        subst h0
        simp only
        have := ih j rest (by omega) (fun i hi => by simpa using hrec (i + 1) (by omega)) (by simpa using hf)
        rw [this]

/-- the first successful attempt within the budget re-establishes the stream -/
theorem c12_recovers (m k : Nat) (rs : List Attempt) (hk : k < m)
    (hrec : ∀ i, i < k → rs.getD i .recoverable = .recoverable) (hok : rs.getD k .recoverable = .ok) :
    reconnect m rs = (.reconnected, k + 1) := by
  induction m generalizing rs k with
  | zero => omega
  | succ n ih =>
    unfold reconnect
    cases rs with
    | nil => simp at hok
    | cons r rest =>
      simp only [List.headD_cons, List.tail_cons]
      cases k with
      | zero =>
        simp only [List.getD_cons_zero] at hok
        subst hok
        rfl
      | succ j =>
        have h0 := hrec 0 (Nat.succ_pos _)
        simp only [List.getD_cons_zero] at h0
        subst h0
        simp only
        have := ih j rest (by omega) (fun i hi => by simpa using hrec (i + 1) (by omega)) (by simpa using hok)
        rw [this]

/-- Each outage gets the full configured number of attempts, however many earlier outages were survived: with
    the budget scoped per outage (as `budgets_per_outage` shows the code does), the outcome of every outage is
    `reconnect maxAttempts` of that outage alone. -/
theorem c12_budget_per_outage (m : Nat) (left : Nat) (outages : List (List Attempt)) :
    life true m left outages =
      (outages.map fun o => (reconnect m o).1).take
        ((outages.takeWhile fun o => (reconnect m o).1 = .reconnected).length + 1) := by
  induction outages generalizing left with
  | nil => simp [life]
  | cons o os ih =>
    unfold life
    simp only [if_true]
    cases h : reconnect m o with
    | mk out used =>
      cases out with
      | reconnected =>
        simp only
        rw [ih]
        simp [List.takeWhile, h]
      | tooManyRetries => simp [List.takeWhile, h]
      | fatalError => simp [List.takeWhile, h]

/-- in particular a stream survives any number of outages if each one has a successful attempt within the
    budget — the counter-example to a lifetime budget -/
theorem c12_survives_any_number_of_outages (m : Nat) (hm : 0 < m) (n : Nat) :
    life true m m (List.replicate n [Attempt.ok]) = List.replicate n Outcome.reconnected := by
  have h1 : reconnect m [Attempt.ok] = (.reconnected, 1) := by
    cases m with
    | zero => omega
    | succ k => rfl
  induction n with
  | zero => rfl
  | succ k ih =>
    simp only [List.replicate_succ, life, if_true, h1]
    have : ∀ l, life true m l (List.replicate k [Attempt.ok]) = List.replicate k Outcome.reconnected := by
      intro l
      rw [c12_budget_per_outage m l, c12_budget_per_outage m m] at *
      exact ih
    rw [this]

/-! ### the replier: outages and refused registrations -/

/-- A replier whose every registration is refused (another replier stays bound; the server is reachable, so each
    reconnection itself succeeds at once) reports too-many-retries after exactly `maxAttempts` tries — it does not
    retry for ever. -/
theorem c12_displaced_replier_gives_up (m k : Nat) :
    replierLife true true m m (List.replicate (m + 1 + k) { refused := true, attempts := [.ok] }) =
      List.replicate m Outcome.reconnected ++ [.tooManyRetries] := by
  suffices h : ∀ left n, left < n →
      replierLife true true m left (List.replicate n { refused := true, attempts := [.ok] }) =
        List.replicate left Outcome.reconnected ++ [.tooManyRetries] from h m (m + 1 + k) (by omega)
  intro left
  induction left with
  | zero =>
    intro n hn
    cases n with
    | zero => omega
    | succ n => simp [List.replicate_succ, replierLife, reconnect]
  | succ l ih =>
    intro n hn
    cases n with
    | zero => omega
    | succ n =>
      simp only [List.replicate_succ, replierLife, Bool.and_self, if_true, reconnect, List.headD_cons]
      rw [show l + 1 - 1 = l from rfl, ih n (by omega)]
      rfl

/-- … while a cut always starts a new outage with the full budget, whatever happened before (refusals included) -/
theorem c12_replier_cut_gets_full_budget (m left : Nat) (as : List Attempt) (ss : List Session) :
    replierLife true true m left ({ refused := false, attempts := as } :: ss) =
      match reconnect m as with
      | (.reconnected, used) => .reconnected :: replierLife true true m (m - used) ss
      | (out, _) => [out] := by
  simp only [replierLife, Bool.false_and, Bool.false_eq_true, if_false, if_true]
  rfl

/-- a waiting replier that still has attempts left takes over as soon as a registration is not refused: refusals
    fewer than the budget are all survived -/
theorem c12_waiting_replier_survives (m k : Nat) (hk : k ≤ m) :
    replierLife true true m m (List.replicate k { refused := true, attempts := [.ok] }) =
      List.replicate k Outcome.reconnected := by
  suffices h : ∀ left n, n ≤ left →
      replierLife true true m left (List.replicate n { refused := true, attempts := [.ok] }) =
        List.replicate n Outcome.reconnected from h m k hk
  intro left n
  induction n generalizing left with
  | zero => intro _; rfl
  | succ n ih =>
    intro hn
    cases left with
    | zero => omega
    | succ l =>
      simp only [List.replicate_succ, replierLife, Bool.and_self, if_true, reconnect, List.headD_cons]
      rw [show l + 1 - 1 = l from rfl, ih l (by omega)]

example : replierLife true false 3 3 (List.replicate 9 { refused := true, attempts := [.ok] }) = List.replicate 9 .reconnected := by decide
example : replierLife true true 3 3 (List.replicate 9 { refused := true, attempts := [.ok] }) = [.reconnected, .reconnected, .reconnected, .tooManyRetries] := by decide

/-- … whereas a lifetime budget (the unrepaired replier) gives up after `maxAttempts` outages in total -/
example : life false 2 2 (List.replicate 4 [Attempt.ok]) = [.reconnected, .reconnected, .tooManyRetries] := by decide
example : life true 2 2 (List.replicate 4 [Attempt.ok]) = [.reconnected, .reconnected, .reconnected, .reconnected] := by decide
example : reconnect 3 [.recoverable, .recoverable, .recoverable, .ok] = (.tooManyRetries, 3) := by decide
example : reconnect 3 [.recoverable, .fatal, .ok] = (.fatalError, 2) := by decide

/-! ### the pub/sub wrapper at poll level: no lost wake-up, exhaustion is reported

`Client/KeepAliveSM.lean`: one `poll_ready` / `poll_flush` / `poll_next` of `KeepAlive<T>`. Where the wrapper fires the
task's waker itself is regenerated from `keep_alive/pubsub.rs`. -/

/-- the wrapper wakes itself where it has to (regenerated from the source on every run) -/
theorem c12_wrapper_wakes_itself : wakesOnExhaustion = true ∧ wakesAfterArmingAttempt = true ∧ wakesOnReconnect = true := by
  decide

/-- whenever a poll returns Pending, the wrapper fired the waker itself or something it polled holds it — for a
    wrapper that wakes itself at its three wake sites -/
theorem poll_wake (c : Cfg) (hA : c.wakeArm = true) (hE : c.wakeExhaust = true) (hS : c.wakeSuccess = true)
    (s : Status) (inner : InnerAns) (attempt : AttemptAns) (h : (poll c s inner attempt).seen = .pending) :
    (poll c s inner attempt).woke = true ∨ (poll c s inner attempt).childHolds = true := by
  cases s with
  | connected =>
    cases inner <;> simp [poll] at h ⊢
    simp only [onDisconnect, hA, hE]
    split <;> simp
  | exhausted => simp [poll] at h
  | disconnected left =>
    cases attempt <;> simp [poll, hS] at h ⊢
    cases left <;> simp [onDisconnect, hA, hE]

/-- "instead of hanging": whenever a poll of the wrapper returns Pending, either it fired the task's waker itself or
    something it polled (the inner stream, the reconnection attempt) answered Pending and holds it — in every status,
    for every answer of the inner stream and of the attempt, for every budget (wake sites as regenerated). -/
theorem c12_no_lost_wakeup (max : Nat) (s : Status) (inner : InnerAns) (attempt : AttemptAns)
    (h : (poll { max := max } s inner attempt).seen = .pending) :
    (poll { max := max } s inner attempt).woke = true ∨ (poll { max := max } s inner attempt).childHolds = true :=
  poll_wake { max := max } c12_wrapper_wakes_itself.2.1 c12_wrapper_wakes_itself.1 c12_wrapper_wakes_itself.2.2 s inner attempt h

/-- `close()` during an outage does not strand the task either: `poll_close` keeps the reconnection going (regenerated),
    so a Pending answer comes with a waker held or fired, as for the other operations. -/
theorem c12_close_no_lost_wakeup (max : Nat) (s : Status) (inner : InnerAns) (attempt : AttemptAns)
    (h : (pollClose { max := max } closeKeepsReconnecting s inner attempt).seen = .pending) :
    (pollClose { max := max } closeKeepsReconnecting s inner attempt).woke = true ∨
    (pollClose { max := max } closeKeepsReconnecting s inner attempt).childHolds = true := by
  have hk : closeKeepsReconnecting = true := by decide
  rw [hk] at h ⊢
  cases s with
  | connected => cases inner <;> simp [pollClose] at h ⊢
  | exhausted => simp [pollClose] at h
  | disconnected left =>
    simp only [pollClose, if_true] at h ⊢
    exact c12_no_lost_wakeup max (.disconnected left) inner attempt h

/-- The defect this guards against, for the record: a `poll_close` that answers Pending while Disconnected without polling
    anything leaves the task with no waker at all. -/
theorem c12_close_without_polling_strands_the_task (max left : Nat) (inner : InnerAns) (attempt : AttemptAns) :
    (pollClose { max := max } false (.disconnected left) inner attempt).seen = .pending ∧
    (pollClose { max := max } false (.disconnected left) inner attempt).woke = false ∧
    (pollClose { max := max } false (.disconnected left) inner attempt).childHolds = false := by
  simp [pollClose]

/-- one more failed attempt while `left` are still in the iterator -/
theorem drive_disconnected (c : Cfg) (hA : c.wakeArm = true) (hE : c.wakeExhaust = true) (left extra : Nat) :
    driveUntilValue c (left + 2 + extra) (.disconnected left) =
      List.replicate (left + 1) .pending ++ [.tooManyRetries] := by
  induction left generalizing extra with
  | zero =>
    have : 0 + 2 + extra = (extra + 1) + 1 := by omega
    rw [this]
    simp [driveUntilValue, poll, onDisconnect, hE]
  | succ n ih =>
    have : n + 1 + 2 + extra = (n + 2 + extra) + 1 := by omega
    rw [this, driveUntilValue]
    simp only [poll, onDisconnect, hA, Bool.true_or, if_true]
    rw [ih extra]
    simp [List.replicate_succ]

theorem drive_connected (c : Cfg) (hA : c.wakeArm = true) (hE : c.wakeExhaust = true) (hP : c.perOutage = true) :
    driveUntilValue c (c.max + 3) .connected = List.replicate (c.max + 1) .pending ++ [.tooManyRetries] := by
  cases hm : c.max with
  | zero => simp [driveUntilValue, poll, onDisconnect, hE, hP, hm]
  | succ n =>
    have : n + 1 + 3 = (n + 2 + 1) + 1 := by omega
    rw [this, driveUntilValue]
    simp only [poll, onDisconnect, hP, hA, hm, if_true, Bool.true_or]
    rw [drive_disconnected c hA hE n 1]
    simp [List.replicate_succ]

/-- When every attempt of an outage fails, the stream reports too-many-retries — under an executor that polls only on
    wake-up, after exactly as many polls as the budget has attempts (plus the one that noticed the loss and the one
    that reports): it does not hang, whatever the budget, zero included. -/
theorem c12_exhaustion_is_reported (max : Nat) :
    driveUntilValue { max := max } (max + 3) .connected = List.replicate (max + 1) .pending ++ [.tooManyRetries] :=
  drive_connected { max := max } c12_wrapper_wakes_itself.2.1 c12_wrapper_wakes_itself.1 (show pubsubBudgetPerOutage = true by decide)

/-- The defect this guards against, for the record: a wrapper that does not fire the waker when the budget runs out
    sleeps for good one poll before it would have reported (budget 1: noticed, one failed attempt, asleep). -/
theorem c12_silent_exhaustion_hangs :
    driveUntilValue { max := 1, perOutage := true, wakeArm := true, wakeExhaust := false, wakeSuccess := true } 10 .connected
      = [.pending, .pending] := by
  decide

end Selium.KeepAlive

/-! ## The connection shared by all streams of a `Client` (`client/src/connection.rs`) -/
namespace Selium.SharedConn
open Selium.Gen.Connection

/-- regenerated from `ClientConnection::reconnect`: a new connection is dialled only when the current one is closed -/
theorem reconnect_only_if_closed : reconnectOnlyIfClosed = true := by decide

/-- A stream that re-establishes itself does not disturb its siblings: whatever stream `i` does, a stream `j` that
    was working (registered on the client's current, open connection) still is. -/
theorem c12_sibling_recovery_does_not_disturb (s : St) (i j : Nat) (h : working s j) :
    working (reestablish reconnectOnlyIfClosed s i) j := by
  rw [reconnect_only_if_closed]
  obtain ⟨hc, hr⟩ := h
  have hrc : reconnect true s = s := by simp [reconnect, hc]
  unfold reestablish working
  rw [hrc]
  refine ⟨hc, ?_⟩
  simp only
  by_cases hij : i = j
  · subst hij
    have hlt : i < s.regs.length := by
      rcases Nat.lt_or_ge i s.regs.length with h | h
      · exact h
      · rw [List.getElem?_eq_none h] at hr; cases hr
    simp [List.getElem?_set, hlt]
  · simp [List.getElem?_set, hij, hr]

/-- … and the stream that re-established itself works. -/
theorem c12_reestablished_stream_works (s : St) (i : Nat) (hi : i < s.regs.length) :
    working (reestablish reconnectOnlyIfClosed s i) i := by
  rw [reconnect_only_if_closed]
  unfold reestablish working reconnect
  by_cases hc : s.closed = true
  · simp [hc, List.getElem?_set, hi]
  · have hc' : s.closed = false := by simpa using hc
    simp [hc', List.getElem?_set, hi]

theorem reestablish_length (b : Bool) (s : St) (i : Nat) : (reestablish b s i).regs.length = s.regs.length := by
  unfold reestablish reconnect
  split <;> simp

theorem run_cons (b : Bool) (s : St) (x : Nat) (xs : List Nat) : run b s (x :: xs) = run b (reestablish b s x) xs := rfl

/-- a working stream keeps working through any number of re-establishments of any streams -/
theorem run_keeps_working (s : St) (order : List Nat) (j : Nat) (h : working s j) :
    working (run reconnectOnlyIfClosed s order) j := by
  induction order generalizing s with
  | nil => exact h
  | cons x xs ih => rw [run_cons]; exact ih _ (c12_sibling_recovery_does_not_disturb s x j h)

/-- After a connection loss, in whatever order the streams of a client re-establish themselves (one after the other
    under the connection's mutex; any stream any number of times), every stream that has done so works: all of them
    end up registered on one and the same open connection. From any state — in particular the one a cut leaves. -/
theorem c12_all_siblings_recover (order : List Nat) : ∀ (s : St),
    ∀ j ∈ order, j < s.regs.length → working (run reconnectOnlyIfClosed s order) j := by
  induction order with
  | nil => intro s j hj; cases hj
  | cons x xs ih =>
    intro s j hj hlt
    rw [run_cons]
    by_cases hjx : j ∈ xs
    · exact ih _ j hjx (by rw [reestablish_length]; exact hlt)
    · have hx : j = x := by
        simp only [List.mem_cons] at hj
        rcases hj with h | h
        · exact h
        · exact absurd h hjx
      subst hx
      exact run_keeps_working _ xs j (c12_reestablished_stream_works s j hlt)

/-- Why the guard matters: were every `reconnect()` to dial a new connection (dropping the one it replaces), two streams
    of one client that lose their connection and re-establish themselves in turn would never both work — the second
    one's reconnection cuts the first off again. -/
theorem c12_unconditional_redial_cuts_siblings :
    ¬ working (run false (cut { regs := [0, 0] }) [0, 1]) 0 ∧
    working (run true (cut { regs := [0, 0] }) [0, 1]) 0 ∧ working (run true (cut { regs := [0, 0] }) [0, 1]) 1 := by
  decide

end Selium.SharedConn

#print axioms Selium.KeepAlive.budgets_per_outage
#print axioms Selium.KeepAlive.recoverable_classification
#print axioms Selium.KeepAlive.reconnect_used_le
#print axioms Selium.KeepAlive.c12_exhaustion_iff
#print axioms Selium.KeepAlive.c12_exhausted_outage_used_the_whole_budget
#print axioms Selium.KeepAlive.c12_fatal_immediate
#print axioms Selium.KeepAlive.c12_recovers
#print axioms Selium.KeepAlive.c12_budget_per_outage
#print axioms Selium.KeepAlive.c12_survives_any_number_of_outages
#print axioms Selium.KeepAlive.c12_displaced_replier_gives_up
#print axioms Selium.KeepAlive.c12_replier_cut_gets_full_budget
#print axioms Selium.KeepAlive.c12_waiting_replier_survives
#print axioms Selium.KeepAlive.c12_wrapper_wakes_itself
#print axioms Selium.KeepAlive.poll_wake
#print axioms Selium.KeepAlive.c12_no_lost_wakeup
#print axioms Selium.KeepAlive.drive_connected
#print axioms Selium.KeepAlive.c12_close_no_lost_wakeup
#print axioms Selium.KeepAlive.c12_close_without_polling_strands_the_task
#print axioms Selium.KeepAlive.drive_disconnected
#print axioms Selium.KeepAlive.c12_exhaustion_is_reported
#print axioms Selium.KeepAlive.c12_silent_exhaustion_hangs
#print axioms Selium.SharedConn.reconnect_only_if_closed
#print axioms Selium.SharedConn.c12_sibling_recovery_does_not_disturb
#print axioms Selium.SharedConn.c12_reestablished_stream_works
#print axioms Selium.SharedConn.reestablish_length
#print axioms Selium.SharedConn.run_cons
#print axioms Selium.SharedConn.run_keeps_working
#print axioms Selium.SharedConn.c12_all_siblings_recover
#print axioms Selium.SharedConn.c12_unconditional_redial_cuts_siblings
#print axioms Selium.KeepAlive.c12_every_backoff_configuration_supplies_the_whole_budget
#print axioms Selium.KeepAlive.c12_exhaustion_after_the_whole_schedule
#print axioms Selium.KeepAlive.registration_loss_is_an_ordinary_loss
