/-
C15 — Mutual TLS: only peers certified by the configured CA can talk.

Level "other": a policy theorem over an abstract chain-validation relation, instantiated with the
configuration facts the translator reads from the source (which client-certificate verifier the server
installs, whether the client verifies the server against its configured roots, the expected server name), plus an
exhaustive end-to-end run of the 8 identity pairings the property quantifies over, with fresh keys every run.
X.509, signatures and the handshake itself are rustls / webpki / ring: trusted, not proved.
-/
import SeliumModel.Server.Tls

namespace Selium.Tls
open Selium.Gen.Tls

/-- obligations on the regenerated configuration facts -/
theorem config_is_mutual : serverClientAuth = .requiredVerified ∧ clientVerifiesServer = true ∧
    clientPresentsCertificate = true ∧ sameAlpn = true ∧ serverName = "localhost" := by decide

/-- With the extracted configuration a connection is established exactly when the client's certificate chains
    to the CA the server was started with AND the server's certificate chains to the CA the client was configured
    with and names `localhost`. -/
theorem c15_policy (serverRoots clientRoots : Nat) (client server : Identity) :
    handshake serverRoots clientRoots client server = true ↔
      chainsTo client serverRoots = true ∧ chainsTo server clientRoots = true ∧ nameOf server = some "localhost" := by
  obtain ⟨h1, h2, _, h4, h5⟩ := config_is_mutual
  simp only [handshake, serverAccepts, clientAccepts, h1, h2, h4, h5, if_true, Bool.true_and, Bool.and_eq_true,
    decide_eq_true_eq]

/-- In particular a client with no certificate, a self-signed one, or one from another CA is refused, and a
    client refuses a server certified by another CA — whatever the other side presents. -/
theorem c15_untrusted_refused (serverRoots clientRoots other : Nat) (hne : other ≠ serverRoots) (hne' : other ≠ clientRoots)
    (peer : Identity) (san : String) :
    handshake serverRoots clientRoots .absent peer = false ∧
    handshake serverRoots clientRoots .selfSigned peer = false ∧
    handshake serverRoots clientRoots (.signedBy other san) peer = false ∧
    handshake serverRoots clientRoots peer (.signedBy other san) = false := by
  have key := c15_policy serverRoots clientRoots
  refine ⟨?_, ?_, ?_, ?_⟩
  · cases h : handshake serverRoots clientRoots .absent peer
    · rfl
    · have := (key _ _).mp h; simp [chainsTo] at this
  · cases h : handshake serverRoots clientRoots .selfSigned peer
    · rfl
    · have := (key _ _).mp h; simp [chainsTo] at this
  · cases h : handshake serverRoots clientRoots (.signedBy other san) peer
    · rfl
    · have := (key _ _).mp h; simp [chainsTo, hne] at this
  · cases h : handshake serverRoots clientRoots peer (.signedBy other san)
    · rfl
    · have := (key _ _).mp h; simp [chainsTo, hne'] at this

/-- The identities the bundled generator produces (CA, a server certificate for `localhost`, a client
    certificate, all signed by that CA) satisfy both directions. -/
theorem c15_generated_set_works (ca : Nat) :
    handshake ca ca (.signedBy ca "localhost") (.signedBy ca "localhost") = true := by
  rw [c15_policy]; simp [chainsTo, nameOf]

/-- What the bundled generator makes (regenerated from `tools/src/commands/gen_certs`): entity certificates carry the
    name the client asks for, the usages of their roles, are signed by the generated CA, which is a CA; with
    `--no-expiry` the library's 1975–4096 applies; otherwise the validity reaches the same span (at most ten years,
    whatever number of days the generator is set to) either side of now. -/
theorem generator_facts : genEntitySan = serverName ∧ genServerEku = .serverAuth ∧ genClientEku = .clientAuth ∧
    genCaIsCa = true ∧ genEntityIsCa = false ∧ genEntitySignedByCa = true ∧ genValiditySymmetric = true ∧
    genNoExpirySkipsValidity = true ∧ span genCaValidityDays ≤ 315532800 ∧ span genEntityValidityDays ≤ 315532800 := by
  decide

/-- "The certificate set produced by the bundled generator satisfies both directions for localhost": for either
    setting of `--no-expiry` and any moment between 1980 and 4000, a client and a server that each present the
    generated certificate of their role and trust the generated CA complete the handshake. (A back-dated start that
    fell before 1970, or a validity that did not contain now, would make `presented` unusable.) -/
theorem c15_generator_set_works_both_ways (ca : Nat) (noExpiry : Bool) (now : Int)
    (h1 : 315532800 ≤ now) (h2 : now ≤ 64060588800) :
    handshake ca ca
      (presented now genClientEku (genCa ca noExpiry now) (genEntity ca genClientEku noExpiry now))
      (presented now genServerEku (genCa ca noExpiry now) (genEntity ca genServerEku noExpiry now)) = true := by
  obtain ⟨hsan, hse, hce, hca, hen, hsig, hsym, hskip, hcs, hes⟩ := generator_facts
  have hname : serverName = "localhost" := config_is_mutual.2.2.2.2
  rw [c15_policy]
  have hA1 : (0 ≤ now - (span genCaValidityDays : Int) ∧ now - (span genCaValidityDays : Int) ≤ now) ∧ now ≤ now + (span genCaValidityDays : Int) := by omega
  have hA2 : (0 ≤ now - (span genEntityValidityDays : Int) ∧ now - (span genEntityValidityDays : Int) ≤ now) ∧ now ≤ now + (span genEntityValidityDays : Int) := by omega
  have hB : (157766400 ≤ now) ∧ now ≤ 67090118400 := by omega
  have hC : (span genCaValidityDays : Int) ≤ now ∧ (span genEntityValidityDays : Int) ≤ now := by omega
  cases noExpiry <;>
    simp [presented, validAt, genCa, genEntity, validity, hca, hen, hsig, hsym, hskip, hse, hce,
      chainsTo, nameOf, hsan, hname, rcgenNotBefore, rcgenNotAfter, hA1, hA2, hB, hC]

/-- … and also when the clocks of the generating machine and of the peers are not in step: a set generated at moment `g`
    (without `--no-expiry`) is accepted by peers whose clock reads `p`, for every `p` at most the configured number of days
    before or after `g` — the generator back-dates the start of validity by as much as it post-dates the end
    (`genValiditySymmetric`), so a peer that is minutes, hours or days behind does not find the certificates "not yet valid". -/
theorem c15_generator_set_tolerates_clock_skew (ca : Nat) (g p : Int)
    (h1 : 315532800 ≤ g) (h2 : g ≤ 64060588800)
    (hp1 : g - (span genCaValidityDays : Int) ≤ p) (hp2 : p ≤ g + (span genCaValidityDays : Int))
    (hp3 : g - (span genEntityValidityDays : Int) ≤ p) (hp4 : p ≤ g + (span genEntityValidityDays : Int)) :
    handshake ca ca
      (presented p genClientEku (genCa ca false g) (genEntity ca genClientEku false g))
      (presented p genServerEku (genCa ca false g) (genEntity ca genServerEku false g)) = true := by
  obtain ⟨hsan, hse, hce, hca, hen, hsig, hsym, hskip, hcs, hes⟩ := generator_facts
  have hname : serverName = "localhost" := config_is_mutual.2.2.2.2
  rw [c15_policy]
  have hC : (span genCaValidityDays : Int) ≤ g ∧ (span genEntityValidityDays : Int) ≤ g := by omega
  have hA1 : (0 ≤ g - (span genCaValidityDays : Int) ∧ g - (span genCaValidityDays : Int) ≤ p) ∧ p ≤ g + (span genCaValidityDays : Int) := by omega
  have hA2 : (0 ≤ g - (span genEntityValidityDays : Int) ∧ g - (span genEntityValidityDays : Int) ≤ p) ∧ p ≤ g + (span genEntityValidityDays : Int) := by omega
  simp [presented, validAt, genCa, genEntity, validity, hca, hen, hsig, hsym, hskip, hse, hce,
    chainsTo, nameOf, hsan, hname, hA1, hA2, hC]

/-- The defect this guards against, for the record: a validity of a hundred years either side of 2026 starts in 1926,
    before anything webpki can represent: such a certificate is unusable in both directions. -/
theorem c15_start_before_1970_is_unusable :
    validAt 1790000000 { issuer := 0, isCa := false, san := some "localhost", eku := some .serverAuth,
                          notBefore := 1790000000 - 36500 * 86400, notAfter := 1790000000 + 36500 * 86400 } = false := by
  decide

/-- the full table of the property's quantifier: client {trusted, other CA, self-signed, none} x server
    {trusted, other CA}; CA 0 is the configured one, CA 1 another -/
example : [Identity.signedBy 0 "localhost", .signedBy 1 "localhost", .selfSigned, .absent].map
      (fun c => [Identity.signedBy 0 "localhost", .signedBy 1 "localhost"].map fun s => handshake 0 0 c s)
    = [[true, false], [false, false], [false, false], [false, false]] := by decide

end Selium.Tls

#print axioms Selium.Tls.config_is_mutual
#print axioms Selium.Tls.c15_policy
#print axioms Selium.Tls.c15_untrusted_refused
#print axioms Selium.Tls.c15_generated_set_works
#print axioms Selium.Tls.generator_facts
#print axioms Selium.Tls.c15_generator_set_works_both_ways
#print axioms Selium.Tls.c15_start_before_1970_is_unusable
#print axioms Selium.Tls.c15_generator_set_tolerates_clock_skew
