/-
C13 — Backoff schedules follow their law, are clamped, finite and panic-free.

Property theorems only. Model: `SeliumModel/Backoff.lean` (hand model of `BackoffStrategyIter::next`,
tied to the code by the `backoff` correspondence suite); constants from `Gen/Backoff.lean`.
Hypotheses `hstep`/`hatt` are exactly the ranges of the Rust types (`Duration`, `u32`).
-/
import SeliumModel.Lemmas.Backoff

namespace Selium.Backoff

/-- The delay the property prescribes for attempt `i` (1-based): the law, saturated at `Duration::MAX`,
    then clamped to the configured maximum. -/
def specDelay (c : Cfg) (i : Nat) : Nat := clamp c (min (law c i) DMAX)

/-- Exactly the configured number of attempts. -/
theorem c13_length (c : Cfg) : (schedule c).length = c.maxAttempts := by
  unfold schedule
  rw [take_spec]
  simp

/-- The whole schedule, in one equation: attempt `i+1` carries number `i+1`, the configured
    `max_attempts`, and the delay given by the (saturated, clamped) law. Holds for every strategy,
    step, factor, attempt count and optional maximum within the ranges of the Rust types. -/
theorem c13_schedule (c : Cfg) (hstep : c.step ≤ DMAX) (hatt : c.maxAttempts ≤ U32MAX) :
    schedule c = (List.range c.maxAttempts).map (fun i =>
      ({ duration := specDelay c (i + 1), attemptNum := i + 1, maxAttempts := c.maxAttempts } : Attempt)) := by
  unfold schedule
  rw [take_spec]
  have hm : min (c.maxAttempts + 1) (c.maxAttempts + 1 - 1) = c.maxAttempts := by omega
  rw [hm]
  apply List.map_congr_left
  intro i hi
  have hi' : i < c.maxAttempts := List.mem_range.mp hi
  have hmod : (i + 1) % (U32MAX + 1) = i + 1 := by
    rw [Nat.mod_eq_of_lt]; omega
  simp only [specDelay, Nat.add_comm 1 i, rawDelay_spec c (i + 1) hstep, hmod]

/-- Numbered from 1. -/
theorem c13_numbering (c : Cfg) (hstep : c.step ≤ DMAX) (hatt : c.maxAttempts ≤ U32MAX)
    (i : Nat) (hi : i < (schedule c).length) :
    ((schedule c)[i]).attemptNum = i + 1 := by
  simp [c13_schedule c hstep hatt]

/-- Each delay follows the chosen law (constant: step; linear: step·attempt; exponential:
    step·factor^(attempt−1)), saturated at `Duration::MAX` and clamped. -/
theorem c13_law (c : Cfg) (hstep : c.step ≤ DMAX) (hatt : c.maxAttempts ≤ U32MAX)
    (i : Nat) (hi : i < (schedule c).length) :
    ((schedule c)[i]).duration = specDelay c (i + 1) := by
  simp [c13_schedule c hstep hatt]

/-- No delay exceeds the configured maximum. -/
theorem c13_clamped (c : Cfg) (m : Nat) (hm : c.maxDuration = some m) :
    ∀ a ∈ schedule c, a.duration ≤ m := by
  intro a ha
  unfold schedule at ha
  rw [take_spec] at ha
  simp only [List.mem_map] at ha
  obtain ⟨i, _, rfl⟩ := ha
  simp only [clamp, hm]
  exact Nat.min_le_right _ _

/-- Nothing wraps: every delay is a representable `Duration`, whatever the factor, step or attempt count. -/
theorem c13_representable (c : Cfg) (hstep : c.step ≤ DMAX) (hatt : c.maxAttempts ≤ U32MAX) :
    ∀ a ∈ schedule c, a.duration ≤ DMAX := by
  intro a ha
  rw [c13_schedule c hstep hatt] at ha
  simp only [List.mem_map] at ha
  obtain ⟨i, _, rfl⟩ := ha
  simp only [specDelay, clamp]
  cases c.maxDuration with
  | none => exact Nat.min_le_right _ _
  | some m => exact Nat.le_trans (Nat.min_le_left _ _) (Nat.min_le_right _ _)

/-- When the un-saturated law would overflow a `Duration`, the delay is the maximum delay if one is
    set (and it is below `Duration::MAX`), else `Duration::MAX`. -/
theorem c13_saturates (c : Cfg) (i : Nat) (hover : DMAX ≤ law c i) :
    specDelay c i = match c.maxDuration with | some m => min DMAX m | none => DMAX := by
  simp only [specDelay, clamp, Nat.min_eq_right hover]
  cases c.maxDuration <;> rfl

/-- The iterator is finite: after `maxAttempts` draws `next` returns `none`, and keeps doing so. -/
theorem c13_exhausted (c : Cfg) (cur : Nat) (h : c.maxAttempts < cur) : next c cur = none := by
  simp [next, h]

/-! Non-vacuity: the hypotheses are met by concrete, non-trivial configurations, including the ones the
    unrepaired code panicked on (exponential(2) with 70 attempts; linear with a `Duration::MAX` step). -/

example : (schedule { strategy := .exponential 2, step := 2 * NANOS, maxAttempts := 6,
                      maxDuration := some (8 * NANOS) }).map (·.duration)
    = [2 * NANOS, 4 * NANOS, 8 * NANOS, 8 * NANOS, 8 * NANOS, 8 * NANOS] := by decide

example : ((schedule { strategy := .exponential 2, step := NANOS, maxAttempts := 70,
                       maxDuration := none }).map (·.duration)).getLast? = some DMAX := by decide

example : (schedule { strategy := .linear, step := DMAX, maxAttempts := 2, maxDuration := none }).map
    (·.duration) = [DMAX, DMAX] := by decide

example : (schedule (Cfg.default .linear)).length = 5 := by decide

end Selium.Backoff

#print axioms Selium.Backoff.c13_length
#print axioms Selium.Backoff.c13_schedule
#print axioms Selium.Backoff.c13_numbering
#print axioms Selium.Backoff.c13_law
#print axioms Selium.Backoff.c13_clamped
#print axioms Selium.Backoff.c13_representable
#print axioms Selium.Backoff.c13_saturates
#print axioms Selium.Backoff.c13_exhausted
