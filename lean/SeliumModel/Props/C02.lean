/-
C02 — Request/reply routing: replies reach only the originating requestor, none lost.

Model: `Route/ReqRep.lean` (the repaired `poll`, block by block) and `Sink/Router.lean`, scripted children,
every ready/pending/error behaviour of every sink and stream, any number of requestors, any sequence of
replier binds, any header maps (including requestor-supplied `cid`), any `HashMap` / `StreamMap` order.
Ghost logs: `taken` (requests taken from requestors, as tagged), `handed` (accepted by a replier's sink),
`lost`, `repTaken` (replies taken from repliers), `routed` (what became of each reply).
-/
import SeliumModel.Lemmas.ReqRepMore
import SeliumModel.Lemmas.ReqRepWf
import SeliumModel.Lemmas.System

namespace Selium.Route
open Selium.Sink

theorem reqInv_init : ReqInv ({} : RR) := ⟨by simp, rfl, by intro x hx; simp at hx⟩
theorem repInv_init : RepInv ({} : RR) :=
  ⟨rfl, by simp, by intro k hk; simp at hk, by intro x hx; simp at hx⟩

theorem rrExec_inv (P : RR → Prop) (h0 : P {}) (hpoll : ∀ fuel s, P s → P (rrPoll fuel s).2)
    (hframe : ∀ s t : RR, P s → t.handed = s.handed → t.bufReq = s.bufReq → t.taken = s.taken → t.lost = s.lost →
       t.routed = s.routed → t.bufRep = s.bufRep → t.repTaken = s.repTaken → t.sinks = s.sinks → t.nextId = s.nextId →
       t.rejected = s.rejected → t.bufErr = s.bufErr → P t)
    (history : List REvent) : P (rrExec history) := by
  unfold rrExec
  suffices ∀ s, P s → P (history.foldl rrApply s) from this {} h0
  induction history with
  | nil => intro s h; exact h
  | cons e es ih =>
    intro s h
    apply ih
    cases e with
    | enqueue sock =>
      simp only [rrApply]
      split
      · exact h
      · exact hframe s _ h rfl rfl rfl rfl rfl rfl rfl rfl rfl rfl rfl
    | close => exact hframe s _ h rfl rfl rfl rfl rfl rfl rfl rfl rfl rfl rfl
    | poll fuel so ko => exact hpoll fuel _ (hframe s _ h rfl rfl rfl rfl rfl rfl rfl rfl rfl rfl rfl)

/-- Every request is handed to a replier at most once, in the sending requestor's order: what repliers were
    handed (plus the one buffered request) is a subsequence of the requests taken, and every request taken
    is accounted for — handed, buffered, or lost. -/
theorem c02_requests_at_most_once_in_order (history : List REvent) :
    ((rrExec history).handed.map (·.2) ++ (rrExec history).bufReq.toList).Sublist ((rrExec history).taken.map (·.2)) ∧
    (rrExec history).taken.length =
      (rrExec history).handed.length + (rrExec history).lost.length + (rrExec history).bufReq.toList.length := by
  have := rrExec_inv ReqInv reqInv_init rrPoll_req
    (fun s t h h1 h2 h3 h4 _ _ _ _ _ _ _ => reqInv_of_eq h h1 h2 h3 h4) history
  exact ⟨this.sub, this.count⟩

/-- … tagged with an origin the requestor cannot forge: whatever headers the requestor supplied (including its
    own `cid`), the request carries the router's id for the stream it arrived on. -/
theorem c02_origin_tag (history : List REvent) :
    ∀ x ∈ (rrExec history).taken, ∃ h p, x.2 = tagRequest x.1 h p ∧
      ((h.getD []).set CID (toString x.1)).get CID = some (toString x.1) := by
  have := rrExec_inv ReqInv reqInv_init rrPoll_req
    (fun s t h h1 h2 h3 h4 _ _ _ _ _ _ _ => reqInv_of_eq h h1 h2 h3 h4) history
  intro x hx
  obtain ⟨h, p, hxe⟩ := this.tagged x hx
  exact ⟨h, p, hxe, hdr_get_set _ _ _⟩

/-- A request is dropped only while no replier is bound (it is overwritten by the next one) or because the
    bound replier's sink refused it: at the point where the next request is taken, none is buffered if a replier
    is bound — so with a replier bound and accepting, every request is handed over exactly once. -/
theorem c02_exactly_once_while_bound (s : RR) :
    NextHas NoBacklog (((((partA { s with serverPending := s.server.isNone, streamPending := false }).andThen partB).andThen
      partH).andThen partD).andThen partE) ∧
    ∀ t, NoBacklog t → ((partF t).state.lost = t.lost ∨ t.server = none) :=
  ⟨before_partF s, partF_loses_only_unbound⟩

/-- No reply the replier emitted is dropped or overwritten, however slow a requestor is: the replies taken from
    repliers are, in order, exactly those already dealt with plus the one buffered. And each connected requestor's
    sink has been handed exactly the replies routed to its id, in order — nobody else's. -/
theorem c02_replies_none_lost_each_to_its_requestor (history : List REvent) :
    (rrExec history).routed.map (·.1) ++ (rrExec history).bufRep.toList = (rrExec history).repTaken ∧
    ∀ k ∈ (rrExec history).sinks, k.got = (rrExec history).routed.filterMap (deliveredTo k.id) := by
  have := rrExec_inv RepInv repInv_init rrPoll_rep
    (fun s t h _ _ _ _ h1 h2 h3 h4 h5 _ _ => repInv_of_eq h h1 h2 h3 h4 h5) history
  exact ⟨this.replies, fun k hk => (this.sinks k hk).2⟩

/-- What "routed to" means: a reply is delivered only to the requestor its `cid` names, with the routing tag
    stripped and payload and remaining headers intact; every other sink is untouched. -/
theorem c02_reply_delivery (f : RFrame) (es : List (Child RFrame)) (cid : Nat) (g : RFrame)
    (h : (routerSend f es).1 = .delivered cid g) :
    ∃ hd p v, f = .msg (some hd) p ∧ hd.get CID = some v ∧ parseUsize v = some cid ∧ g = stripCid hd p ∧
      (routerSend f es).2.1 = es.map (fun d => if d.id = cid then d.afterSend g else d) :=
  routerSend_delivered f es cid g h

/-- A reply with a missing, unknown or malformed routing tag (or a frame that is not a message) is discarded
    without touching any sink. -/
theorem c02_bad_tag_discarded (f : RFrame) (es : List (Child RFrame)) (why : String)
    (h : (routerSend f es).1 = .discarded why) : (routerSend f es).2.1 = es ∧ (routerSend f es).2.2 = [] :=
  routerSend_discarded f es why h

/-- every routing step recorded as delivered to `cid` was a message tagged `cid`, handed over with the tag stripped -/
theorem c02_routed_wf (history : List REvent) : RouteWf (rrExec history) :=
  rrExec_inv RouteWf (by intro x hx; simp at hx) rrPoll_wf
    (fun s t h _ _ _ _ h1 _ _ _ _ _ _ => routeWf_of_eq h h1) history

/-- End to end across the router, for a replier that answers with the headers of the request it answers (the library
    replier does: `c04_replier_answers_in_order_with_request_headers`): whatever a connected requestor's sink was
    handed is the answer to a request that was taken from that very requestor's stream — the frame's headers are that
    request's headers (as tagged by the router) with the tag stripped. In every history, for every schedule, however
    many requestors there are and whatever `cid` headers they forge. -/
theorem c02_honest_replies_reach_the_requestor_they_answer (history : List REvent)
    (honest : ∀ f ∈ (rrExec history).repTaken, ∃ x ∈ (rrExec history).handed, ∃ hd p r,
        x.2 = .msg (some hd) p ∧ f = .msg (some hd) r) :
    ∀ k ∈ (rrExec history).sinks, ∀ g ∈ k.got,
      ∃ h p r, (k.id, tagRequest k.id h p) ∈ (rrExec history).taken ∧
        g = stripCid ((h.getD []).set CID (toString k.id)) r := by
  intro k hk g hg
  have hrep := c02_replies_none_lost_each_to_its_requestor history
  have hreq := c02_requests_at_most_once_in_order history
  have htag := c02_origin_tag history
  have hwf := c02_routed_wf history
  -- `g` was delivered by some routing step addressed to `k.id`
  rw [hrep.2 k hk] at hg
  obtain ⟨x, hx, hdel⟩ := List.mem_filterMap.1 hg
  have hx2 : x.2 = .delivered k.id g := by
    unfold deliveredTo at hdel
    cases hr : x.2 with
    | delivered cid g' =>
      simp only [hr] at hdel
      by_cases hc : cid = k.id
      · simp only [hc, if_true, Option.some.injEq] at hdel; rw [hc, hdel]
      · simp [hc] at hdel
    | refused cid g' => simp [hr] at hdel
    | discarded w => simp [hr] at hdel
  obtain ⟨hd, pr, v, hx1, hget, hparse, hstrip⟩ := hwf x hx k.id g hx2
  -- that reply was taken from the replier, which echoed the headers of a request it had been handed
  have hmem : x.1 ∈ (rrExec history).repTaken := by
    rw [← hrep.1]; exact List.mem_append_left _ (List.mem_map.2 ⟨x, hx, rfl⟩)
  obtain ⟨y, hy, hd', p', r', hy2, hf⟩ := honest x.1 hmem
  rw [hx1] at hf
  have hhd : hd = hd' := by injection hf with h1 _; exact Option.some.inj h1
  have hr' : pr = r' := by injection hf
  subst hhd
  -- the request it had been handed was taken from some requestor's stream and tagged with that requestor's id
  have hin : y.2 ∈ (rrExec history).taken.map (·.2) :=
    hreq.1.subset (List.mem_append_left _ (List.mem_map.2 ⟨y, hy, rfl⟩))
  obtain ⟨z, hz, hz2⟩ := List.mem_map.1 hin
  obtain ⟨h0, p0, hz3, _⟩ := htag z hz
  rw [hy2] at hz2
  rw [hz3] at hz2
  simp only [tagRequest, RFrame.msg.injEq, Option.some.injEq] at hz2
  -- … and the tag names this requestor
  have hv : v = toString z.1 := by
    have := hdr_get_set (h0.getD []) CID (toString z.1)
    rw [hz2.1] at this
    rw [hget] at this
    exact Option.some.inj this
  rw [hv] at hparse
  have hid : k.id = z.1 := parseUsize_toString_some z.1 k.id hparse
  refine ⟨h0, p0, pr, ?_, ?_⟩
  · rw [hid]
    have : z = (z.1, tagRequest z.1 h0 p0) := by rw [← hz3]
    rw [← this]; exact hz
  · rw [hstrip, ← hz2.1, hid]

/-- an honest history: two requestors (the second forges `cid=0`), the replier echoes each request's headers -/
def exHonest : List REvent :=
  [.enqueue (.client { id := 0 } [.item (.msg none 1), .pending]),
   .enqueue (.client { id := 0 } [.item (.msg (some [("cid", "0"), ("req_id", "7")]) 2), .pending]),
   .enqueue (.server { id := 0 } [.pending, .item (.msg (some [("cid", "1"), ("req_id", "7")]) 20), .item (.msg (some [("cid", "0")]) 10), .pending]),
   .poll 60 [] [], .poll 60 [] [], .poll 60 [] []]

example : (rrExec exHonest).handed.map (·.2) = [.msg (some [("cid", "0")]) 1, .msg (some [("cid", "1"), ("req_id", "7")]) 2] ∧
    (rrExec exHonest).repTaken = [.msg (some [("cid", "1"), ("req_id", "7")]) 20, .msg (some [("cid", "0")]) 10] ∧
    (rrExec exHonest).sinks.map (·.got) = [[.msg none 10], [.msg (some [("req_id", "7")]) 20]] := by decide +kernel

/-! Non-vacuity: the schedule on which the unrepaired router lost a reply — requestor sink not ready once,
    two replies waiting — now delivers both, in order, tag stripped. -/
def exRR : List REvent :=
  [.enqueue (.client { id := 0, readyQ := [.pending] } [.item (.msg none 1), .pending]),
   .enqueue (.server { id := 0 } [.item (.msg (some [("cid", "0")]) 2), .item (.msg (some [("cid", "0"), ("x", "y")]) 3), .pending]),
   .poll 50 [] [], .poll 50 [] [], .poll 50 [] []]

example : ((rrExec exRR).sinks.map (·.got)) = [[.msg none 2, .msg (some [("x", "y")]) 3]] ∧
    (rrExec exRR).handed = [(0, .msg (some [("cid", "0")]) 1)] := by decide +kernel

end Selium.Route

/-! ## Every request/reply topic of a running server (`Server/System.lean`) -/
namespace Selium.Server
open Selium.Route Selium.Sink

/-- Inside any history of the whole server (streams opened under any names in any roles, any topic polled, shutdown)
    the request/reply router of topic `n` is the single-router model run on the events addressed to `n`, so its
    routing theorems hold there: no reply taken from `n`'s replier is lost, and each requestor's sink was handed
    exactly the replies routed to its id, in order. -/
theorem c02_every_topic_of_the_server (history : List SEvent) (n : Name) :
    ((sysExec history).rr n).routed.map (·.1) ++ ((sysExec history).rr n).bufRep.toList = ((sysExec history).rr n).repTaken ∧
    ∀ k ∈ ((sysExec history).rr n).sinks, k.got = ((sysExec history).rr n).routed.filterMap (deliveredTo k.id) := by
  rw [sys_rr_is_router]; exact c02_replies_none_lost_each_to_its_requestor _

/-- a reply on topic `n` reaches nobody on another topic: `n`'s requestors and repliers, and everything they are
    handed, are untouched by the events of every other name -/
theorem c02_no_other_topic_interferes (history : List SEvent) (n : Name) :
    (sysExec history).rr n = (sysExec (history.filter (mentions n))).rr n :=
  (sys_topic_independent n history).2.2

end Selium.Server

#print axioms Selium.Route.reqInv_init
#print axioms Selium.Route.repInv_init
#print axioms Selium.Route.rrExec_inv
#print axioms Selium.Route.c02_requests_at_most_once_in_order
#print axioms Selium.Route.c02_origin_tag
#print axioms Selium.Route.c02_exactly_once_while_bound
#print axioms Selium.Route.c02_replies_none_lost_each_to_its_requestor
#print axioms Selium.Route.c02_reply_delivery
#print axioms Selium.Route.c02_bad_tag_discarded
#print axioms Selium.Route.c02_routed_wf
#print axioms Selium.Route.c02_honest_replies_reach_the_requestor_they_answer
#print axioms Selium.Server.c02_every_topic_of_the_server
#print axioms Selium.Server.c02_no_other_topic_interferes
