/-
C06 / C05 for the batch format, stated about the code itself: `Gen/BatchFn.lean` is printed by the translator from
`protocol/src/utils.rs` on every run (`read_u64`, `decode_message_batch` and its loop). The bridge is
`Lemmas/BatchGen.lean` (generated definitions = hand-written `Wire.decodeBatch`, for every input, up to error text).

Property theorems only.
-/
import SeliumModel.Lemmas.BatchGen
import SeliumModel.Props.C05
import SeliumModel.Props.C06

namespace Selium.Wire
open Selium Selium.Gen

/-- what the translated batch decoder returns (without what it leaves of its input) -/
def genDecodeBatch (b : Bytes) : Rs.Out (List Bytes) := Rs.Out.value (BatchFn.decode_message_batch b)

/-- The translated batch decoder is the model's, for every input. -/
theorem c06_generated_batch_decoder_is_the_model (b : Bytes) :
    Rs.Out.shape (genDecodeBatch b) = Rs.Out.shape (toOut (decodeBatch b)) := gen_decode_batch_eq b

/-- No input makes the translated batch decoder panic: neither `get_u64` nor `split_to` is ever reached with too few
    bytes (each is a `panic` outcome of the generated definition), whatever count and lengths the input declares. -/
theorem c06_generated_batch_decoder_never_panics (b : Bytes) : Rs.Out.shape (genDecodeBatch b) ≠ .panic "" := by
  rw [c06_generated_batch_decoder_is_the_model]
  cases hd : decodeBatch b with
  | ok ms => simp [toOut, Rs.Out.shape]
  | err e => simp [toOut, Rs.Out.shape]
  | panic s => exact absurd hd (Selium.Client.c06_batch_total b s)

/-- What the translated batch decoder returns was in its input: the messages and their eight-byte length markers fit
    into the bytes that follow the count, whatever the count and the lengths claim. -/
theorem c06_generated_batch_decoder_bounded (b : Bytes) (ms : List Bytes)
    (h : Rs.Out.shape (genDecodeBatch b) = .ok ms) : (ms.map List.length).sum + 8 * ms.length + 8 ≤ b.length := by
  rw [c06_generated_batch_decoder_is_the_model] at h
  unfold decodeBatch at h
  by_cases h8 : b.length < 8
  · simp [h8, toOut, Rs.Out.shape] at h
  · simp only [h8, if_false] at h
    cases hn : decodeBatchN (beNat (b.take 8)) (b.drop 8) with
    | ok ms' =>
      rw [hn] at h
      simp only [toOut, Rs.Out.shape, Rs.Out.ok.injEq] at h
      subst h
      have := Selium.Client.c06_batch_bounded _ _ _ hn
      simp only [List.length_drop] at this
      omega
    | err e => rw [hn] at h; simp [toOut, Rs.Out.shape] at h
    | panic s => rw [hn] at h; simp [toOut, Rs.Out.shape] at h

/-- Batch round trip through the translated decoder: it returns exactly the messages that were batched. -/
theorem c05_generated_batch_roundtrip (ms : List Bytes) (hn : ms.length < 256 ^ 8) (hm : ∀ m ∈ ms, m.length < 256 ^ 8) :
    Rs.Out.shape (genDecodeBatch (encodeBatch ms)) = .ok ms := by
  rw [c06_generated_batch_decoder_is_the_model, c05_batch_roundtrip ms hn hm]
  rfl

/-! Non-vacuity: the generated definitions compute (a batch of two messages; a count that promises more than is there;
    a length that promises more than is there). -/
set_option maxRecDepth 8192 in
example : Rs.Out.shape (genDecodeBatch [0,0,0,0,0,0,0,2, 0,0,0,0,0,0,0,1, 7, 0,0,0,0,0,0,0,0]) = .ok [[7], []] := by rfl
set_option maxRecDepth 8192 in
example : Rs.Out.shape (genDecodeBatch [0,0,0,0,0,0,0,3, 0,0,0,0,0,0,0,0]) = .err "" := by rfl
set_option maxRecDepth 8192 in
example : Rs.Out.shape (genDecodeBatch [0,0,0,0,0,0,0,1, 0xff,0xff,0xff,0xff,0xff,0xff,0xff,0xff, 1]) = .err "" := by rfl

end Selium.Wire

#print axioms Selium.Wire.c06_generated_batch_decoder_is_the_model
#print axioms Selium.Wire.c06_generated_batch_decoder_never_panics
#print axioms Selium.Wire.c06_generated_batch_decoder_bounded
#print axioms Selium.Wire.c05_generated_batch_roundtrip
