/-
C03, the batching decision stated about the code itself: `Gen/MsgBatchFn.lean` is printed by the translator from
`client/src/batching/message_batch.rs` (+ `batch_config.rs`) on every run (`MessageBatch::{exceeded_interval,
exceeded_batch_size, is_ready}`; `Instant`s and `Duration`s are nanoseconds). The publisher model
(`Client/PubSubClient.lean`) takes "the interval has elapsed" as an oracle and compares the batch with its size itself;
here both are the generated predicates.

Property theorems only.
-/
import SeliumModel.Gen.MsgBatchFn
import SeliumModel.Client.PubSubClient

namespace Selium.Client
open Selium Selium.Wire Selium.Gen

/-- The translated `is_ready` is "the interval has elapsed since the last run, or the batch holds at least `batch_size`
    messages" — for every batch, size, interval and pair of instants (a `now` before `last_run` counts as no time
    elapsed: `saturating_duration_since`). -/
theorem c03_generated_is_ready_iff (batch : List Bytes) (size interval last now : Nat) :
    MsgBatchFn.is_ready batch size interval last now = true ↔ interval ≤ now - last ∨ size ≤ batch.length := by
  simp [MsgBatchFn.is_ready, MsgBatchFn.exceeded_interval, MsgBatchFn.exceeded_batch_size]

/-- The publisher model frames its batch in `poll_ready` exactly when the translated `is_ready` says so, with the model's
    clock oracle being the translated `exceeded_interval`: for every publisher state with batching on, every compressor,
    limit, interval and pair of instants. -/
theorem c03_generated_readiness_is_the_models (z : Compressor) (lim : Nat) (p : Pub) (ms : List Bytes)
    (hb : p.batch = some ms) (interval last now : Nat) :
    p.pollReady z lim (MsgBatchFn.exceeded_interval interval last now)
      = if MsgBatchFn.is_ready ms p.size interval last now then p.sendBatch z lim ms else .ok p := by
  unfold Pub.pollReady
  rw [hb]
  simp only [MsgBatchFn.is_ready, MsgBatchFn.exceeded_interval, MsgBatchFn.exceeded_batch_size]
  by_cases h1 : interval ≤ now - last <;> by_cases h2 : p.size ≤ ms.length <;> simp [h1, h2]

/-- A batch below its size whose interval has not elapsed is left alone (nothing is framed early), and a batch that has
    reached its size is framed at the next `poll_ready` whatever the clock says. -/
theorem c03_generated_full_batch_is_framed (batch : List Bytes) (size interval last now : Nat) (h : size ≤ batch.length) :
    MsgBatchFn.is_ready batch size interval last now = true :=
  (c03_generated_is_ready_iff batch size interval last now).mpr (Or.inr h)

/-! Non-vacuity. -/
example : MsgBatchFn.is_ready [[1], [2], [3]] 3 1000000 0 5 = true := by decide
example : MsgBatchFn.is_ready [[1], [2]] 3 1000000 0 5 = false := by decide
example : MsgBatchFn.is_ready [] 3 1000000 0 1000000 = true := by decide

end Selium.Client

#print axioms Selium.Client.c03_generated_is_ready_iff
#print axioms Selium.Client.c03_generated_readiness_is_the_models
#print axioms Selium.Client.c03_generated_full_batch_is_framed
