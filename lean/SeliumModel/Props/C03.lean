/-
C03 — End-to-end pub/sub fidelity for every client configuration.

Model: `Client/PubSubClient.lean` (publisher `Sink` impl with batching, `finish`, subscriber `poll_next`),
`Client/Codecs.lean`, `Wire/Batch.lean`. The codec is any lossless codec (the three standard ones are, C14), the
compressor any compressor that inverts itself (hypothesis, tested per algorithm in C14), batching is off or on
with ANY size (0 included) and ANY interval/clock (the `elapsed` oracle of each `poll_ready` is arbitrary).
The server forwards the publisher's frames to the subscriber unchanged and in order (C01), so the subscriber's
input is the publisher's `wire`.
-/
import SeliumModel.Props.C14
import SeliumModel.Client.PubSubClient
import SeliumModel.Lemmas.Subscriber
import SeliumModel.Props.C01

namespace Selium.Client
open Selium Selium.Wire

variable {α : Type}

/-- message sizes representable in the batch format (`usize`) -/
def Fits (ms : List Bytes) : Prop := ms.length < 256 ^ 8 ∧ ∀ m ∈ ms, m.length < 256 ^ 8

theorem subscriberOutputs_append (c : Codec α) (z : Compressor) (xs ys : List WFrame)
    (h : ∀ f ∈ xs, f ≠ WFrame.other) :
    subscriberOutputs c z (xs ++ ys) = subscriberOutputs c z xs ++ subscriberOutputs c z ys := by
  induction xs with
  | nil => rfl
  | cons f fs ih =>
    have hf := h f (by simp)
    have := ih (fun g hg => h g (by simp [hg]))
    cases f with
    | message b => simp [subscriberOutputs, this]
    | batch b => simp [subscriberOutputs, this]
    | other => exact absurd rfl hf

/-- the publisher's state accounts for exactly the items accepted so far: what a subscriber would yield for
    `wire ++ framed`, followed by the items still sitting in the batch, is the accepted items in order -/
structure PubInv (c : Codec α) (z : Compressor) (p : Pub) (sent : List α) : Prop where
  noOther : ∀ f ∈ p.wire ++ p.framed, f ≠ WFrame.other
  acc : ∃ pend : List α,
    (match p.batch with
     | some ms => mapRes c.encode pend = .ok ms
     | none => pend = []) ∧
    subscriberOutputs c z (p.wire ++ p.framed) ++ pend.map Res.ok = sent.map Res.ok

theorem mapRes_append_ok (f : α → Res Bytes) (xs : List α) (a : α) (ms : List Bytes) (b : Bytes)
    (h1 : mapRes f xs = .ok ms) (h2 : f a = .ok b) : mapRes f (xs ++ [a]) = .ok (ms ++ [b]) := by
  induction xs generalizing ms with
  | nil => simp [mapRes] at h1; subst h1; simp [mapRes, h2]
  | cons x xs ih =>
    simp only [mapRes] at h1
    cases hx : f x with
    | ok y =>
      simp only [hx] at h1
      cases hr : mapRes f xs with
      | ok ys =>
        simp only [hr, Res.ok.injEq] at h1
        subst h1
        simp [mapRes, hx, ih ys hr]
      | err e => simp [hr] at h1
      | panic s => simp [hr] at h1
    | err e => simp [hx] at h1
    | panic s => simp [hx] at h1

theorem mapRes_decode_of_encode (c : Codec α) (good : α → Prop) (hc : c.Lossless good) (xs : List α)
    (hg : ∀ a ∈ xs, good a) (ms : List Bytes) (h : mapRes c.encode xs = .ok ms) :
    ms.map c.decode = xs.map Res.ok ∧ ms.length = xs.length := by
  induction xs generalizing ms with
  | nil => simp [mapRes] at h; subst h; simp
  | cons x xs ih =>
    obtain ⟨b, he, hd⟩ := hc x (hg x (by simp))
    simp only [mapRes, he] at h
    cases hr : mapRes c.encode xs with
    | ok ys =>
      simp only [hr, Res.ok.injEq] at h
      subst h
      have := ih (fun a ha => hg a (by simp [ha])) ys hr
      simp [hd, this.1, this.2]
    | err e => simp [hr] at h
    | panic s => simp [hr] at h

/-- framing the current batch keeps the accounting (the members come out of the subscriber oldest first) — whenever the
    framed writer accepts the frame -/
theorem sendBatch_inv (c : Codec α) (good : α → Prop) (hc : c.Lossless good) (z : Compressor) (hz : z.Lossless) (lim : Nat)
    (p : Pub) (sent : List α) (ms : List Bytes) (hb : p.batch = some ms) (h : PubInv c z p sent)
    (hgood : ∀ a ∈ sent, good a) (hfit : ∀ pend : List α, mapRes c.encode pend = .ok ms → Fits ms)
    (p' : Pub) (hok : p.sendBatch z lim ms = .ok p') :
    PubInv c z p' sent ∧ p'.batch = some [] ∧ p'.size = p.size := by
  obtain ⟨w, hcz, hdz⟩ := hz (encodeBatch ms)
  simp only [Pub.sendBatch, hcz] at hok
  split at hok
  case isFalse => simp at hok
  simp only [Res.ok.injEq] at hok
  subst hok
  refine ⟨?_, rfl, rfl⟩
  obtain ⟨pend, hp, hacc⟩ := h.acc
  simp only [hb] at hp
  have hfits := hfit pend hp
  have hrt := c05_batch_roundtrip_aux ms hfits.1 hfits.2
  -- the pending items are a suffix of `sent`, hence good
  have hpg : ∀ a ∈ pend, good a := by
    intro a ha
    have : Res.ok a ∈ sent.map Res.ok := by rw [← hacc]; simp [ha]
    simp only [List.mem_map, Res.ok.injEq] at this
    obtain ⟨a', ha', rfl⟩ := this
    exact hgood a' ha'
  have hdec := (mapRes_decode_of_encode c good hc pend hpg ms hp).1
  constructor
  · intro f hf
    simp only [List.mem_append, List.mem_singleton] at hf
    rcases hf with hf | hf | hf
    · exact h.noOther f (by simp [hf])
    · exact h.noOther f (by simp [hf])
    · rw [hf]; simp
  · refine ⟨[], rfl, ?_⟩
    simp only [List.map_nil, List.append_nil]
    rw [← List.append_assoc, subscriberOutputs_append c z _ _ h.noOther]
    simp only [subscriberOutputs, hdz, hrt, List.append_nil]
    rw [hdec]; exact hacc

theorem flush_inv (c : Codec α) (z : Compressor) (p : Pub) (sent : List α) (h : PubInv c z p sent) :
    PubInv c z p.flush sent := by
  constructor
  · simpa [Pub.flush] using h.noOther
  · simpa [Pub.flush] using h.acc

/-- one `send(item)` that returns `Ok` keeps the accounting, whatever the clock says -/
theorem send_inv (c : Codec α) (good : α → Prop) (hc : c.Lossless good) (z : Compressor) (hz : z.Lossless) (lim : Nat)
    (p : Pub) (sent : List α) (elapsed : Bool) (a : α) (ha : good a) (h : PubInv c z p sent)
    (hgood : ∀ x ∈ sent, good x) (hfit : ∀ (pend : List α) ms, mapRes c.encode pend = .ok ms → Fits ms)
    (p' : Pub) (hok : p.send c z lim elapsed a = .ok p') :
    PubInv c z p' (sent ++ [a]) ∧ p'.size = p.size ∧ (p'.batch.isSome = p.batch.isSome) := by
  obtain ⟨b, he, hd⟩ := hc a ha
  unfold Pub.send at hok
  -- poll_ready
  cases hr1 : p.pollReady z lim elapsed with
  | err e => simp [hr1] at hok
  | panic e => simp [hr1] at hok
  | ok p1 =>
    simp only [hr1] at hok
    have hready : PubInv c z p1 sent ∧ p1.size = p.size ∧ p1.batch.isSome = p.batch.isSome := by
      unfold Pub.pollReady at hr1
      cases hb : p.batch with
      | none => simp only [hb, Res.ok.injEq] at hr1; subst hr1; exact ⟨h, rfl, by simp [hb]⟩
      | some ms =>
        simp only [hb] at hr1
        split at hr1
        · obtain ⟨h2, h3, h4⟩ := sendBatch_inv c good hc z hz lim p sent ms hb h hgood (fun pend hp => hfit pend ms hp) p1 hr1
          exact ⟨h2, h4, by simp [h3]⟩
        · simp only [Res.ok.injEq] at hr1; subst hr1; exact ⟨h, rfl, by simp [hb]⟩
    obtain ⟨hi1, hs1, hb1⟩ := hready
    -- start_send
    cases hr2 : p1.startSend c z lim a with
    | err e => simp [hr2] at hok
    | panic e => simp [hr2] at hok
    | ok p2 =>
      simp only [hr2, Res.ok.injEq] at hok
      subst hok
      have hsend : PubInv c z p2 (sent ++ [a]) ∧ p2.size = p1.size ∧ p2.batch.isSome = p1.batch.isSome := by
        unfold Pub.startSend at hr2
        rw [he] at hr2
        obtain ⟨pend, hp, hacc⟩ := hi1.acc
        cases hb : p1.batch with
        | some ms =>
          simp only [hb, Res.ok.injEq] at hr2 hp
          subst hr2
          refine ⟨⟨hi1.noOther, pend ++ [a], ?_, ?_⟩, rfl, by simp [hb]⟩
          · exact mapRes_append_ok c.encode pend a ms b hp he
          · simp only [List.map_append, List.map_cons, List.map_nil, ← List.append_assoc, hacc]
        | none =>
          simp only [hb] at hr2 hp
          subst hp
          obtain ⟨w, hcz, hdz⟩ := hz b
          simp only [hcz] at hr2
          split at hr2
          case isFalse => simp at hr2
          simp only [Res.ok.injEq] at hr2
          subst hr2
          refine ⟨⟨?_, [], by simp [hb], ?_⟩, rfl, by simp [hb]⟩
          · intro f hf
            simp only [List.mem_append, List.mem_singleton] at hf
            rcases hf with hf | hf | hf
            · exact hi1.noOther f (by simp [hf])
            · exact hi1.noOther f (by simp [hf])
            · rw [hf]; simp
          · simp only [List.map_nil, List.append_nil] at hacc ⊢
            rw [← List.append_assoc, subscriberOutputs_append c z _ _ hi1.noOther]
            simp [subscriberOutputs, hdz, hd, hacc]
      obtain ⟨hi2, hs2, hb2⟩ := hsend
      exact ⟨flush_inv c z p2 _ hi2, by simp [Pub.flush, hs2, hs1], by simp [Pub.flush, hb2, hb1]⟩

/-- one `feed(item)` (accepted, not flushed) that returns `Ok` keeps the accounting -/
theorem feed_inv (c : Codec α) (good : α → Prop) (hc : c.Lossless good) (z : Compressor) (hz : z.Lossless) (lim : Nat)
    (p : Pub) (sent : List α) (elapsed : Bool) (a : α) (ha : good a) (h : PubInv c z p sent)
    (hgood : ∀ x ∈ sent, good x) (hfit : ∀ (pend : List α) ms, mapRes c.encode pend = .ok ms → Fits ms)
    (p' : Pub) (hok : p.feed c z lim elapsed a = .ok p') :
    PubInv c z p' (sent ++ [a]) ∧ p'.size = p.size ∧ (p'.batch.isSome = p.batch.isSome) := by
  obtain ⟨b, he, hd⟩ := hc a ha
  unfold Pub.feed at hok
  -- poll_ready
  cases hr1 : p.pollReady z lim elapsed with
  | err e => simp [hr1] at hok
  | panic e => simp [hr1] at hok
  | ok p1 =>
    simp only [hr1] at hok
    have hready : PubInv c z p1 sent ∧ p1.size = p.size ∧ p1.batch.isSome = p.batch.isSome := by
      unfold Pub.pollReady at hr1
      cases hb : p.batch with
      | none => simp only [hb, Res.ok.injEq] at hr1; subst hr1; exact ⟨h, rfl, by simp [hb]⟩
      | some ms =>
        simp only [hb] at hr1
        split at hr1
        · obtain ⟨h2, h3, h4⟩ := sendBatch_inv c good hc z hz lim p sent ms hb h hgood (fun pend hp => hfit pend ms hp) p1 hr1
          exact ⟨h2, h4, by simp [h3]⟩
        · simp only [Res.ok.injEq] at hr1; subst hr1; exact ⟨h, rfl, by simp [hb]⟩
    obtain ⟨hi1, hs1, hb1⟩ := hready
    -- start_send
    cases hr2 : p1.startSend c z lim a with
    | err e => rw [hr2] at hok; cases hok
    | panic e => rw [hr2] at hok; cases hok
    | ok p2 =>
      have hp2 : p2 = p' := by rw [hr2] at hok; exact Res.ok.inj hok
      subst hp2
      have hsend : PubInv c z p2 (sent ++ [a]) ∧ p2.size = p1.size ∧ p2.batch.isSome = p1.batch.isSome := by
        unfold Pub.startSend at hr2
        rw [he] at hr2
        obtain ⟨pend, hp, hacc⟩ := hi1.acc
        cases hb : p1.batch with
        | some ms =>
          simp only [hb, Res.ok.injEq] at hr2 hp
          subst hr2
          refine ⟨⟨hi1.noOther, pend ++ [a], ?_, ?_⟩, rfl, by simp [hb]⟩
          · exact mapRes_append_ok c.encode pend a ms b hp he
          · simp only [List.map_append, List.map_cons, List.map_nil, ← List.append_assoc, hacc]
        | none =>
          simp only [hb] at hr2 hp
          subst hp
          obtain ⟨w, hcz, hdz⟩ := hz b
          simp only [hcz] at hr2
          split at hr2
          case isFalse => simp at hr2
          simp only [Res.ok.injEq] at hr2
          subst hr2
          refine ⟨⟨?_, [], by simp [hb], ?_⟩, rfl, by simp [hb]⟩
          · intro f hf
            simp only [List.mem_append, List.mem_singleton] at hf
            rcases hf with hf | hf | hf
            · exact hi1.noOther f (by simp [hf])
            · exact hi1.noOther f (by simp [hf])
            · rw [hf]; simp
          · simp only [List.map_nil, List.append_nil] at hacc ⊢
            rw [← List.append_assoc, subscriberOutputs_append c z _ _ hi1.noOther]
            simp [subscriberOutputs, hdz, hd, hacc]
      obtain ⟨hi2, hs2, hb2⟩ := hsend
      exact ⟨hi2, by rw [hs2, hs1], by rw [hb2, hb1]⟩

/-- For every configuration — lossless codec, self-inverting compressor (or none), batching off or on with
    any size and any clock, any frame limit — whenever every `send` and `finish()` returned `Ok`, the subscriber
    yields exactly the items accepted, in the order sent, each once, with equal values; and `finish()` has handed
    everything, including a partially filled batch, to the transport (nothing is left in the batch or the framed
    writer). "Partial": the compressor's round trip is a hypothesis. -/
theorem c03_fidelity_partial (c : Codec α) (good : α → Prop) (hc : c.Lossless good) (z : Compressor) (hz : z.Lossless)
    (lim : Nat) (batchSize : Option Nat) (items : List (Bool × α)) (hgood : ∀ x ∈ items, good x.2)
    (hfit : ∀ (pend : List α) ms, mapRes c.encode pend = .ok ms → Fits ms)
    (p pf : Pub)
    (hsend : ({ batch := batchSize.map (fun _ => []), size := batchSize.getD 0 } : Pub).sendAll c z lim items = .ok p)
    (hfinish : p.finish z lim = .ok pf) :
    subscriberOutputs c z pf.wire = (items.map (·.2)).map Res.ok ∧
      pf.framed = [] ∧ (pf.batch = none ∨ pf.batch = some []) := by
  -- generalise over the starting state
  have hall : ∀ (its : List (Bool × α)) (p0 : Pub) (sent : List α), PubInv c z p0 sent → (∀ x ∈ sent, good x) →
      (∀ x ∈ its, good x.2) → ∀ p', p0.sendAll c z lim its = .ok p' →
      PubInv c z p' (sent ++ its.map (·.2)) ∧ (p'.batch.isSome = p0.batch.isSome) := by
    intro its
    induction its with
    | nil => intro p0 sent h _ _ p' hp'; simp only [Pub.sendAll, Res.ok.injEq] at hp'; subst hp'; exact ⟨by simpa using h, rfl⟩
    | cons x xs ih =>
      intro p0 sent h hs hx p' hp'
      cases x with
      | mk e a =>
        simp only [Pub.sendAll] at hp'
        cases h1 : p0.send c z lim e a with
        | err er => simp [h1] at hp'
        | panic er => simp [h1] at hp'
        | ok p1 =>
          simp only [h1] at hp'
          obtain ⟨hi1, _, hb1⟩ := send_inv c good hc z hz lim p0 sent e a (hx (e, a) (by simp)) h hs hfit p1 h1
          have hs' : ∀ y ∈ sent ++ [a], good y := by
            intro y hy
            simp only [List.mem_append, List.mem_singleton] at hy
            rcases hy with hy | rfl
            · exact hs y hy
            · exact hx (e, y) (by simp)
          obtain ⟨hi2, hb2⟩ := ih p1 (sent ++ [a]) hi1 hs' (fun y hy => hx y (by simp [hy])) p' hp'
          exact ⟨by simpa [List.append_assoc] using hi2, by rw [hb2, hb1]⟩
  have h0 : PubInv c z ({ batch := batchSize.map (fun _ => []), size := batchSize.getD 0 } : Pub) [] := by
    constructor
    · intro f hf; simp at hf
    · cases batchSize with
      | none => exact ⟨[], rfl, rfl⟩
      | some n => exact ⟨[], rfl, rfl⟩
  obtain ⟨hinv, _⟩ := hall items _ [] h0 (by intro x hx; simp at hx) hgood p hsend
  simp only [List.nil_append] at hinv
  have hsentgood : ∀ x ∈ items.map (·.2), good x := by
    intro x hx
    simp only [List.mem_map] at hx
    obtain ⟨y, hy, rfl⟩ := hx
    exact hgood y hy
  -- finish
  have hfin : PubInv c z pf (items.map (·.2)) ∧ pf.framed = [] ∧ (pf.batch = none ∨ pf.batch = some []) := by
    unfold Pub.finish at hfinish
    cases hb : p.batch with
    | none => simp only [hb, Res.ok.injEq] at hfinish; subst hfinish; exact ⟨flush_inv c z p _ hinv, rfl, Or.inl (by simp [Pub.flush, hb])⟩
    | some ms =>
      cases ms with
      | nil => simp only [hb, Res.ok.injEq] at hfinish; subst hfinish; exact ⟨flush_inv c z p _ hinv, rfl, Or.inr (by simp [Pub.flush, hb])⟩
      | cons m ms =>
        simp only [hb] at hfinish
        cases h1 : p.sendBatch z lim (m :: ms) with
        | err er => simp [h1] at hfinish
        | panic er => simp [h1] at hfinish
        | ok p' =>
          simp only [h1, Res.ok.injEq] at hfinish
          subst hfinish
          obtain ⟨h2, h3, _⟩ := sendBatch_inv c good hc z hz lim p _ (m :: ms) hb hinv hsentgood (fun pend hp => hfit pend _ hp) p' h1
          exact ⟨flush_inv c z p' _ h2, rfl, Or.inr (by simp [Pub.flush, h3])⟩
  obtain ⟨hf2, hf3, hf4⟩ := hfin
  refine ⟨?_, hf3, hf4⟩
  obtain ⟨pend, hpe, hacc⟩ := hf2.acc
  have hpend : pend = [] := by
    rcases hf4 with h | h
    · simpa [h] using hpe
    · simp only [h] at hpe
      cases pend with
      | nil => rfl
      | cons x xs =>
        simp only [mapRes] at hpe
        cases hx : c.encode x with
        | ok y =>
          simp only [hx] at hpe
          cases hr : mapRes c.encode xs <;> simp [hr] at hpe
        | err e => simp [hx] at hpe
        | panic s => simp [hx] at hpe
  rw [hpend, hf3] at hacc
  simpa using hacc

/-- `finish()` on a publisher whose accounting is intact: whatever is still batched or sitting in the framed writer
    is handed to the transport; the subscriber's outputs are exactly the accepted items -/
theorem finish_spec (c : Codec α) (good : α → Prop) (hc : c.Lossless good) (z : Compressor) (hz : z.Lossless)
    (lim : Nat) (sent : List α) (hsentgood : ∀ x ∈ sent, good x)
    (hfit : ∀ (pend : List α) ms, mapRes c.encode pend = .ok ms → Fits ms)
    (p pf : Pub) (hinv : PubInv c z p sent) (hfinish : p.finish z lim = .ok pf) :
    subscriberOutputs c z pf.wire = sent.map Res.ok ∧
      pf.framed = [] ∧ (pf.batch = none ∨ pf.batch = some []) := by
  -- finish
  have hfin : PubInv c z pf (sent) ∧ pf.framed = [] ∧ (pf.batch = none ∨ pf.batch = some []) := by
    unfold Pub.finish at hfinish
    cases hb : p.batch with
    | none => simp only [hb, Res.ok.injEq] at hfinish; subst hfinish; exact ⟨flush_inv c z p _ hinv, rfl, Or.inl (by simp [Pub.flush, hb])⟩
    | some ms =>
      cases ms with
      | nil => simp only [hb, Res.ok.injEq] at hfinish; subst hfinish; exact ⟨flush_inv c z p _ hinv, rfl, Or.inr (by simp [Pub.flush, hb])⟩
      | cons m ms =>
        simp only [hb] at hfinish
        cases h1 : p.sendBatch z lim (m :: ms) with
        | err er => simp [h1] at hfinish
        | panic er => simp [h1] at hfinish
        | ok p' =>
          simp only [h1, Res.ok.injEq] at hfinish
          subst hfinish
          obtain ⟨h2, h3, _⟩ := sendBatch_inv c good hc z hz lim p _ (m :: ms) hb hinv hsentgood (fun pend hp => hfit pend _ hp) p' h1
          exact ⟨flush_inv c z p' _ h2, rfl, Or.inr (by simp [Pub.flush, h3])⟩
  obtain ⟨hf2, hf3, hf4⟩ := hfin
  refine ⟨?_, hf3, hf4⟩
  obtain ⟨pend, hpe, hacc⟩ := hf2.acc
  have hpend : pend = [] := by
    rcases hf4 with h | h
    · simpa [h] using hpe
    · simp only [h] at hpe
      cases pend with
      | nil => rfl
      | cons x xs =>
        simp only [mapRes] at hpe
        cases hx : c.encode x with
        | ok y =>
          simp only [hx] at hpe
          cases hr : mapRes c.encode xs <;> simp [hr] at hpe
        | err e => simp [hx] at hpe
        | panic s => simp [hx] at hpe
  rw [hpend, hf3] at hacc
  simpa using hacc

/-- a bare `poll_ready` that returns `Ok` keeps the accounting (it may frame the batch) -/
theorem pollReady_inv (c : Codec α) (good : α → Prop) (hc : c.Lossless good) (z : Compressor) (hz : z.Lossless) (lim : Nat)
    (p : Pub) (sent : List α) (elapsed : Bool) (h : PubInv c z p sent)
    (hgood : ∀ x ∈ sent, good x) (hfit : ∀ (pend : List α) ms, mapRes c.encode pend = .ok ms → Fits ms)
    (p1 : Pub) (hr1 : p.pollReady z lim elapsed = .ok p1) : PubInv c z p1 sent := by
  unfold Pub.pollReady at hr1
  cases hb : p.batch with
  | none => simp only [hb, Res.ok.injEq] at hr1; subst hr1; exact h
  | some ms =>
    simp only [hb] at hr1
    split at hr1
    · exact (sendBatch_inv c good hc z hz lim p sent ms hb h hgood (fun pend hp => hfit pend ms hp) p1 hr1).1
    · simp only [Res.ok.injEq] at hr1; subst hr1; exact h

/-- one step of any of the ways of driving the sink keeps the accounting -/
theorem apply_inv (c : Codec α) (good : α → Prop) (hc : c.Lossless good) (z : Compressor) (hz : z.Lossless) (lim : Nat)
    (p : Pub) (sent : List α) (op : PubOp α) (hop : ∀ a ∈ op.item, good a) (h : PubInv c z p sent)
    (hgood : ∀ x ∈ sent, good x) (hfit : ∀ (pend : List α) ms, mapRes c.encode pend = .ok ms → Fits ms)
    (p' : Pub) (hok : p.apply c z lim op = .ok p') : PubInv c z p' (sent ++ op.item) := by
  cases op with
  | send e a => exact (send_inv c good hc z hz lim p sent e a (hop a (by simp [PubOp.item])) h hgood hfit p' hok).1
  | feed e a => exact (feed_inv c good hc z hz lim p sent e a (hop a (by simp [PubOp.item])) h hgood hfit p' hok).1
  | flush =>
    simp only [Pub.apply, Res.ok.injEq] at hok
    subst hok
    simpa [PubOp.item] using flush_inv c z p sent h
  | ready e =>
    simp only [Pub.apply] at hok
    simpa [PubOp.item] using pollReady_inv c good hc z hz lim p sent e h hgood hfit p' hok

/-- C03 for every way of driving the publisher's `Sink`: any mix of `send(item)` (accepted and flushed),
    `feed(item)` (accepted, nothing flushed), `flush()` and bare `poll_ready` calls, under any clock, with batching on or off — whenever every
    operation and the final `finish()` returned `Ok`, the subscriber yields exactly the accepted items in order, each
    once, and `finish()` has handed everything to the transport: what was fed but never flushed, a batch that filled up
    exactly on the last `poll_ready`, a partial batch. -/
theorem c03_fidelity_any_driving_partial (c : Codec α) (good : α → Prop) (hc : c.Lossless good) (z : Compressor)
    (hz : z.Lossless) (lim : Nat) (batchSize : Option Nat) (ops : List (PubOp α))
    (hgood : ∀ op ∈ ops, ∀ a ∈ op.item, good a)
    (hfit : ∀ (pend : List α) ms, mapRes c.encode pend = .ok ms → Fits ms)
    (p pf : Pub)
    (hrun : ({ batch := batchSize.map (fun _ => []), size := batchSize.getD 0 } : Pub).applyAll c z lim ops = .ok p)
    (hfinish : p.finish z lim = .ok pf) :
    subscriberOutputs c z pf.wire = (ops.flatMap PubOp.item).map Res.ok ∧
      pf.framed = [] ∧ (pf.batch = none ∨ pf.batch = some []) := by
  have hall : ∀ (os : List (PubOp α)) (p0 : Pub) (sent : List α), PubInv c z p0 sent → (∀ x ∈ sent, good x) →
      (∀ op ∈ os, ∀ a ∈ op.item, good a) → ∀ p', p0.applyAll c z lim os = .ok p' →
      PubInv c z p' (sent ++ os.flatMap PubOp.item) ∧ (∀ x ∈ sent ++ os.flatMap PubOp.item, good x) := by
    intro os
    induction os with
    | nil =>
      intro p0 sent h hs _ p' hp'
      simp only [Pub.applyAll, Res.ok.injEq] at hp'; subst hp'
      exact ⟨by simpa using h, by simpa using hs⟩
    | cons op rest ih =>
      intro p0 sent h hs hx p' hp'
      simp only [Pub.applyAll] at hp'
      cases h1 : p0.apply c z lim op with
      | err er => simp [h1] at hp'
      | panic er => simp [h1] at hp'
      | ok p1 =>
        simp only [h1] at hp'
        have hi1 := apply_inv c good hc z hz lim p0 sent op (hx op (by simp)) h hs hfit p1 h1
        have hs' : ∀ y ∈ sent ++ op.item, good y := by
          intro y hy
          simp only [List.mem_append] at hy
          rcases hy with hy | hy
          · exact hs y hy
          · exact hx op (by simp) y hy
        obtain ⟨hi2, hg2⟩ := ih p1 (sent ++ op.item) hi1 hs' (fun o ho => hx o (by simp [ho])) p' hp'
        exact ⟨by simpa [List.append_assoc] using hi2, by simpa [List.append_assoc] using hg2⟩
  have h0 : PubInv c z ({ batch := batchSize.map (fun _ => []), size := batchSize.getD 0 } : Pub) [] := by
    constructor
    · intro f hf; simp at hf
    · cases batchSize with
      | none => exact ⟨[], rfl, rfl⟩
      | some n => exact ⟨[], rfl, rfl⟩
  obtain ⟨hinv, hg⟩ := hall ops _ [] h0 (by intro x hx; simp at hx) hgood p hrun
  simp only [List.nil_append] at hinv hg
  exact finish_spec c good hc z hz lim _ hg hfit p pf hinv hfinish

/-- what the unflushed hand-over looks like on a concrete publisher: three items fed, none flushed, batch size 3 filled
    exactly by the third; `finish()` hands all of them over -/
example :
    (match ({ batch := some [], size := 3 } : Pub).applyAll bytesCodec noCompression 1000
        [.feed false [65], .feed false [66], .feed false [67], .feed false [68]] with
     | .ok p => (p.wire.length, p.framed.length,
                 match p.finish noCompression 1000 with
                 | .ok pf => subscriberOutputs bytesCodec noCompression pf.wire
                 | _ => [.err "finish"])
     | _ => (0, 0, [])) = (0, 1, [.ok [65], .ok [66], .ok [67], .ok [68]]) := by decide +kernel

/-- `duplicate()`: whatever state the original is in — a partial batch collected, frames not yet flushed — the duplicate
    delivers exactly what is sent through *it*, each item once: nothing of the original's comes along (so nothing the
    original has accepted is delivered twice), and the original's own delivery is the theorem above, untouched. -/
theorem c03_duplicate_delivers_only_its_own_partial (c : Codec α) (good : α → Prop) (hc : c.Lossless good) (z : Compressor)
    (hz : z.Lossless) (lim : Nat) (orig : Pub) (ops : List (PubOp α))
    (hgood : ∀ op ∈ ops, ∀ a ∈ op.item, good a)
    (hfit : ∀ (pend : List α) ms, mapRes c.encode pend = .ok ms → Fits ms)
    (p pf : Pub)
    (hrun : orig.duplicate.applyAll c z lim ops = .ok p)
    (hfinish : p.finish z lim = .ok pf) :
    subscriberOutputs c z pf.wire = (ops.flatMap PubOp.item).map Res.ok :=
  (c03_fidelity_any_driving_partial c good hc z hz lim orig.config ops hgood hfit p pf hrun hfinish).1

/-- the duplicate of a publisher that holds a partial batch holds none -/
example : (({ batch := some [[1], [2]], size := 10, framed := [.message [3]] } : Pub).duplicate) = { batch := some [], size := 10 } := by
  decide

/-- A known finding, stated on the model (`known_findings.json`, C03-oversize-batch): when a batch outgrows the
    frame limit, `send_batch` has already drained it when the framed writer refuses the frame — the `send` that
    triggered the framing fails, and the members of the batch, whose `send`s had all returned `Ok`, are gone.
    Witness: frame limit 40, batch size 3, four 10-byte items, then `finish()`: all of the first three were
    accepted, the fourth `send` fails, and the subscriber is sent nothing at all. -/
theorem c03_refused_batch_loses_accepted_members :
    let items : List (Bool × Bytes) := (List.range 4).map fun i => (false, List.replicate 10 (UInt8.ofNat (65 + i)))
    let r := ({ batch := some [], size := 3 } : Pub).sendEach bytesCodec noCompression 40 items
    r.2 = [true, true, true, false] ∧
    (match r.1.finish noCompression 40 with
     | .ok pf => subscriberOutputs bytesCodec noCompression pf.wire
     | _ => [.err "finish"]) = [] := by decide +kernel

/-- The list-level subscriber of the fidelity theorem is what `Subscriber::poll_next` does: polled again and again
    (self-calling or looping, whatever the frames, batches — empty ones included — and errors), the state machine of
    `Client/Subscriber.lean` yields exactly `subscriberOutputs` of the frames it is fed, in order. -/
theorem c03_subscriber_state_machine_refines_outputs (c : Codec α) (z : Compressor) (r : Bool) (frames : List WFrame)
    (n : Nat) (hn : (subscriberOutputs c z frames).length < n) :
    (Sub.drain c z r n { batch := [], script := frames.map .frame }).1 = subscriberOutputs c z frames := by
  have := drain_spec c z r n [] frames (by simpa [Sub.pendingOutputs] using hn)
  simpa [Sub.pendingOutputs] using this

/-! ### through the router

The fidelity theorem above speaks about the publisher's `wire` and the subscriber's input being the same frames.
That is what the pub/sub router provides (C01); here the two are put together. -/
open Selium.Route Selium.Sink in
theorem fromPub_all (acc : List WFrame) (src : List Nat) (sid : Nat) (hl : src.length = acc.length)
    (h : ∀ i ∈ src, i = sid) : fromPub acc src sid = acc := by
  induction acc generalizing src with
  | nil => cases src <;> simp [fromPub]
  | cons x xs ih =>
    cases src with
    | nil => simp at hl
    | cons i is =>
      have hi : i = sid := h i (by simp)
      simp only [fromPub, hi, if_true]
      rw [ih is (by simpa using hl) (fun j hj => h j (by simp [hj]))]

/-- End to end, publisher → server → subscriber: the publisher's frames (`pf.wire`) enter the topic's router as the
    items of publisher stream `sid`; when that stream has ended and a poll has ended without being blocked by a
    subscriber, a subscriber that was registered before the first message and is still registered has been handed —
    and had flushed — frames from which `Subscriber::poll_next` yields exactly the items the publisher accepted, in
    order, each once. For every codec / compressor / batching configuration, every clock, every interleaving of
    ready / pending answers of the router's peers, every `StreamMap` order (the history is arbitrary). The only other
    assumption: no other publisher's message was accepted on this topic (`src` names only `sid`). -/
theorem c03_end_to_end_through_the_router_partial (c : Codec α) (good : α → Prop) (hc : c.Lossless good)
    (z : Compressor) (hz : z.Lossless) (lim : Nat) (batchSize : Option Nat) (items : List (Bool × α))
    (hgood : ∀ x ∈ items, good x.2) (hfit : ∀ (pend : List α) ms, mapRes c.encode pend = .ok ms → Fits ms)
    (p pf : Pub)
    (hsend : ({ batch := batchSize.map (fun _ => []), size := batchSize.getD 0 } : Pub).sendAll c z lim items = .ok p)
    (hfinish : p.finish z lim = .ok pf)
    -- the router's side: any history, then a poll that ends quiescent
    (history : List (Selium.Route.Event WFrame)) (fuel : Nat) (oracle : List Nat)
    (hq : (Selium.Route.pollFuel fuel oracle (Selium.Route.exec history)).1 = .idle ∨
          (Selium.Route.pollFuel fuel oracle (Selium.Route.exec history)).1 = .waitingStreams ∨
          (Selium.Route.pollFuel fuel oracle (Selium.Route.exec history)).1 = .done)
    (k : Selium.Sink.Child WFrame) (hk : k ∈ (Selium.Route.pollFuel fuel oracle (Selium.Route.exec history)).2.1.sinks)
    (hreg : k.regAt = 0)
    (sid : Nat) (hlt : sid < (Selium.Route.pollFuel fuel oracle (Selium.Route.exec history)).2.1.nextStream)
    (hgone : ∀ st ∈ (Selium.Route.pollFuel fuel oracle (Selium.Route.exec history)).2.1.streams, st.id ≠ sid)
    (hscript : Selium.Route.itemsOf ((Selium.Route.pollFuel fuel oracle (Selium.Route.exec history)).2.1.scripts[sid]?.getD []) = pf.wire)
    (honly : ∀ i ∈ (Selium.Route.pollFuel fuel oracle (Selium.Route.exec history)).2.1.src, i = sid) :
    subscriberOutputs c z k.got = (items.map (·.2)).map Res.ok ∧ k.flushed = k.got.length := by
  have hfid := c03_fidelity_partial c good hc z hz lim batchSize items hgood hfit p pf hsend hfinish
  have hr := Selium.Route.c01_subscriber_gets_all_of_an_ended_publisher history fuel oracle hq k hk hreg sid hlt hgone
  have hd := Selium.Route.c01_delivered_and_flushed history fuel oracle hq k hk
  rw [hreg, List.drop_zero] at hd
  have hlen : (Selium.Route.pollFuel fuel oracle (Selium.Route.exec history)).2.1.src.length = k.got.length := by
    have hs : (Selium.Route.pollFuel fuel oracle (Selium.Route.exec history)).2.1 = Selium.Route.exec (history ++ [.poll fuel oracle]) := by
      rw [Selium.Route.exec_snoc]; rfl
    rw [hd.1, hs]
    exact (Selium.Route.exec_pub (history ++ [.poll fuel oracle])).1
  have hall := fromPub_all k.got _ sid hlen honly
  rw [hall, hscript] at hr
  refine ⟨?_, hr.2⟩
  rw [hr.1]
  exact hfid.1

/-- the hypotheses of the end-to-end theorem are met by a concrete run: two unbatched messages through a router with
    one subscriber that is not ready at first -/
def exRouterHistory : List (Selium.Route.Event WFrame) :=
  [.enqueue (.sink { id := 0, readyQ := [.pending] }),
   .enqueue (.stream [.item (.message [65]), .pending, .item (.message [66])]), .poll 30 [], .poll 30 [], .poll 30 []]

example :
    let s := (Selium.Route.pollFuel 30 [] (Selium.Route.exec exRouterHistory)).2.1
    (Selium.Route.pollFuel 30 [] (Selium.Route.exec exRouterHistory)).1 = .idle ∧
    s.sinks.map (·.regAt) = [0] ∧ s.nextStream = 1 ∧ s.streams.length = 0 ∧ s.src = [0, 0] ∧
    Selium.Route.itemsOf (s.scripts[0]?.getD []) = [.message [65], .message [66]] ∧
    s.sinks.map (·.got) = [[.message [65], .message [66]]] := by decide +kernel

/-! Non-vacuity: batch size 3, seven strings, no compression — the case that used to come out as
    m2,m1,m0,m5,m4,m3 with m6 lost. -/
def exItems : List (Bool × Bytes) := (List.range 7).map fun i => (false, [UInt8.ofNat (65 + i)])

example :
    (match ({ batch := some [], size := 3 } : Pub).sendAll stringCodec noCompression 1048576 exItems with
     | .ok p => match p.finish noCompression 1048576 with
       | .ok pf => (subscriberOutputs stringCodec noCompression pf.wire).map (fun r => match r with | .ok b => b | _ => [])
       | _ => []
     | _ => []) = [[65], [66], [67], [68], [69], [70], [71]] := by decide +kernel

end Selium.Client

#print axioms Selium.Client.subscriberOutputs_append
#print axioms Selium.Client.mapRes_append_ok
#print axioms Selium.Client.mapRes_decode_of_encode
#print axioms Selium.Client.sendBatch_inv
#print axioms Selium.Client.flush_inv
#print axioms Selium.Client.send_inv
#print axioms Selium.Client.c03_fidelity_partial
#print axioms Selium.Client.feed_inv
#print axioms Selium.Client.finish_spec
#print axioms Selium.Client.pollReady_inv
#print axioms Selium.Client.apply_inv
#print axioms Selium.Client.c03_fidelity_any_driving_partial
#print axioms Selium.Client.c03_subscriber_state_machine_refines_outputs
#print axioms Selium.Client.fromPub_all
#print axioms Selium.Client.c03_end_to_end_through_the_router_partial
#print axioms Selium.Client.c03_refused_batch_loses_accepted_members
#print axioms Selium.Client.c03_duplicate_delivers_only_its_own_partial
