/-
C07 — Topic names: grammar, reserved namespace, server-side enforcement, isolation.

Property theorems only. Model `Topic/Name.lean`; the regex data (separators, bounds, the `[\w-]` class as the
regex crate's own parser resolves it, the reserved word, the slicing form used by `try_from`) is regenerated
from the source into `Gen/Topic.lean`. "Letters, digits, '_' and '-'" is read as the class the code uses:
the regex crate's Unicode `\w` plus '-'; the theorems do not depend on which class it is, only on the
obligations in `Lemmas/Topic.lean` ('/' is not in it; client regex and server regex agree).
The isolation clause (two names never share traffic) is `c07_names_are_distinct_keys` here plus the registry
theorems of C11/C17 (`Server/Registry.lean`), where topics are keyed by the (namespace, topic) pair.
-/
import SeliumModel.Lemmas.Topic
import SeliumModel.Lemmas.System

namespace Selium.Topic
open Selium Selium.Gen.Topic

/-- A string is accepted exactly when it has the form /namespace/topic with both parts 3 to 64 characters
    of the class and the namespace does not begin with the reserved word. -/
theorem c07_accept_iff (s ns tp : Str) :
    tryFrom s = .ok (ns, tp) ↔
      s = display ns tp ∧ comp ns = true ∧ comp tp = true ∧ reserved.isPrefixOf ns = false := by
  obtain ⟨hA, hB, h1, h2, h3, h4⟩ := same_rule
  have hcomp_ns : ∀ x, isComp nsClass nsMin nsMax x = comp x := by intro x; simp [comp, hA, h1, h2]
  have hcomp_tp : ∀ x, isComp tpClass tpMin tpMax x = comp x := by intro x; simp [comp, hB, h3, h4]
  constructor
  · intro h
    unfold tryFrom at h
    split at h
    · simp at h
    · rename_i c rest
      have key : topicCaptures (c :: rest) = some (ns, tp) → (utf8Len c = 1 → reserved.isPrefixOf rest = false) →
          c :: rest = display ns tp ∧ comp ns = true ∧ comp tp = true ∧ reserved.isPrefixOf ns = false := by
        intro hcap hres
        obtain ⟨hv, hn, ht⟩ := (topicCaptures_iff _ _ _).mp hcap
        rw [hcomp_ns] at hn; rw [hcomp_tp] at ht
        simp only [List.cons.injEq] at hv
        obtain ⟨rfl, rfl⟩ := hv
        refine ⟨by simp [display, sep_eq.1, sep_eq.2], hn, ht, ?_⟩
        have hr := hres utf8Len_sep
        cases hp : reserved.isPrefixOf ns with
        | false => rfl
        | true =>
          have := isPrefixOf_append_right reserved ns (sep2 :: tp) hp
          rw [this] at hr; simp at hr
      split at h
      · rename_i hu
        split at h
        · simp at h
        · rename_i hres
          split at h
          · rename_i r hcap
            simp only [Res.ok.injEq] at h; subst h
            exact key hcap (fun _ => by cases hb : reserved.isPrefixOf rest <;> simp_all)
          · simp at h
      · rename_i hu
        split at h
        · split at h
          · rename_i r hcap
            simp only [Res.ok.injEq] at h; subst h
            exact key hcap (fun h1 => absurd h1 hu)
          · simp at h
        · simp at h
  · rintro ⟨rfl, hn, ht, hr⟩
    have hcap : topicCaptures (display ns tp) = some (ns, tp) := by
      apply (topicCaptures_iff _ _ _).mpr
      refine ⟨by simp [display, sep_eq.1, sep_eq.2], by rw [hcomp_ns]; exact hn, by rw [hcomp_tp]; exact ht⟩
    have hnr : reserved.isPrefixOf (ns ++ 47 :: tp) = false := by
      cases hp : reserved.isPrefixOf (ns ++ 47 :: tp) with
      | false => rfl
      | true =>
        have := isPrefixOf_append_stop reserved ns 47 tp (by have := sep_not_reserved; rw [sep_eq.2] at this; exact this) hp
        rw [this] at hr; simp at hr
    have h47 : utf8Len 47 = 1 := by decide
    simp only [display] at hcap ⊢
    simp [tryFrom, h47, hnr, hcap]

/-- Every other string is rejected with an error, never a panic. -/
theorem c07_total (s : Str) (site : String) : tryFrom s ≠ .panic site := by
  unfold tryFrom
  split
  · simp
  · split
    · split
      · simp
      · split <;> simp
    · simp only [checked_slice, if_true]
      split <;> simp

/-- An accepted name prints back to the same string … -/
theorem c07_display_of_parse (s ns tp : Str) (h : tryFrom s = .ok (ns, tp)) : display ns tp = s :=
  ((c07_accept_iff s ns tp).mp h).1.symm

/-- … and a valid name, printed, parses to itself. -/
theorem c07_parse_of_display (ns tp : Str) (h : isValid ns tp = true) :
    tryFrom (display ns tp) = .ok (ns, tp) := by
  apply (c07_accept_iff _ _ _).mpr
  simp only [isValid, Bool.not_eq_true', Bool.or_eq_false_iff, Bool.not_eq_false'] at h
  exact ⟨rfl, h.1.2, h.2, h.1.1⟩

/-- The server applies the same rule to names arriving on the wire: `is_valid` holds exactly for the
    (namespace, topic) pairs whose printed form the client-side parser accepts as that pair. -/
theorem c07_server_same_rule (ns tp : Str) :
    isValid ns tp = true ↔ tryFrom (display ns tp) = .ok (ns, tp) := by
  constructor
  · exact c07_parse_of_display ns tp
  · intro h
    obtain ⟨_, hn, ht, hr⟩ := (c07_accept_iff _ _ _).mp h
    simp only [comp] at hn ht
    simp [isValid, compMatch, hn, ht, hr]

/-- `create` is `is_valid`. -/
theorem c07_create (ns tp : Str) : create ns tp = if isValid ns tp then .ok (ns, tp) else .err "parse" := rfl

/-- Two different valid names have different printed forms: a name identifies one (namespace, topic) key. -/
theorem c07_names_are_distinct_keys (ns tp ns' tp' : Str) (h : isValid ns tp = true) (h' : isValid ns' tp' = true)
    (heq : display ns tp = display ns' tp') : ns = ns' ∧ tp = tp' := by
  have a := c07_parse_of_display ns tp h
  have b := c07_parse_of_display ns' tp' h'
  rw [heq, b] at a
  simp only [Res.ok.injEq, Prod.mk.injEq] at a
  exact ⟨a.1.symm, a.2.symm⟩

/-! Non-vacuity: concrete accepted / rejected strings, including the one the unrepaired parser panicked on. -/
-- "/abc/d-_9"
example : tryFrom [47, 97, 98, 99, 47, 100, 45, 95, 57] = .ok ([97, 98, 99], [100, 45, 95, 57]) := by decide +kernel
-- "é/abc/def"
example : tryFrom [233, 47, 97, 98, 99, 47, 100, 101, 102] = .err "parse" := by decide +kernel
-- "/selium/topic"
example : tryFrom [47, 115, 101, 108, 105, 117, 109, 47, 116, 111, 112, 105, 99] = .err "reserved" := by decide +kernel
-- "/ab/def": too short
example : tryFrom [47, 97, 98, 47, 100, 101, 102] = .err "parse" := by decide +kernel

end Selium.Topic

/-! ## Two different names never share traffic (whole-server model, `Server/System.lean`) -/
namespace Selium.Server
open Selium.Route Selium.Sink

/-- nothing a peer does under name `a` — opening streams in any role, with any scripted behaviour — and no poll of
    `a`'s routers mentions another name `b` … -/
theorem c07_other_name_not_mentioned (a b : Name) (h : a ≠ b) (role : Role) (sink : Child RFrame)
    (stream : List (SAns RFrame)) (fuel : Nat) (o so ko : List Nat) :
    mentions b (.openStream (some (.register role a)) sink stream) = false ∧
    mentions b (.pollPubsub a fuel o) = false ∧ mentions b (.pollReqrep a fuel so ko) = false := by
  simp [mentions, h]

/-- … and what is not mentioned has no effect: for every history of the whole server and every name `b`, the
    registry entry of `b` and the complete state of `b`'s pub/sub and request/reply routers (every frame every peer
    of `b` was handed) are what they would be had the events of all other names never happened. Two different
    names never share a router, a channel, or a single frame. -/
theorem c07_different_names_never_share_traffic (history : List SEvent) (b : Name) :
    (sysExec history).registry.lookup b = (sysExec (history.filter (mentions b))).registry.lookup b ∧
    (sysExec history).ps b = (sysExec (history.filter (mentions b))).ps b ∧
    (sysExec history).rr b = (sysExec (history.filter (mentions b))).rr b :=
  sys_topic_independent b history

end Selium.Server

#print axioms Selium.Topic.c07_accept_iff
#print axioms Selium.Topic.c07_total
#print axioms Selium.Topic.c07_display_of_parse
#print axioms Selium.Topic.c07_parse_of_display
#print axioms Selium.Topic.c07_server_same_rule
#print axioms Selium.Topic.c07_create
#print axioms Selium.Topic.c07_names_are_distinct_keys
#print axioms Selium.Server.c07_other_name_not_mentioned
#print axioms Selium.Server.c07_different_names_never_share_traffic
