/-
C04 — End-to-end request/reply: each call gets its own reply, or a timely error.

Model: `Client/Requestor.lean` — the id counter and pending-request map shared by a requestor and its clones,
`request()` and the reply reader, against an adversarial stream of reply frames (any order, duplicates,
missing, late, foreign or malformed ids). Across separate requestor streams ids may collide, but the server
never delivers a reply to a stream other than the one named by its routing tag (`c02_reply_delivery`,
`c02_replies_none_lost_each_to_its_requestor`), so only same-stream confusion has to be excluded here.
-/
import SeliumModel.Client.Requestor

namespace Selium.Client
open Selium

/-- every entry of the pending map points at the call that was given that id; ids in the map are distinct;
    a reply was only ever handed to the call whose id it carries, while that call was waiting -/
structure RqInv (s : Rq) : Prop where
  entries : ∀ e ∈ s.pending, ∃ c, s.calls[e.2]? = some c ∧ c.id = e.1
  keys : (s.pending.map (·.1)).Nodup
  deliv : ∀ d ∈ s.delivered, ∃ c, s.calls[d.1]? = some c ∧ d.2.reqId = some c.id ∧ c.state = .done d.2.payload
  once : (s.delivered.map (·.1)).Nodup
  waitingPending : ∀ d ∈ s.delivered, ∀ e ∈ s.pending, e.2 ≠ d.1

theorem setState_getElem? (calls : List Call) (i j : Nat) (st : CallState) :
    (setState calls i st)[j]? = (calls[j]?).map fun c => if j = i then { c with state := st } else c := by
  simp [setState, List.getElem?_mapIdx]

theorem setState_length (calls : List Call) (i : Nat) (st : CallState) : (setState calls i st).length = calls.length := by
  simp [setState]

theorem filter_keys_nodup (l : List (Nat × Nat)) (id : Nat) (h : (l.map (·.1)).Nodup) :
    ((l.filter (·.1 ≠ id)).map (·.1)).Nodup :=
  List.Nodup.sublist (List.Sublist.map _ List.filter_sublist) h

theorem rqInv_init : RqInv {} := ⟨by intro e he; simp at he, by simp, by intro d hd; simp at hd, by simp, by intro d hd; simp at hd⟩

theorem call_inv (s : Rq) (h : RqInv s) : RqInv s.call := by
  constructor
  · intro e he
    simp only [Rq.call, List.mem_cons, List.mem_filter] at he
    rcases he with rfl | ⟨he, _⟩
    · exact ⟨{ id := s.nextId, state := .waiting }, by simp [Rq.call], rfl⟩
    · obtain ⟨c, hc, hid⟩ := h.entries e he
      refine ⟨c, ?_, hid⟩
      simp only [Rq.call]
      rw [List.getElem?_append_left]; exact hc
      exact (List.getElem?_eq_some_iff.mp hc).1
  · simp only [Rq.call, List.map_cons, List.nodup_cons]
    refine ⟨?_, filter_keys_nodup _ _ h.keys⟩
    simp [List.mem_map, List.mem_filter]
  · intro d hd
    obtain ⟨c, hc, h1, h2⟩ := h.deliv d hd
    refine ⟨c, ?_, h1, h2⟩
    simp only [Rq.call]
    rw [List.getElem?_append_left]; exact hc
    exact (List.getElem?_eq_some_iff.mp hc).1
  · exact h.once
  · intro d hd e he
    simp only [Rq.call, List.mem_cons, List.mem_filter] at he
    rcases he with rfl | ⟨he, _⟩
    · obtain ⟨c, hc, _, _⟩ := h.deliv d hd
      have := (List.getElem?_eq_some_iff.mp hc).1
      simp only; omega
    · exact h.waitingPending d hd e he

theorem timeout_inv (s : Rq) (ci : Nat) (h : RqInv s) : RqInv (s.timeout ci) := by
  unfold Rq.timeout
  cases hc : s.calls[ci]? with
  | none => exact h
  | some c =>
    simp only
    split
    · rename_i hw
      constructor
      · intro e he
        obtain ⟨c', hc', hid⟩ := h.entries e he
        simp only [setState_getElem?, hc', Option.map_some]
        exact ⟨_, rfl, by split <;> exact hid⟩
      · exact h.keys
      · intro d hd
        obtain ⟨c', hc', h1, h2⟩ := h.deliv d hd
        simp only [setState_getElem?, hc', Option.map_some]
        refine ⟨_, rfl, ?_, ?_⟩
        · split <;> exact h1
        · split
          · rename_i heq
            subst heq
            rw [hc] at hc'
            simp only [Option.some.injEq] at hc'
            subst hc'
            rw [hw] at h2; simp at h2
          · exact h2
      · exact h.once
      · exact h.waitingPending
    · exact h

theorem arrive_inv (s : Rq) (r : Reply) (h : RqInv s) : RqInv (s.arrive r) := by
  unfold Rq.arrive
  cases hid : r.reqId with
  | none => exact h
  | some id =>
    simp only
    cases hf : s.pending.find? (·.1 = id) with
    | none => exact h
    | some e =>
      obtain ⟨eid, ci⟩ := e
      have hmem : (eid, ci) ∈ s.pending := List.mem_of_find?_eq_some hf
      have heid : eid = id := by have := List.find?_some hf; simpa using this
      subst heid
      obtain ⟨c, hc, hcid⟩ := h.entries _ hmem
      simp only at hc hcid
      simp only [hc]
      have hrem : ∀ e' ∈ s.pending.filter (·.1 ≠ eid), e' ∈ s.pending ∧ e'.2 ≠ ci := by
        intro e' he'
        have hm := (List.mem_filter.mp he').1
        have hne : e'.1 ≠ eid := by simpa using (List.mem_filter.mp he').2
        refine ⟨hm, fun heq => hne ?_⟩
        obtain ⟨c', hc', hcid'⟩ := h.entries e' hm
        rw [heq, hc] at hc'
        simp only [Option.some.injEq] at hc'
        rw [← hcid', ← hc', hcid]
      split
      · rename_i hw
        constructor
        · intro e' he'
          obtain ⟨hm, _⟩ := hrem e' he'
          obtain ⟨c', hc', hid'⟩ := h.entries e' hm
          simp only [setState_getElem?, hc', Option.map_some]
          exact ⟨_, rfl, by split <;> exact hid'⟩
        · exact filter_keys_nodup _ _ h.keys
        · intro d hd
          simp only [List.mem_append, List.mem_singleton] at hd
          rcases hd with hd | rfl
          · obtain ⟨c', hc', h1, h2⟩ := h.deliv d hd
            simp only [setState_getElem?, hc', Option.map_some]
            refine ⟨_, rfl, by split <;> exact h1, ?_⟩
            split
            · rename_i heq
              exact absurd heq.symm (h.waitingPending d hd _ hmem)
            · exact h2
          · simp only [setState_getElem?, hc, Option.map_some, if_true]
            exact ⟨_, rfl, by simp [hid, hcid], rfl⟩
        · simp only [List.map_append, List.map_cons, List.map_nil]
          rw [List.nodup_append]
          refine ⟨h.once, by simp, ?_⟩
          intro a ha b hb
          simp only [List.mem_singleton] at hb
          subst hb
          simp only [List.mem_map] at ha
          obtain ⟨d, hd, rfl⟩ := ha
          exact fun heq => h.waitingPending d hd _ hmem heq.symm
        · intro d hd e' he'
          simp only [List.mem_append, List.mem_singleton] at hd
          obtain ⟨hm, hne⟩ := hrem e' he'
          rcases hd with hd | rfl
          · exact h.waitingPending d hd e' hm
          · exact hne
      · exact ⟨fun e' he' => h.entries e' (hrem e' he').1, filter_keys_nodup _ _ h.keys, h.deliv, h.once,
          fun d hd e' he' => h.waitingPending d hd e' (hrem e' he').1⟩

theorem run_inv (evs : List RqEvent) : RqInv (Rq.run evs) := by
  unfold Rq.run
  suffices ∀ s, RqInv s → RqInv (evs.foldl Rq.step s) from this {} rqInv_init
  induction evs with
  | nil => intro s h; exact h
  | cons e es ih =>
    intro s h
    apply ih
    cases e with
    | call => exact call_inv s h
    | arrive r => exact arrive_inv s r h
    | timeout ci => exact timeout_inv s ci h

/-- Every `request()` that returned Ok returned a reply that carried exactly that request's id — never the
    reply to another request — and a reply is handed to at most one call, a call gets at most one reply;
    whatever the order, duplication, loss or lateness of replies and however many clones share the stream. -/
theorem c04_own_reply (history : List RqEvent) :
    (∀ d ∈ (Rq.run history).delivered, ∃ c, (Rq.run history).calls[d.1]? = some c ∧ d.2.reqId = some c.id ∧
        c.state = .done d.2.payload) ∧
    ((Rq.run history).delivered.map (·.1)).Nodup :=
  ⟨(run_inv history).deliv, (run_inv history).once⟩

/-- A call whose timeout fired stays failed: a late reply to it is dropped and changes no call's outcome. -/
theorem c04_late_reply_dropped (s : Rq) (h : RqInv s) (r : Reply) (id ci : Nat) (c : Call)
    (hid : r.reqId = some id) (hp : s.pending.find? (·.1 = id) = some (id, ci)) (hc : s.calls[ci]? = some c)
    (hs : c.state ≠ .waiting) : (s.arrive r).calls = s.calls ∧ (s.arrive r).delivered = s.delivered := by
  unfold Rq.arrive
  simp [hid, hp, hc, hs]

/-- No matching reply within the timeout ⇒ the call fails with a timeout and stays so. -/
theorem c04_timeout (s : Rq) (ci : Nat) (c : Call) (hc : s.calls[ci]? = some c) (hw : c.state = .waiting) :
    (s.timeout ci).calls[ci]? = some { c with state := .timedOut } := by
  unfold Rq.timeout
  simp only [hc, hw, if_true]
  simp [setState_getElem?, hc]

/-- Concurrent calls on one stream (any number of clones) get distinct ids as long as no more than 2^32 are
    made: the k-th call is given id k. -/
theorem c04_ids_distinct (n : Nat) (hn : n ≤ U32) :
    (Rq.run (List.replicate n .call)).calls.map (·.id) = List.range n ∧
    ((Rq.run (List.replicate n .call)).calls.map (·.id)).Nodup := by
  have key : (Rq.run (List.replicate n .call)).calls.map (·.id) = List.range n ∧
      (Rq.run (List.replicate n .call)).nextId = n % U32 := by
    induction n with
    | zero => exact ⟨rfl, rfl⟩
    | succ m ih =>
      have := ih (by omega)
      have hrun : Rq.run (List.replicate (m + 1) .call) = (Rq.run (List.replicate m .call)).call := by
        simp [Rq.run, List.replicate_succ', List.foldl_append, Rq.step]
      rw [hrun]
      constructor
      · simp only [Rq.call, List.map_append, List.map_cons, List.map_nil, this.1, this.2]
        rw [List.range_succ, Nat.mod_eq_of_lt (by omega)]
      · simp only [Rq.call, this.2]
        rw [Nat.mod_eq_of_lt (by omega : m < U32)]
  exact ⟨key.1, by rw [key.1]; exact List.nodup_range⟩

end Selium.Client

#print axioms Selium.Client.c04_own_reply
#print axioms Selium.Client.c04_late_reply_dropped
#print axioms Selium.Client.c04_timeout
#print axioms Selium.Client.c04_ids_distinct
#print axioms Selium.Client.setState_getElem?
#print axioms Selium.Client.setState_length
#print axioms Selium.Client.filter_keys_nodup
#print axioms Selium.Client.rqInv_init
#print axioms Selium.Client.call_inv
#print axioms Selium.Client.timeout_inv
#print axioms Selium.Client.arrive_inv
#print axioms Selium.Client.run_inv
