/-
C04 — End-to-end request/reply: each call gets its own reply, or a timely error.

Model: `Client/Requestor.lean` — the id counter and pending-request map shared by a requestor and its clones,
`request()` and the reply reader, against an adversarial stream of reply frames (any order, duplicates,
missing, late, foreign or malformed ids). Across separate requestor streams ids may collide, but the server
never delivers a reply to a stream other than the one named by its routing tag (`c02_reply_delivery`,
`c02_replies_none_lost_each_to_its_requestor`), so only same-stream confusion has to be excluded here.
-/
import SeliumModel.Client.Requestor
import SeliumModel.Client.Replier
import SeliumModel.Lemmas.Digits
import SeliumModel.Gen.Client

namespace Selium.Client
open Selium

/-- every entry of the pending map points at the call that was given that id; ids in the map are distinct;
    a reply was only ever handed to the call whose id it carries, while that call was waiting -/
structure RqInv (s : Rq) : Prop where
  entries : ∀ e ∈ s.pending, ∃ c, s.calls[e.2]? = some c ∧ c.id = e.1
  keys : (s.pending.map (·.1)).Nodup
  deliv : ∀ d ∈ s.delivered, ∃ c, s.calls[d.1]? = some c ∧ d.2.reqId = some c.id ∧ c.state = .done d.2.payload
  once : (s.delivered.map (·.1)).Nodup
  waitingPending : ∀ d ∈ s.delivered, ∀ e ∈ s.pending, e.2 ≠ d.1

theorem setState_getElem? (calls : List Call) (i j : Nat) (st : CallState) :
    (setState calls i st)[j]? = (calls[j]?).map fun c => if j = i then { c with state := st } else c := by
  simp [setState, List.getElem?_mapIdx]

theorem setState_length (calls : List Call) (i : Nat) (st : CallState) : (setState calls i st).length = calls.length := by
  simp [setState]

theorem filter_keys_nodup (l : List (Nat × Nat)) (id : Nat) (h : (l.map (·.1)).Nodup) :
    ((l.filter (·.1 ≠ id)).map (·.1)).Nodup :=
  List.Nodup.sublist (List.Sublist.map _ List.filter_sublist) h

theorem rqInv_init : RqInv {} := ⟨by intro e he; simp at he, by simp, by intro d hd; simp at hd, by simp, by intro d hd; simp at hd⟩

theorem call_inv (s : Rq) (h : RqInv s) : RqInv s.call := by
  constructor
  · intro e he
    simp only [Rq.call, List.mem_cons, List.mem_filter] at he
    rcases he with rfl | ⟨he, _⟩
    · exact ⟨{ id := s.nextId, state := .waiting }, by simp [Rq.call], rfl⟩
    · obtain ⟨c, hc, hid⟩ := h.entries e he
      refine ⟨c, ?_, hid⟩
      simp only [Rq.call]
      rw [List.getElem?_append_left]; exact hc
      exact (List.getElem?_eq_some_iff.mp hc).1
  · simp only [Rq.call, List.map_cons, List.nodup_cons]
    refine ⟨?_, filter_keys_nodup _ _ h.keys⟩
    simp [List.mem_map, List.mem_filter]
  · intro d hd
    obtain ⟨c, hc, h1, h2⟩ := h.deliv d hd
    refine ⟨c, ?_, h1, h2⟩
    simp only [Rq.call]
    rw [List.getElem?_append_left]; exact hc
    exact (List.getElem?_eq_some_iff.mp hc).1
  · exact h.once
  · intro d hd e he
    simp only [Rq.call, List.mem_cons, List.mem_filter] at he
    rcases he with rfl | ⟨he, _⟩
    · obtain ⟨c, hc, _, _⟩ := h.deliv d hd
      have := (List.getElem?_eq_some_iff.mp hc).1
      simp only; omega
    · exact h.waitingPending d hd e he

theorem timeout_inv (s : Rq) (ci : Nat) (h : RqInv s) : RqInv (s.timeout ci) := by
  unfold Rq.timeout
  cases hc : s.calls[ci]? with
  | none => exact h
  | some c =>
    simp only
    split
    · rename_i hw
      constructor
      · intro e he
        obtain ⟨c', hc', hid⟩ := h.entries e he
        simp only [setState_getElem?, hc', Option.map_some]
        exact ⟨_, rfl, by split <;> exact hid⟩
      · exact h.keys
      · intro d hd
        obtain ⟨c', hc', h1, h2⟩ := h.deliv d hd
        simp only [setState_getElem?, hc', Option.map_some]
        refine ⟨_, rfl, ?_, ?_⟩
        · split <;> exact h1
        · split
          · rename_i heq
            subst heq
            rw [hc] at hc'
            simp only [Option.some.injEq] at hc'
            subst hc'
            rw [hw] at h2; simp at h2
          · exact h2
      · exact h.once
      · exact h.waitingPending
    · exact h

theorem arrive_inv (s : Rq) (r : Reply) (h : RqInv s) : RqInv (s.arrive r) := by
  unfold Rq.arrive
  cases hid : r.reqId with
  | none => exact h
  | some id =>
    simp only
    cases hf : s.pending.find? (·.1 = id) with
    | none => exact h
    | some e =>
      obtain ⟨eid, ci⟩ := e
      have hmem : (eid, ci) ∈ s.pending := List.mem_of_find?_eq_some hf
      have heid : eid = id := by have := List.find?_some hf; simpa using this
      subst heid
      obtain ⟨c, hc, hcid⟩ := h.entries _ hmem
      simp only at hc hcid
      simp only [hc]
      have hrem : ∀ e' ∈ s.pending.filter (·.1 ≠ eid), e' ∈ s.pending ∧ e'.2 ≠ ci := by
        intro e' he'
        have hm := (List.mem_filter.mp he').1
        have hne : e'.1 ≠ eid := by simpa using (List.mem_filter.mp he').2
        refine ⟨hm, fun heq => hne ?_⟩
        obtain ⟨c', hc', hcid'⟩ := h.entries e' hm
        rw [heq, hc] at hc'
        simp only [Option.some.injEq] at hc'
        rw [← hcid', ← hc', hcid]
      split
      · rename_i hw
        constructor
        · intro e' he'
          obtain ⟨hm, _⟩ := hrem e' he'
          obtain ⟨c', hc', hid'⟩ := h.entries e' hm
          simp only [setState_getElem?, hc', Option.map_some]
          exact ⟨_, rfl, by split <;> exact hid'⟩
        · exact filter_keys_nodup _ _ h.keys
        · intro d hd
          simp only [List.mem_append, List.mem_singleton] at hd
          rcases hd with hd | rfl
          · obtain ⟨c', hc', h1, h2⟩ := h.deliv d hd
            simp only [setState_getElem?, hc', Option.map_some]
            refine ⟨_, rfl, by split <;> exact h1, ?_⟩
            split
            · rename_i heq
              exact absurd heq.symm (h.waitingPending d hd _ hmem)
            · exact h2
          · simp only [setState_getElem?, hc, Option.map_some, if_true]
            exact ⟨_, rfl, by simp [hid, hcid], rfl⟩
        · simp only [List.map_append, List.map_cons, List.map_nil]
          rw [List.nodup_append]
          refine ⟨h.once, by simp, ?_⟩
          intro a ha b hb
          simp only [List.mem_singleton] at hb
          subst hb
          simp only [List.mem_map] at ha
          obtain ⟨d, hd, rfl⟩ := ha
          exact fun heq => h.waitingPending d hd _ hmem heq.symm
        · intro d hd e' he'
          simp only [List.mem_append, List.mem_singleton] at hd
          obtain ⟨hm, hne⟩ := hrem e' he'
          rcases hd with hd | rfl
          · exact h.waitingPending d hd e' hm
          · exact hne
      · exact ⟨fun e' he' => h.entries e' (hrem e' he').1, filter_keys_nodup _ _ h.keys, h.deliv, h.once,
          fun d hd e' he' => h.waitingPending d hd e' (hrem e' he').1⟩

theorem run_inv (evs : List RqEvent) : RqInv (Rq.run evs) := by
  unfold Rq.run
  suffices ∀ s, RqInv s → RqInv (evs.foldl Rq.step s) from this {} rqInv_init
  induction evs with
  | nil => intro s h; exact h
  | cons e es ih =>
    intro s h
    apply ih
    cases e with
    | call => exact call_inv s h
    | arrive r => exact arrive_inv s r h
    | timeout ci => exact timeout_inv s ci h

/-- Every `request()` that returned Ok returned a reply that carried exactly that request's id — never the
    reply to another request — and a reply is handed to at most one call, a call gets at most one reply;
    whatever the order, duplication, loss or lateness of replies and however many clones share the stream. -/
theorem c04_own_reply (history : List RqEvent) :
    (∀ d ∈ (Rq.run history).delivered, ∃ c, (Rq.run history).calls[d.1]? = some c ∧ d.2.reqId = some c.id ∧
        c.state = .done d.2.payload) ∧
    ((Rq.run history).delivered.map (·.1)).Nodup :=
  ⟨(run_inv history).deliv, (run_inv history).once⟩

/-- A call whose timeout fired stays failed: a late reply to it is dropped and changes no call's outcome. -/
theorem c04_late_reply_dropped (s : Rq) (h : RqInv s) (r : Reply) (id ci : Nat) (c : Call)
    (hid : r.reqId = some id) (hp : s.pending.find? (·.1 = id) = some (id, ci)) (hc : s.calls[ci]? = some c)
    (hs : c.state ≠ .waiting) : (s.arrive r).calls = s.calls ∧ (s.arrive r).delivered = s.delivered := by
  unfold Rq.arrive
  simp [hid, hp, hc, hs]

/-- No matching reply within the timeout ⇒ the call fails with a timeout and stays so. -/
theorem c04_timeout (s : Rq) (ci : Nat) (c : Call) (hc : s.calls[ci]? = some c) (hw : c.state = .waiting) :
    (s.timeout ci).calls[ci]? = some { c with state := .timedOut } := by
  unfold Rq.timeout
  simp only [hc, hw, if_true]
  simp [setState_getElem?, hc]

/-- Timely error even when the request cannot be handed to the transport: the timer bounds the send as well
    (regenerated from `requestor.rs`), so a waiting call fails with a timeout whether or not its send completed. -/
theorem c04_timeout_covers_send : Gen.Client.requestTimeoutCoversSend = true := by decide

theorem c04_timeout_timely (sent : Nat → Bool) (s : Rq) (ci : Nat) (c : Call) (hc : s.calls[ci]? = some c)
    (hw : c.state = .waiting) :
    (s.timeoutIfArmed Gen.Client.requestTimeoutCoversSend sent ci).calls[ci]? = some { c with state := .timedOut } := by
  simp only [Rq.timeoutIfArmed, c04_timeout_covers_send, Bool.true_or, if_true]
  exact c04_timeout s ci c hc hw

/-- The defect this guards against, for the record: with a timer that starts only after the send, a call whose send
    never completes stays waiting for ever. -/
theorem c04_unarmed_timer_never_fires (s : Rq) (ci : Nat) : s.timeoutIfArmed false (fun _ => false) ci = s := by
  simp [Rq.timeoutIfArmed]

/-- regenerated from `protocol/src/request_id.rs`: the counter shared by a requestor and its clones wraps after 2^32 calls,
    which is the `U32` of the model (a narrower counter would hand the id of a call that is still waiting, or whose
    late reply is still under way, to a later call: its reply would then be returned to the wrong call) -/
theorem c04_request_id_counter_width : 2 ^ Gen.Client.requestIdBits = U32 := by decide

/-- regenerated from `requestor.rs`: everything a call can wait for without bound — the shared write half, the transport,
    the reply — is awaited inside the future that `timeout(self.request_timeout, …)` bounds; outside it a call awaits only the
    pending map's lock, held by anybody for one insert or one remove. This is what makes `timeoutIfArmed` of the model
    applicable to every call (`c04_timeout`): no admission control, reply channel or transport operation sits in front of
    the clock. -/
theorem c04_every_unbounded_wait_is_timed : Gen.Client.requestWaitsAreTimed = true := by decide

/-- Concurrent calls on one stream (any number of clones) get distinct ids as long as no more than 2^32 are
    made: the k-th call is given id k. -/
theorem c04_ids_distinct (n : Nat) (hn : n ≤ U32) :
    (Rq.run (List.replicate n .call)).calls.map (·.id) = List.range n ∧
    ((Rq.run (List.replicate n .call)).calls.map (·.id)).Nodup := by
  have key : (Rq.run (List.replicate n .call)).calls.map (·.id) = List.range n ∧
      (Rq.run (List.replicate n .call)).nextId = n % U32 := by
    induction n with
    | zero => exact ⟨rfl, rfl⟩
    | succ m ih =>
      have := ih (by omega)
      have hrun : Rq.run (List.replicate (m + 1) .call) = (Rq.run (List.replicate m .call)).call := by
        simp [Rq.run, List.replicate_succ', List.foldl_append, Rq.step]
      rw [hrun]
      constructor
      · simp only [Rq.call, List.map_append, List.map_cons, List.map_nil, this.1, this.2]
        rw [List.range_succ, Nat.mod_eq_of_lt (by omega)]
      · simp only [Rq.call, this.2]
        rw [Nat.mod_eq_of_lt (by omega : m < U32)]
  exact ⟨key.1, by rw [key.1]; exact List.nodup_range⟩

/-! ### the honest replier and the whole exchange

`Client/Replier.lean` models `Replier::listen`. With the library replier on the other side the exchange is:
requestor writes `{"req_id": id}` → server overwrites / adds `cid` (`tagRequest`) → replier answers with the
request's own header map → server routes on `cid` and strips it (`routerSend`) → the requestor's reader parses
`req_id` (`replyOfFrame`) and completes the call (`Rq.arrive`). The theorems below close that loop. -/
open Selium.Sink Selium.Route

/-- `listen()` answers a prefix of what arrives, one reply per request, in order, each with the headers of the
    request it answers and the processed payload; if it returned `Ok(())` it answered everything. -/
theorem c04_replier_answers_in_order_with_request_headers {β} (process : β → Res β) (sendOk : Nat → Bool)
    (n : Nat) (items : List (RxItem β)) :
    ∃ k, k ≤ items.length ∧
      (listen process sendOk n items).1 = (items.take k).filterMap (answer process) ∧
      (∀ it ∈ items.take k, ∃ h p r, it = .msg h p ∧ process p = .ok r) ∧
      ((listen process sendOk n items).2 = .ended → k = items.length) := by
  induction items generalizing n with
  | nil => exact ⟨0, by simp [listen]⟩
  | cons it rest ih =>
    cases it with
    | msg h p =>
      cases hp : process p with
      | ok r =>
        by_cases hs : sendOk n = true
        · obtain ⟨k, hk, h1, h2, h3⟩ := ih (n + 1)
          refine ⟨k + 1, by simp; omega, ?_, ?_, ?_⟩
          · simp [listen, hp, hs, h1, answer]
          · intro it hit
            simp only [List.take_succ_cons, List.mem_cons] at hit
            rcases hit with rfl | hit
            · exact ⟨h, p, r, rfl, hp⟩
            · exact h2 it hit
          · intro he
            simp only [listen, hp, hs, if_true] at he
            simp [h3 he]
        · exact ⟨0, by simp, by simp [listen, hp, hs], by simp, by simp [listen, hp, hs]⟩
      | err e => exact ⟨0, by simp, by simp [listen, hp], by simp, by simp [listen, hp]⟩
      | panic e => exact ⟨0, by simp, by simp [listen, hp], by simp, by simp [listen, hp]⟩
    | error c => exact ⟨0, by simp, by simp [listen], by simp, by simp [listen]⟩
    | other => exact ⟨0, by simp, by simp [listen], by simp, by simp [listen]⟩
    | ioErr => exact ⟨0, by simp, by simp [listen], by simp, by simp [listen]⟩

/-- With requests only, a handler / codec pipeline that succeeds on each of them and a transport that accepts every
    reply, every request is answered, in order, with its own headers. -/
theorem c04_replier_answers_every_request {β} (process : β → Res β) (f : β → β) (hf : ∀ p, process p = .ok (f p))
    (n : Nat) (reqs : List (Option Hdr × β)) :
    listen process (fun _ => true) n (reqs.map fun q => .msg q.1 q.2) = (reqs.map fun q => (q.1, f q.2), .ended) := by
  induction reqs generalizing n with
  | nil => rfl
  | cons q qs ih => simp [listen, hf, ih (n + 1)]

/-- The routing tag survives the trip: whatever headers a requestor put on its request (a forged `cid` included),
    the reply that echoes the tagged request's headers is handed to exactly that requestor's sink, with the tag
    removed and the requestor's other headers and the replier's payload intact. -/
theorem c04_echoed_reply_reaches_its_requestor (cid : Nat) (hcid : cid < 18446744073709551616) (h : Option Hdr)
    (p r : Nat) (es : List (Child RFrame)) (c : Child RFrame) (hc : es.find? (·.id = cid) = some c)
    (hs : c.sendOk = true) :
    ∃ hd, tagRequest cid h p = .msg (some hd) p ∧
      (routerSend (.msg (some hd) r) es).1 = .delivered cid (stripCid hd r) ∧
      hd.remove CID = (h.getD []).remove CID := by
  refine ⟨(h.getD []).set CID (toString cid), rfl, ?_, ?_⟩
  · have hget : ((h.getD []).set CID (toString cid)).get CID = some (toString cid) := by
      simp [Hdr.set, Hdr.get]
    unfold routerSend
    simp only [hget, parseUsize_toString cid hcid, hc, hs, if_true]
  · simp [Hdr.set, Hdr.remove, List.filter_filter]

/-- The request id survives the trip: the reply to request `id` is recognised by the reader task as the reply to
    `id` (for every id the counter can produce). -/
theorem c04_request_id_roundtrip (id : Nat) (hid : id < U32) (cidv : String) (payload : Bytes) :
    replyOfFrame (some ((requestHeaders id).remove CID)) payload = { reqId := some id, payload := payload } ∧
    replyOfFrame (some (((requestHeaders id).set CID cidv).remove CID)) payload = { reqId := some id, payload := payload } := by
  have hne : (REQ_ID ≠ CID) := by decide
  have h1 : (requestHeaders id).remove CID = requestHeaders id := by
    simp [requestHeaders, Hdr.remove, hne]
  have h2 : ((requestHeaders id).set CID cidv).remove CID = requestHeaders id := by
    simp [requestHeaders, Hdr.set, Hdr.remove, hne]
  have h3 : replyOfFrame (some (requestHeaders id)) payload = { reqId := some id, payload := payload } := by
    simp [replyOfFrame, requestHeaders, Hdr.get, parseU32, parseBelow_repr U32 id hid]
  rw [h1, h2]; exact ⟨h3, h3⟩

/-- … and completes exactly the call that made the request: a call followed by the arrival of the echoed reply
    ends with that call holding the reply's payload. -/
theorem c04_honest_exchange_completes (s : Rq) (hid : s.nextId < U32) (payload : Bytes) :
    (s.call.arrive (replyOfFrame (some (requestHeaders s.nextId)) payload)).calls[s.calls.length]? =
      some { id := s.nextId, state := .done payload } := by
  have h3 : replyOfFrame (some (requestHeaders s.nextId)) payload = { reqId := some s.nextId, payload := payload } := by
    simp [replyOfFrame, requestHeaders, Hdr.get, parseU32, parseBelow_repr U32 s.nextId hid]
  rw [h3]
  simp [Rq.arrive, Rq.call, setState_getElem?]

/-- hypotheses are satisfiable: requestor 3 sends request 7 with a forged tag; the echo comes back to sink 3 -/
example :
    (routerSend (.msg (some (Hdr.set [(CID, "9"), (REQ_ID, "7")] CID (toString 3))) 42)
      [{ id := 1 }, { id := 3 }]).1 = .delivered 3 (.msg (some [(REQ_ID, "7")]) 42) := by
  simp [routerSend, Hdr.set, Hdr.get, Hdr.remove, stripCid, parseUsize_repr, Child.sendOk, CID, REQ_ID]

end Selium.Client

#print axioms Selium.Client.c04_own_reply
#print axioms Selium.Client.c04_late_reply_dropped
#print axioms Selium.Client.c04_timeout
#print axioms Selium.Client.c04_request_id_counter_width
#print axioms Selium.Client.c04_every_unbounded_wait_is_timed
#print axioms Selium.Client.c04_ids_distinct
#print axioms Selium.Client.setState_getElem?
#print axioms Selium.Client.setState_length
#print axioms Selium.Client.filter_keys_nodup
#print axioms Selium.Client.rqInv_init
#print axioms Selium.Client.call_inv
#print axioms Selium.Client.timeout_inv
#print axioms Selium.Client.arrive_inv
#print axioms Selium.Client.run_inv
#print axioms Selium.Client.c04_replier_answers_in_order_with_request_headers
#print axioms Selium.Client.c04_replier_answers_every_request
#print axioms Selium.Client.c04_echoed_reply_reaches_its_requestor
#print axioms Selium.Client.c04_request_id_roundtrip
#print axioms Selium.Client.c04_honest_exchange_completes
#print axioms Selium.Client.c04_timeout_covers_send
#print axioms Selium.Client.c04_timeout_timely
#print axioms Selium.Client.c04_unarmed_timer_never_fires
