/-
C10 — At most one replier per topic, with explicit rejection and re-binding.

`server : Option Replier` holds at most one bound replier by construction of the state; requests go only to
it (`partA` is the only block that hands a request over, to `s.server`). A replier that registers while one is
bound goes through the rejection path (`adoptSock` → `partB`): it is sent exactly the replier-already-bound
error and then closed, for every ready/pending/error script of its sink; that path touches nothing of the
bound replier or of the requestors. When the bound replier's stream ends it is unbound (`partD`), and the next
replier to register is bound (`adoptSock`).
-/
import SeliumModel.Lemmas.ReqRepMore
import SeliumModel.Lemmas.ReqRepCause

namespace Selium.Route
open Selium.Sink

theorem rejInv_init : RejInv ({} : RR) := ⟨by intro j hj; simp at hj, by intro j hj; simp at hj⟩

/-- A request is handed only to the replier that is bound at that moment. -/
theorem c10_requests_only_to_bound_replier (s : RR) :
    (partA s).state.handed = s.handed ∨ ∃ r f, s.server = some r ∧ (partA s).state.handed = s.handed ++ [(r.n, f)] := by
  unfold partA
  split
  · rename_i f r hf hr
    split
    · exact Or.inl rfl
    · exact Or.inl rfl
    · split
      · exact Or.inr ⟨r, f, hr, rfl⟩
      · exact Or.inl rfl
  · exact Or.inl rfl

/-- A replier that registers while another is bound is not bound; it is queued for rejection with nothing sent
    yet, and the bound replier stays bound. -/
theorem c10_late_replier_is_rejected (s : RR) (r : Replier) (sink : Child RFrame) (script : List (SAns RFrame))
    (q : List RSock) (h : s.server = some r) :
    (adoptSock s (.server sink script) q).server = some r ∧
    ∃ j, (adoptSock s (.server sink script) q).bufErr = some j ∧ j.toSend = true ∧ j.sink.got = [] := by
  simp only [adoptSock, h]
  exact ⟨trivial, _, rfl, rfl, rfl⟩

/-- For every history: every replier turned away was handed exactly the replier-already-bound error and
    nothing else (or nothing, if its own sink failed first); one whose rejection is in progress has been handed
    nothing before the error and exactly the error after. -/
theorem c10_rejected_told_exactly_that (history : List REvent) :
    (∀ j ∈ (rrExec history).rejected, j.sink.got = [] ∨ j.sink.got = [rejectionFrame]) ∧
    (∀ j, (rrExec history).bufErr = some j → j.sink.got = if j.toSend then [] else [rejectionFrame]) := by
  have : RejInv (rrExec history) := by
    unfold rrExec
    suffices ∀ s, RejInv s → RejInv (history.foldl rrApply s) from this {} rejInv_init
    induction history with
    | nil => intro s h; exact h
    | cons e es ih =>
      intro s h
      apply ih
      cases e with
      | enqueue sock => simp only [rrApply]; split <;> exact rejInv_of_eq h rfl rfl
      | close => exact rejInv_of_eq h rfl rfl
      | poll fuel so ko => exact rrPoll_rej fuel _ (rejInv_of_eq h rfl rfl)
  exact ⟨this.finished, this.current⟩

/-- The rejection path leaves the bound replier's traffic alone: server, requestor sinks and streams, requests
    handed and buffered, replies buffered and routed are all unchanged by it. -/
theorem c10_bound_replier_unaffected (s : RR) :
    (partB s).state.server = s.server ∧ (partB s).state.sinks = s.sinks ∧ (partB s).state.streams = s.streams ∧
    (partB s).state.handed = s.handed ∧ (partB s).state.bufReq = s.bufReq ∧ (partB s).state.bufRep = s.bufRep ∧
    (partB s).state.routed = s.routed ∧ (partB s).state.taken = s.taken := partB_untouched s

/-- After the bound replier is gone, the next replier to register becomes the bound one. -/
theorem c10_rebind (s : RR) (sink : Child RFrame) (script : List (SAns RFrame)) (q : List RSock)
    (h : s.server = none) :
    ∃ r, (adoptSock s (.server sink script) q).server = some r ∧ r.n = s.nextServer ∧ r.stream = script ∧
      (adoptSock s (.server sink script) q).bufErr = s.bufErr := by
  refine ⟨{ n := s.nextServer, sink := { sink with id := s.nextServer, got := [], flushed := 0 }, stream := script }, ?_, rfl, rfl, ?_⟩
  · simp [adoptSock, h]
  · simp [adoptSock, h]

/-! Non-vacuity: three repliers race; the first is bound, the other two each get the error and are closed,
    also when the second one's sink is not ready at first. -/
def exRace : List REvent :=
  [.enqueue (.server { id := 0 } [.pending, .pending, .pending, .pending]), .enqueue (.server { id := 0, readyQ := [.pending] } [.pending]),
   .enqueue (.server { id := 0 } [.pending]), .poll 50 [] [], .poll 50 [] [], .poll 50 [] []]

example : ((rrExec exRace).rejected.map fun j => (j.n, j.sink.got)) = [(1, [rejectionFrame]), (2, [rejectionFrame])] ∧
    ((rrExec exRace).server.map (·.n)) = some 0 := by decide +kernel

/-- "the bound replier's traffic is unaffected", for every history: the bound replier is let go of only when its own
    stream has ended or its own sink has failed — not because a late replier registered, was turned away, or failed while
    being turned away, and not because of anything a requestor did (the only other sockets dropped on the replier side are
    the late repliers themselves, each after the rejection was sent or could not be sent) -/
theorem c10_replier_let_go_only_for_cause (history : List REvent) (n k : Nat)
    (h : REv.v n (.dropped k) ∈ (rrExec history).trace) : ∃ e ∈ (rrExec history).trace, causeOf n e :=
  rrExec_justified history n k h

end Selium.Route

#print axioms Selium.Route.rejInv_init
#print axioms Selium.Route.c10_requests_only_to_bound_replier
#print axioms Selium.Route.c10_late_replier_is_rejected
#print axioms Selium.Route.c10_rejected_told_exactly_that
#print axioms Selium.Route.c10_bound_replier_unaffected
#print axioms Selium.Route.c10_rebind
#print axioms Selium.Route.c10_replier_let_go_only_for_cause
