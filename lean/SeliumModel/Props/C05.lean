/-
C05 — Wire formats round-trip and reassemble; the 1 MiB frame limit holds both ways.

Property theorems only. Models: `Wire/Bincode.lean` (bincode 1.3 by schema), `Wire/Frame.lean`
(`Frame::{get_length,get_type,write_to_bytes}`, `TryFrom`, `MessageCodec::{encode,decode}`), `Wire/Framed.lean`
(`FramedRead`), `Wire/Batch.lean` (`utils.rs`). Tags, payload schemas, body tables and size constants are
regenerated from the source into `Gen/Frame.lean` on every run; the theorems below are generic in them and
only need the obligations `tag_roundtrip` / `bodies_agree` / `reserved_eq` / `max_lt`, which are re-proved
against the regenerated tables.
-/
import SeliumModel.Lemmas.Total

namespace Selium.Wire
open Selium Selium.Bincode Selium.Gen.Frame

/-- For every frame the Rust type can hold whose payload is within the limit: the encoder accepts it,
    writes `9 + payload` bytes starting with the big-endian payload length, and the decoder, given those
    bytes followed by anything, returns an equal frame and leaves exactly what followed. -/
theorem c05_roundtrip (f : Frame) (hs : f.sendable) (rest : Bytes) :
    ∃ wire body, encode f = .ok wire ∧ payloadBytes (writeBody f.kind) f.payload = .ok body ∧
      wire.take 8 = beBytes 8 body.length ∧ wire.length = 9 + body.length ∧
      decode (wire ++ rest) = .ok (some f, rest) := by
  obtain ⟨body, hb, hlen, henc⟩ := encode_sendable f hs
  refine ⟨_, body, henc, hb, ?_, ?_, ?_⟩
  · rw [List.take_append_of_le_length (by simp), List.take_of_length_le (by simp)]
  · simp; omega
  · exact decode_encoded f body rest hs.1 hb hlen

/-- A payload larger than 1 MiB is refused by the encoder. -/
theorem c05_encode_limit (f : Frame) (body : Bytes)
    (hb : payloadBytes (writeBody f.kind) f.payload = .ok body) (hbig : maxMessageSize < body.length) :
    encode f = .err "payload-too-large" := encode_too_large f body hb hbig

/-- A length prefix larger than 1 MiB is refused by the decoder as soon as the 9 header bytes are there,
    whatever else is or is not buffered (in particular before any payload byte). -/
theorem c05_decode_limit (src : Bytes) (h9 : 9 ≤ src.length) (hbig : maxMessageSize < declaredLen src) :
    decode src = .err "payload-too-large" := by
  unfold decode
  have : ¬ src.length < RESERVED := by rw [reserved_eq.1]; omega
  simp [this, hbig]

/-- The limit is the one in the source (regenerated): 1 MiB. -/
theorem c05_limit_value : maxMessageSize = 1024 * 1024 := by decide

/-- An incomplete frame is waited for: `decode` consumes nothing when it asks for more bytes … -/
theorem c05_incomplete_consumes_nothing (src left : Bytes) (h : decode src = .ok (none, left)) :
    left = src := decode_none_same src left h

/-- … and it does ask for more on every strict prefix of an encoding. -/
theorem c05_incomplete_waits (f : Frame) (hs : f.sendable) (wire pre suf : Bytes)
    (henc : encode f = .ok wire) (hsplit : wire = pre ++ suf) (hsuf : suf ≠ []) :
    decode pre = .ok (none, pre) := by
  obtain ⟨body, hb, hlen, henc'⟩ := encode_sendable f hs
  rw [henc] at henc'
  simp only [Res.ok.injEq] at henc'
  have hl : pre.length + suf.length = 9 + body.length := by
    have := congrArg List.length (hsplit.symm.trans henc')
    simp at this; omega
  have hsl : 0 < suf.length := List.length_pos_iff.mpr hsuf
  unfold decode
  by_cases h9 : pre.length < RESERVED
  · simp [h9]
  · simp only [h9, if_false]
    rw [reserved_eq.1] at h9
    have hd : declaredLen pre = body.length := by
      have h1 : declaredLen (pre ++ suf) = declaredLen pre := declaredLen_append pre suf (by omega)
      rw [← h1, ← hsplit, henc']
      unfold declaredLen
      rw [reserved_eq.2, List.take_append_of_le_length (by simp), List.take_of_length_le (by simp),
        beNat_beBytes 8 _ (Nat.lt_of_le_of_lt hlen max_lt)]
    have h2 : ¬ declaredLen pre > maxMessageSize := by rw [hd]; omega
    have h3 : pre.length - RESERVED < declaredLen pre := by rw [hd, reserved_eq.1]; omega
    simp [h2, h3]

/-- Reassembly: for ALL byte strings (valid or not) and every way of cutting them into chunks, the items a
    `FramedRead` yields are those it yields when the whole string arrives at once. -/
theorem c05_chunking_any_bytes (chunks : List Bytes) :
    run [] (chunks.map Read.data ++ [.eof]) = run [] [.data chunks.flatten, .eof] :=
  run_chunks [] drain_nil chunks [.eof]

/-- A stream of concatenated frame encodings decodes to the same frame sequence however it is cut into
    chunks, followed by a clean end of stream (no error item). -/
theorem c05_chunking (fs : List Frame) (hs : ∀ f ∈ fs, f.sendable) (wire : Bytes)
    (hw : encodeAll fs = some wire) (chunks : List Bytes) (hc : chunks.flatten = wire) :
    run [] (chunks.map Read.data ++ [.eof]) = fs.map Item.frame := by
  rw [c05_chunking_any_bytes, hc]
  simp only [run, List.nil_append, drain_encodeAll fs hs wire hw, drain_nil, List.isEmpty_nil, if_true,
    List.append_nil]

/-- A stream cut short inside a frame yields the complete frames before it and then an error, never a
    wrong frame. -/
theorem c05_truncated (fs : List Frame) (hs : ∀ f ∈ fs, f.sendable) (wire : Bytes)
    (hw : encodeAll fs = some wire) (f : Frame) (hf : f.sendable) (fw pre suf : Bytes)
    (henc : encode f = .ok fw) (hsplit : fw = pre ++ suf) (hsuf : suf ≠ []) (hpre : pre ≠ []) :
    run [] [.data (wire ++ pre), .eof] = fs.map Item.frame ++ [.error "bytes remaining on stream"] := by
  have hdp : drain pre = ([], some pre) :=
    drain_none pre pre (c05_incomplete_waits f hf fw pre suf henc hsplit hsuf)
  simp only [run, List.nil_append]
  rw [drain_append wire pre, drain_encodeAll fs hs wire hw]
  simp only [List.nil_append, hdp, List.append_nil]
  have : pre.isEmpty = false := by cases pre <;> simp_all
  simp [this]

/-- Unbatching the encoding of a list of messages returns the same messages in the same order. -/
theorem c05_batch_roundtrip (ms : List Bytes) (hn : ms.length < 256 ^ 8) (hm : ∀ m ∈ ms, m.length < 256 ^ 8) :
    decodeBatch (encodeBatch ms) = .ok ms := c05_batch_roundtrip_aux ms hn hm

/-- Obligations on the regenerated tables, restated as properties: distinct kinds never share a tag, and
    a kind's tag, length, writer and reader agree. -/
theorem c05_tags_injective (k k' : Kind) (h : tagOf k = tagOf k') : k = k' := by
  have h1 := (tag_roundtrip k).1
  have h2 := (tag_roundtrip k').1
  rw [h] at h1
  rw [h1] at h2
  exact Option.some.inj h2

theorem c05_tables_agree (k : Kind) :
    kindOfTag (tagOf k) = some k ∧ tagOf k < 256 ∧ lenBody k = writeBody k ∧ readBody k = writeBody k :=
  ⟨(tag_roundtrip k).1, (tag_roundtrip k).2, (bodies_agree k).1, (bodies_agree k).2⟩

/-! Non-vacuity: concrete frames of several kinds satisfy `sendable`, with headers, operations and
    non-ASCII names. -/

def exMsg : Frame := ⟨.Message, .val (.struct [.opt (some (.map [(.str [99, 105, 100], .str [48])])), .bytes [1, 2, 3]])⟩
def exPub : Frame := ⟨.RegisterPublisher, .val (.struct [.struct [.str [0xc3, 0xb1, 97], .str [116]], .u64 5,
  .vec [.enum 0 (.str [109]), .enum 1 (.str [])]])⟩

private theorem exMsg_wf : exMsg.wf = true := by
  simp [exMsg, Frame.wf, writeBody, lenBody, tyMessagePayload, hasTy, fieldsTy, allPairsTy, validUtf8, U64LIM]
private theorem exPub_wf : exPub.wf = true := by
  simp [exPub, Frame.wf, writeBody, lenBody, tyPublisherPayload, tyTopicName, tyOperation, hasTy, fieldsTy,
    allTy, variantTy, validUtf8, isCont, U64LIM, U32LIM]
example : exMsg.sendable := by
  refine ⟨exMsg_wf, ?_⟩
  intro body hb
  simp [exMsg, payloadBytes, writeBody, lenBody] at hb
  subst hb
  decide
example : encode exMsg = .ok [0,0,0,0,0,0,0,40, 4, 1, 1,0,0,0,0,0,0,0, 3,0,0,0,0,0,0,0, 99,105,100,
    1,0,0,0,0,0,0,0, 48, 3,0,0,0,0,0,0,0, 1,2,3] := by decide

/-- what kind of item: the tag of a frame, `none` for an error -/
def itemTag : Item → Option Nat
  | .frame f => some (tagOf f.kind)
  | .error _ => none
  | .panic _ => none

example : (run [] [.data [0,0,0,0,0,0,0,0], .data [7, 0,0,0,0], .data [0,0,0,1,5,9], .eof]).map itemTag
    = [some 7, some 5] := by decide +kernel

end Selium.Wire

#print axioms Selium.Wire.c05_roundtrip
#print axioms Selium.Wire.c05_encode_limit
#print axioms Selium.Wire.c05_decode_limit
#print axioms Selium.Wire.c05_limit_value
#print axioms Selium.Wire.c05_incomplete_consumes_nothing
#print axioms Selium.Wire.c05_incomplete_waits
#print axioms Selium.Wire.c05_chunking_any_bytes
#print axioms Selium.Wire.c05_chunking
#print axioms Selium.Wire.c05_truncated
#print axioms Selium.Wire.c05_batch_roundtrip
#print axioms Selium.Wire.c05_tags_injective
#print axioms Selium.Wire.c05_tables_agree
