/-
C09 — Topic routers never spin and never sleep on undone work.

Pub/sub half. "Bounded work per step": one `poll` needs at most `work s + 1` iterations of its loop, where
`work s` counts the registrations queued in the channel and the answers the publisher streams still hold.
"Never sleeps on undone work": whenever a poll returns Pending it is in one of three situations, each with a
waker in place — blocked on a subscriber sink that answered Pending (that sink holds the waker), waiting for
publisher streams (the registration channel has been drained and holds the waker, and every remaining stream
was polled), or idle (same, and nothing at all is outstanding).
-/
import SeliumModel.Lemmas.PubSubHealthy
import SeliumModel.Lemmas.PubSubSettle
import SeliumModel.Lemmas.ReqRepMore
import SeliumModel.Lemmas.ReqRepQuiet
import SeliumModel.Lemmas.ReqRepSettle
import SeliumModel.Lemmas.ReqRepIdle

namespace Selium.Route
open Selium.Sink
variable {α : Type}

/-- One step performs work bounded by the data currently available and then yields. -/
theorem c09_pubsub_terminates (oracle : List Nat) (s : PS α) :
    (pollFuel (work s + 1) oracle s).1 ≠ .outOfFuel :=
  pollFuel_terminates (work s + 1) oracle s (Nat.lt_succ_self _)

/-- … and more fuel changes nothing about that. -/
theorem c09_pubsub_terminates_any (fuel : Nat) (oracle : List Nat) (s : PS α) (h : work s < fuel) :
    (pollFuel fuel oracle s).1 ≠ .outOfFuel := pollFuel_terminates fuel oracle s h

/-- When the router yields without a subscriber in the way, no registration is left waiting in the channel and
    the channel holds the task's waker (so the next registration, or shutdown, wakes it). -/
theorem c09_pubsub_channel_drained (fuel : Nat) (oracle : List Nat) (s : PS α)
    (h : (pollFuel fuel oracle s).1 = .idle ∨ (pollFuel fuel oracle s).1 = .waitingStreams) :
    (pollFuel fuel oracle s).2.1.queue = [] ∧ (pollFuel fuel oracle s).2.1.handleReg = true :=
  pollFuel_drained fuel oracle s h

/-- … and nothing accepted is waiting to be written or flushed. -/
theorem c09_pubsub_no_unflushed_work (fuel : Nat) (oracle : List Nat) (s : PS α)
    (h : (pollFuel fuel oracle s).1 = .idle ∨ (pollFuel fuel oracle s).1 = .waitingStreams) :
    (pollFuel fuel oracle s).2.1.buffered = none ∧
    ∀ k ∈ (pollFuel fuel oracle s).2.1.sinks, k.flushed = k.got.length :=
  pollFuel_quiet fuel oracle s (by rcases h with h | h <;> simp [h])

/-- Subscribers able to accept data never block it. -/
theorem c09_pubsub_calm_never_blocked (fuel : Nat) (oracle : List Nat) (s : PS α) (h : CalmState s) :
    (pollFuel fuel oracle s).1 ≠ .blockedOnSink := pollFuel_calm fuel oracle s h

/-- "An executor that only re-polls on wake-up still delivers and flushes everything." From any reachable state,
    whatever the subscribers' and publishers' scripts (any mix of Ready / Pending / Err answers) and whatever
    `StreamMap`'s random choices in each poll: a wake-driven executor (`runPolls`: the router is polled again
    only because a child that answered Pending fired the waker it was given) needs at most `measure s` further
    polls — the answers the peers still hold — until a poll ends idle or finished; and in the state that poll
    leaves behind nothing is buffered, and every subscriber still registered has been handed, and had flushed,
    every item accepted since its registration. No schedule of Pending answers makes the router sleep on undone
    work or stay blocked for ever. -/
theorem c09_pubsub_wake_driven_executor_delivers (history : List (Event α)) (orc : Nat → List Nat) :
    ∃ n, n ≤ measure (exec history) ∧
      ((pollFuel (work (runPolls orc n (exec history)) + 1) (orc n) (runPolls orc n (exec history))).1 = .idle ∨
       (pollFuel (work (runPolls orc n (exec history)) + 1) (orc n) (runPolls orc n (exec history))).1 = .done) ∧
      (pollFuel (work (runPolls orc n (exec history)) + 1) (orc n) (runPolls orc n (exec history))).2.1.buffered = none ∧
      ∀ k ∈ (pollFuel (work (runPolls orc n (exec history)) + 1) (orc n) (runPolls orc n (exec history))).2.1.sinks,
        k.got = (pollFuel (work (runPolls orc n (exec history)) + 1) (orc n) (runPolls orc n (exec history))).2.1.accepted.drop k.regAt ∧
        k.flushed = k.got.length := by
  obtain ⟨n, hn, hfin⟩ := runPolls_settles (exec history) orc
  refine ⟨n, hn, hfin, ?_⟩
  have hq := pollFuel_quiet (work (runPolls orc n (exec history)) + 1) (orc n) (runPolls orc n (exec history))
    (by rcases hfin with h | h <;> simp [h])
  have hi := pollFuel_inv (work (runPolls orc n (exec history)) + 1) (orc n) (runPolls orc n (exec history))
    (runPolls_inv orc n _ (exec_inv history))
  refine ⟨hq.1, fun k hk => ?_⟩
  have := (hi.1 k hk).2
  rw [hq.1] at this
  simp only [Option.toList, List.append_nil] at this
  exact ⟨this, hq.2 k hk⟩

/-- every poll that ends blocked on a subscriber or waiting for publishers has used up one of the answers its
    peers held; no poll adds one (the progress measure behind the theorem above) -/
theorem c09_pubsub_pending_poll_makes_progress (fuel : Nat) (oracle : List Nat) (s : PS α) :
    measure (pollFuel fuel oracle s).2.1 ≤ measure s ∧
    (((pollFuel fuel oracle s).1 = .blockedOnSink ∨ (pollFuel fuel oracle s).1 = .waitingStreams) →
      measure (pollFuel fuel oracle s).2.1 < measure s) := pollFuel_settle fuel oracle s

/-! Non-vacuity: a subscriber that answers Pending twice to readiness and once to a flush, a publisher with a
    Pending between two messages: the first poll ends blocked, the executor needs three more polls. -/
def exSettle : PS Nat :=
  { queue := [.sink { id := 0, readyQ := [.pending, .pending], flushQ := [.pending] }, .stream [.item 1, .pending, .item 2]] }

example : measure exSettle = 9 ∧ (pollFuel 10 [] exSettle).1 = .blockedOnSink ∧
    (pollFuel 10 [] (runPolls (fun _ => []) 4 exSettle)).1 = .idle ∧
    (runPolls (fun _ => []) 4 exSettle).sinks.map (fun k => (k.got, k.flushed)) = [([1, 2], 2)] := by
  decide +kernel

/-! Non-vacuity: the schedule on which the unrepaired router parked with a registration still queued —
    an idle publisher, then a subscriber registers — now drains the channel. -/
example : (pollFuel 10 [] ({ queue := [.stream [.pending], .sink { id := 0 }] } : PS Nat)).1 = .waitingStreams ∧
    (pollFuel 10 [] ({ queue := [.stream [.pending], .sink { id := 0 }] } : PS Nat)).2.1.queue.length = 0 := by
  decide +kernel

end Selium.Route


/-! ## Request/reply half -/
namespace Selium.Route
open Selium.Sink

/-- One step performs work bounded by the data currently available (`rwork s`: queued registrations, answers
    held by the requestor streams and the replier stream, buffered frames, a pending rejection) and then yields —
    with a replier and no requestor, requestors and no replier, both, or neither. -/
theorem c09_reqrep_terminates (s : RR) : (rrPoll (rwork s + 1) s).1 ≠ .outOfFuel :=
  rrPoll_terminates (rwork s + 1) s (Nat.lt_succ_self _)

/-- Every iteration of the loop either returns from `poll` or strictly reduces the available work. -/
theorem c09_reqrep_iteration_progress (s : RR) :
    match iter s with
    | .ret _ _ => True
    | .next s' => rwork s' < rwork s
    | .again s' => rwork s' < rwork s := iter_progress s

/-- Whenever it yields not blocked on a particular sink (idle, or both sides reported Pending), no registration
    is left in the channel and the channel holds the task's waker. -/
theorem c09_reqrep_channel_drained (fuel : Nat) (s : RR)
    (h : (rrPoll fuel s).1 = .idle ∨ (rrPoll fuel s).1 = .waiting) :
    (rrPoll fuel s).2.queue = [] ∧ (rrPoll fuel s).2.handleReg = true := rrPoll_drained fuel s h

/-! Non-vacuity: the two one-sided states in which the unrepaired loop never returned. -/
/-- "Never sleeps on undone work", request/reply half: when a poll ends `waiting` (every connected side has
    reported Pending, or is absent) no reply is held back, and a successful flush covers everything every
    requestor's sink and the bound replier's sink were handed — with a replier and no requestor, requestors and no
    replier, both, or neither, and for every script of every peer. -/
theorem c09_reqrep_no_unflushed_work (fuel : Nat) (s : RR) (h : (rrPoll fuel s).1 = .waiting) :
    (∀ k ∈ (rrPoll fuel s).2.sinks, k.flushed = k.got.length) ∧ (rrPoll fuel s).2.bufRep = none ∧
    ∀ r, (rrPoll fuel s).2.server = some r → r.sink.flushed = r.sink.got.length :=
  (rrPoll_quiet fuel s).1 h

/-- Across polls: no poll of the request/reply router adds to what its peers can still make it wait for or work on
    (`rmeasure`: queued registrations, what the requestor streams and the replier stream hold, buffered frames, a
    pending rejection, and the readiness / flush / close answers held by every requestor sink, the replier's sink,
    a rejected replier's sink), and a poll that ends blocked on one of those sinks has used one of its answers up. -/
theorem c09_reqrep_blocked_poll_makes_progress (fuel : Nat) (s : RR) :
    rmeasure (rrPoll fuel s).2 ≤ rmeasure s ∧
    ((rrPoll fuel s).1.isBlocked = true → rmeasure (rrPoll fuel s).2 < rmeasure s) := rrPoll_meas fuel s

/-- Hence under a wake-driven executor (polled again only because a sink that answered Pending fired the waker)
    the router is never blocked for ever: from any state, for all scripts of all peers and all `StreamMap` / `HashMap`
    orders, within `rmeasure s` further polls a poll ends idle, waiting or finished — and if it ends waiting, no reply
    is held back and every requestor sink and the replier's sink is flushed. -/
theorem c09_reqrep_wake_driven_executor_unblocks (s : RR) (orc : Nat → List Nat × List Nat) :
    ∃ n, n ≤ rmeasure s ∧
      (rrPoll (rwork (rrRunPolls orc n s) + 1) (withOracles (rrRunPolls orc n s) (orc n))).1.isBlocked = false ∧
      ((rrPoll (rwork (rrRunPolls orc n s) + 1) (withOracles (rrRunPolls orc n s) (orc n))).1 = .waiting →
        Flushed (rrPoll (rwork (rrRunPolls orc n s) + 1) (withOracles (rrRunPolls orc n s) (orc n))).2) := by
  obtain ⟨n, hn, hb⟩ := rrRunPolls_unblocks s orc
  exact ⟨n, hn, hb, (rrPoll_quiet _ _).1⟩

/-- The early park. When nothing is connected and nothing is buffered the router returns Pending without flushing —
    and for every reachable state that is safe: a poll that ends `idle` leaves every requestor sink with everything it
    was handed covered by a completed flush. Behind it is an invariant over all histories (`KL`): a requestor sink can
    hold an unflushed reply only while a replier is bound or a request is buffered, because every way a replier gets
    unbound with no request buffered (its stream ended; its sink failed while being flushed) goes through a completed
    flush of the requestor sinks first. -/
theorem c09_reqrep_idle_means_flushed (history : List REvent) (fuel : Nat) (so ko : List Nat)
    (h : (rrPoll fuel { rrExec history with so := so, ko := ko }).1 = .idle) :
    ∀ k ∈ (rrPoll fuel { rrExec history with so := so, ko := ko }).2.sinks, k.flushed = k.got.length :=
  (rrPoll_good fuel _ (KL_of_eq (t := { rrExec history with so := so, ko := ko }) (rrExec_KL history) rfl rfl rfl rfl)).2 h

/-! Non-vacuity: a requestor whose sink answers Pending to readiness twice and to the flush once, a replier with a
    reply for it: the first three polls end blocked on the requestor, the fourth delivers and flushes the reply
    (both peers have gone by then: it ends idle). -/
def exRRSettle : RR :=
  { queue := [.client { id := 0, readyQ := [.pending, .pending], flushQ := [.pending] } [.pending],
              .server { id := 0 } [.item (.msg (some [("cid", "0")]) 5), .pending]] }

example : (rrPoll 30 exRRSettle).1 = .blockedOnRequestor ∧
    (rrPoll 30 (rrRunPolls (fun _ => ([], [])) 3 exRRSettle)).1 = .idle ∧
    (rrRunPolls (fun _ => ([], [])) 4 exRRSettle).sinks.map (fun k => (k.got, k.flushed)) = [([.msg none 5], 1)] := by
  decide +kernel

example : (rrPoll 20 ({ queue := [.client { id := 0 } [.pending]] } : RR)).1 = .waiting := by decide +kernel
example : (rrPoll 20 ({ queue := [.server { id := 0 } [.pending]] } : RR)).1 = .waiting := by decide +kernel

end Selium.Route

#print axioms Selium.Route.c09_pubsub_terminates
#print axioms Selium.Route.c09_pubsub_terminates_any
#print axioms Selium.Route.c09_pubsub_channel_drained
#print axioms Selium.Route.c09_pubsub_no_unflushed_work
#print axioms Selium.Route.c09_pubsub_calm_never_blocked
#print axioms Selium.Route.c09_pubsub_wake_driven_executor_delivers
#print axioms Selium.Route.c09_pubsub_pending_poll_makes_progress
#print axioms Selium.Route.c09_reqrep_terminates
#print axioms Selium.Route.c09_reqrep_iteration_progress
#print axioms Selium.Route.c09_reqrep_channel_drained
#print axioms Selium.Route.c09_reqrep_no_unflushed_work
#print axioms Selium.Route.c09_reqrep_blocked_poll_makes_progress
#print axioms Selium.Route.c09_reqrep_wake_driven_executor_unblocks
#print axioms Selium.Route.c09_reqrep_idle_means_flushed
