/-
C05 / C06, stated about the code itself: `Gen/CodecFn.lean` is printed by the translator from
`protocol/src/codec.rs` on every run (`validate_payload_length`, `<MessageCodec as Decoder>::decode`). The bridge is
`Lemmas/CodecGen.lean` (generated definition = hand-written `Wire.decode`, for every buffer, up to the text of errors).
`Frame::try_from` enters the generated definition as a parameter and is instantiated with the model's `tryFrom`
(built from the regenerated tag and schema tables).

Property theorems only.
-/
import SeliumModel.Lemmas.CodecGen
import SeliumModel.Props.C05
import SeliumModel.Props.C06

namespace Selium.Wire
open Selium Selium.Gen Selium.Gen.Frame

/-- the translated decoder over the model's `Frame::try_from` -/
def genDecode (src : Bytes) : Rs.Out (Option Frame × Bytes) :=
  CodecFn.decode (fun t b => toOut (tryFrom t b)) src

/-- What the translated decoder does with any buffer is what the model does: same decision, same frame, same
    bytes left in the buffer. -/
theorem c05_generated_decode_is_the_model (src : Bytes) :
    Rs.Out.shape (genDecode src) = Rs.Out.shape (toOut (decode src)) := gen_decode_eq src

/-- Decoding the encoding of any sendable frame with the translated decoder yields that frame and leaves exactly
    the bytes that followed it. -/
theorem c05_generated_decode_roundtrip (f : Frame) (hs : f.sendable) (rest : Bytes) :
    ∃ wire, encode f = .ok wire ∧ Rs.Out.shape (genDecode (wire ++ rest)) = .ok (some f, rest) := by
  obtain ⟨wire, _, henc, _, _, _, hdec⟩ := c05_roundtrip f hs rest
  refine ⟨wire, henc, ?_⟩
  rw [c05_generated_decode_is_the_model, hdec]
  rfl

/-- The translated decoder refuses a length prefix above the limit as soon as the nine header bytes are there,
    whatever else is or is not buffered. -/
theorem c05_generated_decode_limit (src : Bytes) (h9 : 9 ≤ src.length) (hbig : maxMessageSize < declaredLen src) :
    Rs.Out.shape (genDecode src) = .err "" := by
  rw [c05_generated_decode_is_the_model, c05_decode_limit src h9 hbig]
  rfl

/-- When the translated decoder asks for more bytes it has consumed nothing. -/
theorem c05_generated_decode_waits_without_consuming (src left : Bytes)
    (h : Rs.Out.shape (genDecode src) = .ok (none, left)) : left = src := by
  rw [c05_generated_decode_is_the_model] at h
  cases hd : decode src with
  | ok p =>
    rw [hd] at h
    obtain ⟨o, l⟩ := p
    simp only [toOut, Rs.Out.shape, Rs.Out.ok.injEq, Prod.mk.injEq] at h
    obtain ⟨ho, hl⟩ := h
    subst ho; subst hl
    exact c05_incomplete_consumes_nothing src l hd
  | err e => rw [hd] at h; simp [toOut, Rs.Out.shape] at h
  | panic s => rw [hd] at h; simp [toOut, Rs.Out.shape] at h

/-- C06 for the translated decoder: no buffer makes it panic — not in `&src[..8]`, `advance`, `get_u8` or `split_to`
    (each is a `panic` outcome of the generated definition), nor in `Frame::try_from`. -/
theorem c06_generated_decode_never_panics (src : Bytes) : Rs.Out.shape (genDecode src) ≠ .panic "" := by
  rw [c05_generated_decode_is_the_model]
  cases hd : decode src with
  | ok p => simp [toOut, Rs.Out.shape]
  | err e => simp [toOut, Rs.Out.shape]
  | panic s => exact absurd hd (Selium.Client.c06_frame_total src s)

/-- the translated encoder over the model's `Frame::{get_length, get_type, write_to_bytes}` -/
def genEncode (f : Frame) (dst : Bytes) : Rs.Out (Unit × Bytes) :=
  CodecFn.encode (fun f => toOut (getLength f)) getType
    (fun f d => appendTo d (payloadBytes (writeBody f.kind) f.payload)) f dst

/-- What the translated encoder does to any buffer is what the model says: it appends the model's encoding, or
    refuses and the model refuses. -/
theorem c05_generated_encode_is_the_model (f : Frame) (dst : Bytes) :
    Rs.Out.shape (genEncode f dst) = Rs.Out.shape (appendTo dst (encode f)) := gen_encode_eq f dst

/-- The translated encoder refuses every frame whose payload is over the limit (and writes a length prefix for
    no such frame). -/
theorem c05_generated_encode_limit (f : Frame) (body dst : Bytes)
    (hb : payloadBytes (writeBody f.kind) f.payload = .ok body) (hbig : maxMessageSize < body.length) :
    Rs.Out.shape (genEncode f dst) = .err "" := by
  rw [c05_generated_encode_is_the_model, c05_encode_limit f body hb hbig]
  rfl

/-- Translated encoder, then translated decoder: for every sendable frame, whatever was in the write buffer before
    and whatever follows on the wire, decoding what was appended yields the frame and leaves what followed. -/
theorem c05_generated_encode_then_decode (f : Frame) (hs : f.sendable) (rest : Bytes) :
    ∃ wire, Rs.Out.shape (genEncode f []) = .ok ((), wire) ∧
      Rs.Out.shape (genDecode (wire ++ rest)) = .ok (some f, rest) := by
  obtain ⟨wire, henc, hdec⟩ := c05_generated_decode_roundtrip f hs rest
  refine ⟨wire, ?_, hdec⟩
  rw [c05_generated_encode_is_the_model, henc]
  simp [appendTo, Rs.Out.shape]

/-! Non-vacuity: the generated definition computes. -/
set_option maxRecDepth 8192 in
example : Rs.Out.shape (genDecode [0, 0, 0, 0, 0, 0, 0, 0, 7]) = .ok (some ⟨.Ok, .none⟩, []) := by rfl
set_option maxRecDepth 8192 in
example : Rs.Out.shape (genDecode [0, 0, 0, 0, 0, 0x20, 0, 0, 4]) = .err "" := by rfl
set_option maxRecDepth 8192 in
example : Rs.Out.shape (genDecode [0, 0, 0, 0, 0, 0, 0, 2, 5, 1]) = .ok (none, [0, 0, 0, 0, 0, 0, 0, 2, 5, 1]) := by rfl

end Selium.Wire

#print axioms Selium.Wire.c05_generated_decode_is_the_model
#print axioms Selium.Wire.c05_generated_decode_roundtrip
#print axioms Selium.Wire.c05_generated_decode_limit
#print axioms Selium.Wire.c05_generated_decode_waits_without_consuming
#print axioms Selium.Wire.c06_generated_decode_never_panics
#print axioms Selium.Wire.c05_generated_encode_is_the_model
#print axioms Selium.Wire.c05_generated_encode_limit
#print axioms Selium.Wire.c05_generated_encode_then_decode
