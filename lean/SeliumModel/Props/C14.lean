/-
C14 — Payload transforms are lossless: codecs and every compression algorithm/level.

Proved outright: StringCodec, BytesCodec, BincodeCodec (over the schema universe), the batch format, and the
composition used on the wire for ANY compressor that inverts itself. NOT proved: that flate2 / zstd / brotli /
lz4_flex invert themselves — that would need models of DEFLATE, zstd, brotli and LZ4; it enters as the
hypothesis `Compressor.Lossless` and is tested per algorithm x mode x level x payload class by the `codec`
suite (labelled testing in the evidence). Theorems that depend on it carry the suffix `_partial`.
-/
import SeliumModel.Lemmas.Total
import SeliumModel.Client.Codecs
import SeliumModel.Gen.Compression

namespace Selium.Client
open Selium Selium.Bincode Selium.Wire

/-- StringCodec: decoding the encoding of any string returns it. -/
theorem c14_string_roundtrip (s : Bytes) (h : validUtf8 s = true) :
    ∃ b, stringCodec.encode s = .ok b ∧ stringCodec.decode b = .ok s := by
  exact ⟨s, rfl, by simp [stringCodec, h]⟩

/-- StringCodec: bytes that are not valid UTF-8 are an error; and whenever it answers with a value, that
    value is exactly the input bytes read as (valid) UTF-8 — never a wrong value. -/
theorem c14_string_invalid_is_error (b : Bytes) (h : validUtf8 b = false) :
    stringCodec.decode b = .err "utf8" := by simp [stringCodec, h]

theorem c14_string_never_wrong (b s : Bytes) (h : stringCodec.decode b = .ok s) :
    s = b ∧ validUtf8 b = true := by
  simp only [stringCodec] at h
  split at h
  · rename_i hv; simp at h; exact ⟨h.symm, hv⟩
  · simp at h

/-- BytesCodec is the identity both ways. -/
theorem c14_bytes_roundtrip (v : Bytes) :
    ∃ b, bytesCodec.encode v = .ok b ∧ bytesCodec.decode b = .ok v := ⟨v, rfl, rfl⟩

/-- BincodeCodec: for every schema and every value of it. -/
theorem c14_bincode_roundtrip (t : Ty) (v : Val) (h : hasTy v t = true) :
    ∃ b, (bincodeCodec t).encode v = .ok b ∧ (bincodeCodec t).decode b = .ok v := by
  refine ⟨enc v, rfl, ?_⟩
  have := enc_dec v t h []
  simp only [List.append_nil] at this
  simp [bincodeCodec, this]

/-- a codec that returns what was encoded, on the values `good` describes -/
def Codec.Lossless {α} (c : Codec α) (good : α → Prop) : Prop :=
  ∀ a, good a → ∃ b, c.encode a = .ok b ∧ c.decode b = .ok a

theorem stringCodec_lossless : stringCodec.Lossless (fun s => validUtf8 s = true) :=
  fun s h => c14_string_roundtrip s h
theorem bytesCodec_lossless : bytesCodec.Lossless (fun _ => True) :=
  fun v _ => c14_bytes_roundtrip v
theorem bincodeCodec_lossless (t : Ty) : (bincodeCodec t).Lossless (fun v => hasTy v t = true) :=
  fun v h => c14_bincode_roundtrip t v h

theorem noCompression_lossless : noCompression.Lossless := fun b => ⟨b, rfl, rfl⟩

/-- The un-batched wire composition: decode ∘ decompress ∘ compress ∘ encode = id, for any lossless codec
    and any compressor that inverts itself. -/
theorem c14_single_composition_partial {α} (c : Codec α) (good : α → Prop) (hc : c.Lossless good)
    (z : Compressor) (hz : z.Lossless) (a : α) (ha : good a) :
    ∃ w, sendOne c z a = .ok w ∧ recvOne c z w = .ok a := by
  obtain ⟨b, he, hd⟩ := hc a ha
  obtain ⟨w, hcz, hdz⟩ := hz b
  exact ⟨w, by simp [sendOne, he, hcz], by simp [recvOne, hdz, hd]⟩

theorem mapRes_lossless {α} (c : Codec α) (good : α → Prop) (hc : c.Lossless good)
    (items : List α) (hi : ∀ a ∈ items, good a) :
    ∃ bs, mapRes c.encode items = .ok bs ∧ mapRes c.decode bs = .ok items ∧ bs.length = items.length := by
  induction items with
  | nil => exact ⟨[], rfl, rfl, rfl⟩
  | cons a as ih =>
    obtain ⟨b, he, hd⟩ := hc a (hi a (by simp))
    obtain ⟨bs, hes, hds, hl⟩ := ih (fun x hx => hi x (by simp [hx]))
    exact ⟨b :: bs, by simp [mapRes, he, hes], by simp [mapRes, hd, hds], by simp [hl]⟩

/-- The batched wire composition: decode ∘ unbatch ∘ decompress ∘ compress ∘ batch ∘ encode = id, items in
    order. (Sizes below 2^64 are the range of `usize`.) -/
theorem c14_batch_composition_partial {α} (c : Codec α) (good : α → Prop) (hc : c.Lossless good)
    (z : Compressor) (hz : z.Lossless) (items : List α) (hi : ∀ a ∈ items, good a)
    (hn : items.length < 256 ^ 8)
    (hsz : ∀ bs, mapRes c.encode items = .ok bs → ∀ m ∈ bs, m.length < 256 ^ 8) :
    ∃ w, sendBatch c z items = .ok w ∧ recvBatch c z w = .ok items := by
  obtain ⟨bs, hes, hds, hl⟩ := mapRes_lossless c good hc items hi
  obtain ⟨w, hcz, hdz⟩ := hz (encodeBatch bs)
  refine ⟨w, by simp [sendBatch, hes, hcz], ?_⟩
  have hb := c05_batch_roundtrip_aux bs (by rw [hl]; exact hn) (hsz bs hes)
  simp [recvBatch, hdz, hb, hds]

/-- Without compression the composition is lossless with no hypothesis about any library. -/
theorem c14_batch_composition_uncompressed {α} (c : Codec α) (good : α → Prop) (hc : c.Lossless good)
    (items : List α) (hi : ∀ a ∈ items, good a) (hn : items.length < 256 ^ 8)
    (hsz : ∀ bs, mapRes c.encode items = .ok bs → ∀ m ∈ bs, m.length < 256 ^ 8) :
    ∃ w, sendBatch c noCompression items = .ok w ∧ recvBatch c noCompression w = .ok items :=
  c14_batch_composition_partial c good hc noCompression noCompression_lossless items hi hn hsz

/-! ### which library halves selium pairs (extracted from `standard/src/compression/*` on every run) -/

open Selium.Gen.Compression in
/-- flate2 as trusted: per container format an encoder / decoder pair that invert each other when the encoder
    is finished and the decoder reads to the end (what `deflateEncoderFinished` / `deflateDecoderReadsAll` say
    the code does). Nothing is assumed about a decoder fed the *other* format. -/
structure Flate where
  enc : Format → Bytes → Bytes
  dec : Format → Bytes → Res Bytes
  inv : ∀ f b, dec f (enc f b) = .ok b

open Selium.Gen.Compression in
/-- `DeflateComp { library := lc }` on the sending side with `DeflateDecomp { library := ld }` on the receiving
    side, the format of each half being what the source's `match self.library` selects -/
def deflatePair (F : Flate) (lc ld : Library) : Compressor where
  compress b := .ok (F.enc (deflateCompFormat lc) b)
  decompress c := F.dec (deflateDecompFormat ld) c

open Selium.Gen.Compression in
/-- The two halves select the same container format for the same library, the named constructors of the two
    halves agree, every encoder is finished / flushed before its bytes are taken and every decoder reads the
    whole input (all facts regenerated from the source). -/
theorem c14_library_halves_paired :
    (∀ l, deflateCompFormat l = deflateDecompFormat l) ∧
    deflateCompCtor_gzip = deflateDecompCtor_gzip ∧ deflateCompCtor_zlib = deflateDecompCtor_zlib ∧
    deflateCompCtor_gzip ≠ deflateCompCtor_zlib ∧
    deflateEncoderFinished = true ∧ deflateDecoderReadsAll = true ∧
    zstdCompWhole = true ∧ zstdDecompWhole = true ∧ lz4CompWhole = true ∧ lz4DecompWhole = true ∧
    brotliCompWhole = true ∧ brotliDecompWhole = true := by
  refine ⟨fun l => by cases l <;> rfl, ?_⟩
  decide

open Selium.Gen.Compression in
/-- Hence selium's DEFLATE pair is lossless for either library given only flate2's own per-format inverse:
    the hypothesis `Compressor.Lossless` of the composition theorems is discharged for gzip and zlib up to the
    library. -/
theorem c14_deflate_lossless_partial (F : Flate) (l : Library) : (deflatePair F l l).Lossless := by
  intro b
  refine ⟨F.enc (deflateCompFormat l) b, rfl, ?_⟩
  show F.dec (deflateDecompFormat l) (F.enc (deflateCompFormat l) b) = .ok b
  rw [← c14_library_halves_paired.1 l]
  exact F.inv _ b

/-! Non-vacuity -/
example : validUtf8 [0xe6, 0x97, 0xa5, 0x41] = true := by decide
example : stringCodec.decode [0xc0, 0x80] = .err "utf8" := by decide
example : stringCodec.decode [0xed, 0xa0, 0x80] = .err "utf8" := by decide

end Selium.Client

#print axioms Selium.Client.c14_string_roundtrip
#print axioms Selium.Client.c14_string_invalid_is_error
#print axioms Selium.Client.c14_string_never_wrong
#print axioms Selium.Client.c14_bytes_roundtrip
#print axioms Selium.Client.c14_bincode_roundtrip
#print axioms Selium.Client.stringCodec_lossless
#print axioms Selium.Client.bytesCodec_lossless
#print axioms Selium.Client.bincodeCodec_lossless
#print axioms Selium.Client.noCompression_lossless
#print axioms Selium.Client.c14_single_composition_partial
#print axioms Selium.Client.mapRes_lossless
#print axioms Selium.Client.c14_batch_composition_partial
#print axioms Selium.Client.c14_batch_composition_uncompressed
#print axioms Selium.Client.c14_library_halves_paired
#print axioms Selium.Client.c14_deflate_lossless_partial
