/-
C13, stated about the code itself: `Gen/BackoffFn.lean` is printed by the translator from
`client/src/keep_alive/backoff_strategy.rs` on every run (`saturating_mul`, `BackoffStrategyIter::next`), and the
schedule drawn from the *generated* `next` is the one the property prescribes. The bridge is
`Lemmas/BackoffGen.lean` (generated definitions = hand-written model, for every argument).

Property theorems only.
-/
import SeliumModel.Lemmas.BackoffGen
import SeliumModel.Props.C13

namespace Selium.Backoff
open Selium.Gen

/-- Draw at most `n` attempts from the generated `next`, starting with counter `cur`
    (what a `for attempt in strategy` loop does with the real iterator). -/
def genTake (c : Cfg) : Nat → Nat → List BackoffFn.NextAttempt
  | 0, _ => []
  | n + 1, cur =>
    match BackoffFn.next cur c.maxAttempts c.maxDuration c.step (toGenStrategy c.strategy) with
    | (none, _) => []
    | (some a, cur') => a :: genTake c n cur'

/-- Whatever is drawn from the generated iterator is what is drawn from the model. -/
theorem c13_generated_code_is_the_model (c : Cfg) (hatt : c.maxAttempts ≤ U32MAX) :
    ∀ n cur, 1 ≤ cur → genTake c n cur = (take c n cur).map toGenAttempt := by
  intro n
  induction n with
  | zero => intro cur _; rfl
  | succ n ih =>
    intro cur h1
    unfold genTake take
    rw [gen_next_eq c cur h1 hatt]
    cases hn : next c cur with
    | none => rfl
    | some p =>
      obtain ⟨a, cur'⟩ := p
      have hc : cur' = cur + 1 := by
        unfold next at hn
        split at hn
        · cases hn
        · cases hn; rfl
      simp only [List.map_cons]
      rw [ih cur' (by omega)]

/-- The schedule of the translated code, in one equation (for every strategy, step, factor, attempt count
    and optional maximum within the ranges of the Rust types): attempt `i+1` carries number `i+1`, the configured
    `max_attempts`, and the saturated, clamped law. -/
theorem c13_generated_code_schedule (c : Cfg) (hstep : c.step ≤ DMAX) (hatt : c.maxAttempts ≤ U32MAX) :
    genTake c (c.maxAttempts + 1) 1 = (List.range c.maxAttempts).map (fun i =>
      ({ duration := specDelay c (i + 1), attempt_num := i + 1, max_attempts := c.maxAttempts }
        : BackoffFn.NextAttempt)) := by
  rw [c13_generated_code_is_the_model c hatt _ 1 (Nat.le_refl 1)]
  have := c13_schedule c hstep hatt
  unfold schedule at this
  rw [this, List.map_map]
  rfl

/-- The translated iterator hands out exactly `max_attempts` items, whatever the strategy, step, factor and maximum
    (also where the delay saturates): the retry budget of C12 is the whole schedule. -/
theorem c13_generated_code_length (c : Cfg) (hatt : c.maxAttempts ≤ U32MAX) :
    (genTake c (c.maxAttempts + 1) 1).length = c.maxAttempts := by
  rw [c13_generated_code_is_the_model c hatt _ 1 (Nat.le_refl 1), List.length_map]
  exact c13_length c

/-- No delay handed out by the translated iterator exceeds the configured maximum. -/
theorem c13_generated_code_clamped (c : Cfg) (m : Nat) (hm : c.maxDuration = some m) (hatt : c.maxAttempts ≤ U32MAX) :
    ∀ a ∈ genTake c (c.maxAttempts + 1) 1, a.duration ≤ m := by
  intro a ha
  rw [c13_generated_code_is_the_model c hatt _ 1 (Nat.le_refl 1)] at ha
  simp only [List.mem_map] at ha
  obtain ⟨b, hb, rfl⟩ := ha
  exact c13_clamped c m hm b hb

/-- Nothing wraps in the translated iterator: every delay is a representable `Duration`. -/
theorem c13_generated_code_representable (c : Cfg) (hstep : c.step ≤ DMAX) (hatt : c.maxAttempts ≤ U32MAX) :
    ∀ a ∈ genTake c (c.maxAttempts + 1) 1, a.duration ≤ DMAX := by
  intro a ha
  rw [c13_generated_code_is_the_model c hatt _ 1 (Nat.le_refl 1)] at ha
  simp only [List.mem_map] at ha
  obtain ⟨b, hb, rfl⟩ := ha
  exact c13_representable c hstep hatt b hb

/-- The translated iterator is finite and stays exhausted: past `max_attempts` it yields nothing and leaves its
    counter alone. -/
theorem c13_generated_code_exhausted (c : Cfg) (cur : Nat) (h : c.maxAttempts < cur) :
    BackoffFn.next cur c.maxAttempts c.maxDuration c.step (toGenStrategy c.strategy) = (none, cur) := by
  unfold BackoffFn.next
  simp [h]

/-- The translated `saturating_mul` is the product saturated at `Duration::MAX`, for all arguments. -/
theorem c13_generated_saturating_mul (d m : Nat) : BackoffFn.saturating_mul d m = min (d * m) DMAX := by
  rw [gen_saturating_mul_eq, satMul_spec]

/-! Non-vacuity: the generated definitions compute (the configurations the unrepaired code panicked on). -/
example : (genTake { strategy := .exponential 2, step := 2 * NANOS, maxAttempts := 6,
                     maxDuration := some (8 * NANOS) } 7 1).map (·.duration)
    = [2 * NANOS, 4 * NANOS, 8 * NANOS, 8 * NANOS, 8 * NANOS, 8 * NANOS] := by decide
example : ((genTake { strategy := .exponential 2, step := NANOS, maxAttempts := 70,
                      maxDuration := none } 71 1).map (·.duration)).getLast? = some DMAX := by decide

end Selium.Backoff

#print axioms Selium.Backoff.c13_generated_code_is_the_model
#print axioms Selium.Backoff.c13_generated_code_schedule
#print axioms Selium.Backoff.c13_generated_code_length
#print axioms Selium.Backoff.c13_generated_code_clamped
#print axioms Selium.Backoff.c13_generated_code_representable
#print axioms Selium.Backoff.c13_generated_code_exhausted
#print axioms Selium.Backoff.c13_generated_saturating_mul
