/-
C11 — Every stream open is answered truthfully; no frame sequence breaks the server.

Router half (this file, first part): no sequence of well-formed frames of any of the eight kinds — unexpected
kinds mid-stream from a requestor or a replier, requests that exceed the frame limit only once tagged (the
replier's sink then refuses them) — makes a router's `poll` panic, spin or stop serving: `poll` is a total
function of the state in the model, returns for every input (`c11_reqrep_total`, `c11_pubsub_total`), skips
frames of unexpected kinds and leaves every other exchange untouched.
Registration half: `Server/Registry.lean` (see second part) and the end-to-end `registry` suite with raw peers.
-/
import SeliumModel.Lemmas.PubSubHealthy
import SeliumModel.Lemmas.ReqRepMore

namespace Selium.Route
open Selium.Sink

/-- request/reply router: any frames, any peers, any state — `poll` returns with a real outcome -/
theorem c11_reqrep_total (s : RR) : (rrPoll (rwork s + 1) s).1 ≠ .outOfFuel :=
  rrPoll_terminates (rwork s + 1) s (Nat.lt_succ_self _)

/-- pub/sub router likewise (it never inspects frames: every kind is forwarded as an opaque item) -/
theorem c11_pubsub_total {α : Type} (oracle : List Nat) (s : PS α) : (pollFuel (work s + 1) oracle s).1 ≠ .outOfFuel :=
  pollFuel_terminates (work s + 1) oracle s (Nat.lt_succ_self _)

/-- a frame of an unexpected kind from a requestor (Ok, Error, batch, registration …) is skipped -/
theorem c11_unexpected_request_frame_skipped (s : RR) (sid k : Nat) (es : List (StreamSt RFrame)) (evs : List (Ev RFrame))
    (h : smPoll (s.so.headD 0) s.streams = (.item sid (.other k), es, evs)) :
    ∃ s', partF s = .next s' ∧ s'.sinks = s.sinks ∧ s'.server = s.server ∧ s'.bufReq = s.bufReq ∧
      s'.bufRep = s.bufRep ∧ s'.taken = s.taken ∧ s'.streams = es := partF_skips_unexpected s sid k es evs h

/-- a frame of an unexpected kind from the replier is discarded by the `Router` sink without touching any
    requestor -/
theorem c11_unexpected_reply_frame_discarded (k : Nat) (es : List (Child RFrame)) :
    (routerSend (.other k) es).2.1 = es ∧ (routerSend (.other k) es).2.2 = [] := ⟨rfl, rfl⟩

/-- a request that fits the limit only before the routing tag is added is refused by the replier's sink: it is
    dropped, the replier stays bound, the router carries on -/
theorem c11_oversize_after_tag (s : RR) (f : RFrame) (r : Replier) (hf : s.bufReq = some f) (hr : s.server = some r)
    (he : r.sink.readyAns = .ready) (hs : r.sink.afterReady.sendOk = false) :
    ∃ s', partA s = .next s' ∧ s'.server.isSome ∧ s'.bufReq = none ∧ s'.lost = s.lost ++ [f] ∧ s'.handed = s.handed :=
  partA_refused_request_dropped s f r hf hr he hs

/-! Non-vacuity: a requestor that sends `Ok` then a request, a replier that sends `Ok` then the reply — the
    sequences that panicked the unrepaired router. -/
def exOdd : List REvent :=
  [.enqueue (.client { id := 0 } [.item (.other 1), .item (.msg none 7), .pending]),
   .enqueue (.server { id := 0 } [.item (.other 1), .item (.msg (some [("cid", "0")]) 8), .pending, .pending]),
   .poll 50 [] [], .poll 50 [] []]

example : (rrExec exOdd).handed = [(0, .msg (some [("cid", "0")]) 7)] ∧
    (rrExec exOdd).sinks.map (·.got) = [[.msg none 8]] := by decide +kernel

end Selium.Route

#print axioms Selium.Route.c11_reqrep_total
#print axioms Selium.Route.c11_pubsub_total
#print axioms Selium.Route.c11_unexpected_request_frame_skipped
#print axioms Selium.Route.c11_unexpected_reply_frame_discarded
#print axioms Selium.Route.c11_oversize_after_tag
