/-
C11 — Every stream open is answered truthfully; no frame sequence breaks the server.

Router half (this file, first part): no sequence of well-formed frames of any of the eight kinds — unexpected
kinds mid-stream from a requestor or a replier, requests that exceed the frame limit only once tagged (the
replier's sink then refuses them) — makes a router's `poll` panic, spin or stop serving: `poll` is a total
function of the state in the model, returns for every input (`c11_reqrep_total`, `c11_pubsub_total`), skips
frames of unexpected kinds and leaves every other exchange untouched.
Registration half: `Server/Registry.lean` (see second part) and the end-to-end `registry` suite with raw peers.
-/
import SeliumModel.Lemmas.PubSubHealthy
import SeliumModel.Lemmas.ReqRepMore
import SeliumModel.Server.Registry
import SeliumModel.Lemmas.ReqRepCause

namespace Selium.Route
open Selium.Sink

/-- request/reply router: any frames, any peers, any state — `poll` returns with a real outcome -/
theorem c11_reqrep_total (s : RR) : (rrPoll (rwork s + 1) s).1 ≠ .outOfFuel :=
  rrPoll_terminates (rwork s + 1) s (Nat.lt_succ_self _)

/-- pub/sub router likewise (it never inspects frames: every kind is forwarded as an opaque item) -/
theorem c11_pubsub_total {α : Type} (oracle : List Nat) (s : PS α) : (pollFuel (work s + 1) oracle s).1 ≠ .outOfFuel :=
  pollFuel_terminates (work s + 1) oracle s (Nat.lt_succ_self _)

/-- a frame of an unexpected kind from a requestor (Ok, Error, batch, registration …) is skipped -/
theorem c11_unexpected_request_frame_skipped (s : RR) (sid k : Nat) (es : List (StreamSt RFrame)) (evs : List (Ev RFrame))
    (h : smPoll (s.so.headD 0) s.streams = (.item sid (.other k), es, evs)) :
    ∃ s', partF s = .next s' ∧ s'.sinks = s.sinks ∧ s'.server = s.server ∧ s'.bufReq = s.bufReq ∧
      s'.bufRep = s.bufRep ∧ s'.taken = s.taken ∧ s'.streams = es := partF_skips_unexpected s sid k es evs h

/-- a frame of an unexpected kind from the replier is discarded by the `Router` sink without touching any
    requestor -/
theorem c11_unexpected_reply_frame_discarded (k : Nat) (es : List (Child RFrame)) :
    (routerSend (.other k) es).2.1 = es ∧ (routerSend (.other k) es).2.2 = [] := ⟨rfl, rfl⟩

/-- a request that fits the limit only before the routing tag is added is refused by the replier's sink: it is
    dropped, the replier stays bound, the router carries on -/
theorem c11_oversize_after_tag (s : RR) (f : RFrame) (r : Replier) (hf : s.bufReq = some f) (hr : s.server = some r)
    (he : r.sink.readyAns = .ready) (hs : r.sink.afterReady.sendOk = false) :
    ∃ s', partA s = .next s' ∧ s'.server.isSome ∧ s'.bufReq = none ∧ s'.lost = s.lost ++ [f] ∧ s'.handed = s.handed :=
  partA_refused_request_dropped s f r hf hr he hs

/-! Non-vacuity: a requestor that sends `Ok` then a request, a replier that sends `Ok` then the reply — the
    sequences that panicked the unrepaired router. -/
def exOdd : List REvent :=
  [.enqueue (.client { id := 0 } [.item (.other 1), .item (.msg none 7), .pending]),
   .enqueue (.server { id := 0 } [.item (.other 1), .item (.msg (some [("cid", "0")]) 8), .pending, .pending]),
   .poll 50 [] [], .poll 50 [] []]

example : (rrExec exOdd).handed = [(0, .msg (some [("cid", "0")]) 7)] ∧
    (rrExec exOdd).sinks.map (·.got) = [[.msg none 8]] := by decide +kernel

/-- "never accepted and then silently abandoned", router half: a requestor or replier socket the router has adopted is
    let go of only for a cause of its own — the requestor's sink failed; the replier's stream ended, its sink failed, or
    it was told that another replier is bound. What any other peer does costs nobody its place. -/
theorem c11_adopted_socket_not_abandoned (history : List REvent) :
    (∀ k, REv.c (.dropped k) ∈ (rrExec history).trace → ∃ e ∈ (rrExec history).trace, causeOfC k e) ∧
    (∀ n k, REv.v n (.dropped k) ∈ (rrExec history).trace → ∃ e ∈ (rrExec history).trace, causeOf n e) :=
  ⟨rrExec_justifiedC history, rrExec_justified history⟩

end Selium.Route


/-! ## Registration half: `handle_stream` -/
namespace Selium.Server
open Selium Selium.Topic Selium.Gen.Server

/-- obligations on the facts read from the source -/
theorem checks_pattern : checksPattern = true ∧ topicPatternMismatch.isSome = true := by decide

/-- Every stream that is acknowledged with Ok is served in the role it asked for: its socket is handed to the
    router of that topic, which exists and has the pattern of that role. -/
theorem c11_ok_means_served (r : Registry) (f : Option First) (h : (handleStream r f).answer = .ok) :
    ∃ role name, f = some (.register role name) ∧ (handleStream r f).enqueued = some (name, role) ∧
      (handleStream r f).registry.lookup name = some role.pattern ∧ (handleStream r f).panicked = false := by
  unfold handleStream at h ⊢
  cases f with
  | none => simp at h
  | some fr =>
    cases fr with
    | other => simp at h
    | register role name =>
      simp only at h ⊢
      by_cases hv : (!isValid name.ns name.tp) = true
      · simp [hv] at h
      · simp only [hv, Bool.false_eq_true, if_false] at h ⊢
        cases hl : r.lookup name with
        | none =>
          simp only [hl] at h ⊢
          refine ⟨role, name, rfl, rfl, ?_, trivial⟩
          unfold Registry.lookup at hl ⊢
          have hnone : r.find? (·.1 = name) = none := by
            cases hf : r.find? (·.1 = name) with
            | none => rfl
            | some x => simp [hf] at hl
          simp [List.find?_append, hnone]
        | some p =>
          simp only [hl] at h ⊢
          by_cases hp : p = role.pattern
          · simp only [hp, if_true] at h ⊢
            exact ⟨role, name, rfl, rfl, by rw [hl, hp], trivial⟩
          · simp [hp, checks_pattern.1] at h

/-- A registration that is not served is refused explicitly, with an error frame carrying a code: an invalid
    name with INVALID_TOPIC_NAME, a role of the other messaging pattern with TOPIC_PATTERN_MISMATCH; the
    handler never panics and nothing is enqueued. -/
theorem c11_refusal_has_code (r : Registry) (role : Role) (name : Name)
    (h : (handleStream r (some (.register role name))).answer ≠ .ok) :
    ((handleStream r (some (.register role name))).answer = .error invalidTopicName ∨
     (handleStream r (some (.register role name))).answer = .error (topicPatternMismatch.getD unknownError)) ∧
    (handleStream r (some (.register role name))).enqueued = none ∧
    (handleStream r (some (.register role name))).panicked = false ∧
    (handleStream r (some (.register role name))).registry = r := by
  unfold handleStream at h ⊢
  simp only at h ⊢
  by_cases hv : (!isValid name.ns name.tp) = true
  · simp [hv]
  · simp only [hv, Bool.false_eq_true, if_false] at h ⊢
    cases hl : r.lookup name with
    | none => simp [hl] at h
    | some p =>
      simp only [hl] at h ⊢
      by_cases hp : p = role.pattern
      · simp [hp] at h
      · simp [hp, checks_pattern.1]

/-- The server applies the topic-name rule of C07 to names arriving on the wire: INVALID_TOPIC_NAME exactly
    for the names `is_valid` rejects, and no topic is created for them. -/
theorem c07_server_enforces_rule (r : Registry) (role : Role) (name : Name) :
    ((handleStream r (some (.register role name))).answer = .error invalidTopicName ↔ isValid name.ns name.tp = false) ∨
    topicPatternMismatch.getD unknownError = invalidTopicName := by
  left
  unfold handleStream
  simp only
  cases hv : isValid name.ns name.tp with
  | false => simp
  | true =>
    simp only [Bool.not_true, Bool.false_eq_true, if_false]
    cases hl : r.lookup name with
    | none => simp
    | some p =>
      simp only
      by_cases hp : p = role.pattern
      · simp [hp]
      · simp only [hp, if_false, checks_pattern.1, if_true]
        have : topicPatternMismatch.getD unknownError ≠ invalidTopicName := by decide
        simp [this]

/-- Two different names never share a router: handling a stream for one name leaves every other name's entry
    (its pattern, hence its router and channel) untouched, and a socket is only ever enqueued to the channel of
    the name in its own registration frame. -/
theorem c11_registry_isolation (r : Registry) (f : Option First) (other : Name)
    (h : ∀ role, f ≠ some (.register role other)) :
    (handleStream r f).registry.lookup other = r.lookup other ∧
    ∀ role, (handleStream r f).enqueued ≠ some (other, role) := by
  unfold handleStream
  cases f with
  | none => exact ⟨rfl, fun _ => by simp⟩
  | some fr =>
    cases fr with
    | other => exact ⟨rfl, fun _ => by simp⟩
    | register role name =>
      have hne : name ≠ other := fun heq => h role (by rw [heq])
      simp only
      by_cases hv : (!isValid name.ns name.tp) = true
      · simp [hv]
      · simp only [hv, Bool.false_eq_true, if_false]
        cases hl : r.lookup name with
        | none =>
          simp only
          refine ⟨?_, fun role' => by simp [hne]⟩
          unfold Registry.lookup
          simp [List.find?_append, hne]
        | some p =>
          simp only
          by_cases hp : p = role.pattern
          · simp [hp, hne]
          · simp [hp, checks_pattern.1]

/-- A first frame that is not a registration asks for no role: the stream is closed without Ok (the client
    library reports STREAM_CLOSED_PREMATURELY) and nothing changes. -/
theorem c11_non_registration_closed (r : Registry) :
    (handleStream r (some .other)).answer = .closed ∧ (handleStream r (some .other)).registry = r ∧
    (handleStream r (some .other)).enqueued = none := ⟨rfl, rfl, rfl⟩

end Selium.Server

#print axioms Selium.Route.c11_reqrep_total
#print axioms Selium.Route.c11_pubsub_total
#print axioms Selium.Route.c11_unexpected_request_frame_skipped
#print axioms Selium.Route.c11_unexpected_reply_frame_discarded
#print axioms Selium.Route.c11_oversize_after_tag
#print axioms Selium.Route.c11_adopted_socket_not_abandoned
#print axioms Selium.Server.checks_pattern
#print axioms Selium.Server.c11_ok_means_served
#print axioms Selium.Server.c11_refusal_has_code
#print axioms Selium.Server.c07_server_enforces_rule
#print axioms Selium.Server.c11_registry_isolation
#print axioms Selium.Server.c11_non_registration_closed
