/-
C08 — A failing, slow or departed peer is dropped without harming the others.

Pub/sub half (this file, first part): corollaries of the C01 invariant, which is proved for ALL scripts including
an error at every operation of every peer, plus: `FanoutMany` never panics or returns an error (its result type
in the model has no such case and the repaired `start_send` is total), only a peer that answered with an error
is removed, and a peer that never fails is never removed. Request/reply half: second part (see there).
-/
import SeliumModel.Lemmas.PubSubHealthy
import SeliumModel.Lemmas.ReqRepMore
import SeliumModel.Lemmas.ReqRepCause
import SeliumModel.Lemmas.ReqRepQuietDrop
import SeliumModel.Lemmas.ReqRepQuietDropC

namespace Selium.Route
open Selium.Sink
variable {α : Type}

/-- `FanoutMany::{poll_ready, poll_flush, poll_close}`: every entry kept is an old entry (untouched, or advanced by
    an answer that was not an error); `start_send`: every entry kept is an old entry that accepted the item. -/
theorem c08_fanout_poll_keeps_only_old (ans : Child α → Ans) (step : Child α → Child α) (ev : Nat → Ans → Ev α)
    (sinks : List (Child α)) :
    ∀ c' ∈ (pollLoop ans step ev [] sinks).2.1, ∃ c ∈ sinks, c' = c ∨ (c' = step c ∧ ans c ≠ .err) := by
  intro c' h
  rcases pollLoop_mem ans step ev [] sinks c' h with h0 | h1
  · simp at h0
  · exact h1

theorem c08_fanout_send_isolation (x : α) (sinks : List (Child α)) :
    (∀ c' ∈ (startSend x sinks).1, ∃ c ∈ sinks, c.sendOk = true ∧ c' = c.afterSend x) ∧
    (∀ c ∈ sinks, c.sendOk = true → c.afterSend x ∈ (startSend x sinks).1) := by
  constructor
  · intro c' h
    rcases sendLoop_mem x [] sinks c' h with h0 | h1
    · simp at h0
    · exact h1
  · exact (sendLoop_keeps x [] sinks).2

/-- A subscriber that never fails stays subscribed through any poll, whichever other subscribers, publishers
    fail, at whichever operation and point in the message sequence … -/
theorem c08_healthy_subscriber_survives (fuel : Nat) (oracle : List Nat) (s : PS α) (id : Nat)
    (h : ∃ k ∈ s.sinks, k.id = id ∧ k.Healthy) :
    ∃ k ∈ (pollFuel fuel oracle s).2.1.sinks, k.id = id ∧ k.Healthy :=
  pollFuel_present fuel oracle s id h

/-- … and (C01 invariant, which does not depend on anybody being healthy) it keeps receiving every message
    exactly once in order: the invariant holds for the survivors after any poll from any good state. -/
theorem c08_survivors_unharmed (fuel : Nat) (oracle : List Nat) (s : PS α) (h : Inv s) :
    ∀ k ∈ (pollFuel fuel oracle s).2.1.sinks,
      k.got ++ (pollFuel fuel oracle s).2.1.buffered.toList = (pollFuel fuel oracle s).2.1.accepted.drop k.regAt :=
  fun k hk => ((pollFuel_inv fuel oracle s h).1 k hk).2

/-- Polling the pub/sub router never panics: every modelled operation is total and its outcome is one of
    Pending (three kinds), Ready or — excluded by `c09_pubsub_terminates` — fuel exhaustion. A publisher stream
    that yields an error or ends only changes `streams` (see `streamPart`): sinks and accepted items are
    untouched by it. -/
theorem c08_pubsub_outcomes (fuel : Nat) (oracle : List Nat) (s : PS α) :
    (pollFuel fuel oracle s).1 = .blockedOnSink ∨ (pollFuel fuel oracle s).1 = .idle ∨
    (pollFuel fuel oracle s).1 = .waitingStreams ∨ (pollFuel fuel oracle s).1 = .done ∨
    (pollFuel fuel oracle s).1 = .outOfFuel := by
  cases (pollFuel fuel oracle s).1 <;> simp

/-! Non-vacuity: three subscribers, the first fails in `start_send` (the case that made the unrepaired
    `FanoutMany` index out of bounds); the other two get the item. -/
example : ((startSend 5 [({ id := 0, sendQ := [false] } : Child Nat), { id := 1 }, { id := 2 }]).1.map
    fun c => (c.id, c.got)) = [(2, [5]), (1, [5])] := by decide +kernel

end Selium.Route


/-! ## Request/reply half -/
namespace Selium.Route
open Selium.Sink

/-- Polling the request/reply router never panics and always returns: from any state, for any frames and any
    ready/pending/error behaviour of any peer, with enough fuel for the available work the outcome is one of the
    five kinds of Pending or Ready. (The unrepaired router panicked on a failing replier sink and on
    non-message frames, and did not return at all with only one side connected.) -/
theorem c08_reqrep_always_returns (s : RR) : (rrPoll (rwork s + 1) s).1 ≠ .outOfFuel :=
  rrPoll_terminates (rwork s + 1) s (Nat.lt_succ_self _)

/-- A replier whose sink fails is simply unbound (so that another replier can bind): nothing of the requestors
    is touched and the pending request is kept for the next replier. -/
theorem c08_failed_replier_is_unbound (s : RR) (f : RFrame) (r : Replier) (hf : s.bufReq = some f)
    (hr : s.server = some r) (he : r.sink.readyAns = .err) :
    ∃ s', partA s = .next s' ∧ s'.server = none ∧ s'.bufReq = some f ∧ s'.sinks = s.sinks ∧ s'.streams = s.streams :=
  partA_unbinds_failed_replier s f r hf hr he

/-- Whatever some requestors' sinks and streams do (fail, stall, send garbage), every connected requestor has
    been handed exactly the replies addressed to it and no reply taken from the replier is lost: the C02
    invariant is preserved by every poll from every state satisfying it. -/
theorem c08_requestors_isolated (fuel : Nat) (s : RR) (h : RepInv s) : RepInv (rrPoll fuel s).2 :=
  rrPoll_rep fuel s h

/-- A requestor sink that refuses a reply evicts only that requestor. -/
theorem c08_failing_requestor_only_evicted (f : RFrame) (es : List (Child RFrame)) (cid : Nat) (g : RFrame)
    (h : (routerSend f es).1 = .refused cid g) : (routerSend f es).2.1 = es.filter (·.id ≠ cid) :=
  routerSend_refused f es cid g h

/-- Only the failing peer is removed, for every history of registrations, shutdown and polls, whatever every peer's
    sink and stream answer, in whatever order the maps are iterated: whenever the router lets go of a replier socket,
    that socket's own stream had ended, or its own sink had failed, or it was being turned away as a second replier
    (`causeOf`) — nothing a requestor does (failing, leaving, arriving, a reply that can no longer be routed) is among
    the causes … -/
theorem c08_replier_dropped_only_for_cause (history : List REvent) (n k : Nat)
    (h : REv.v n (.dropped k) ∈ (rrExec history).trace) : ∃ e ∈ (rrExec history).trace, causeOf n e :=
  rrExec_justified history n k h

/-- … and whenever it lets go of a requestor's sink, that sink itself had answered with an error (at readiness, at a
    flush, or to a reply handed to it): nothing the replier or another requestor does is among the causes. -/
theorem c08_requestor_dropped_only_when_its_own_sink_failed (history : List REvent) (k : Nat)
    (h : REv.c (.dropped k) ∈ (rrExec history).trace) : ∃ e ∈ (rrExec history).trace, causeOfC k e :=
  rrExec_justifiedC history k h

/-- "A failed replier is simply unbound": once the router has let go of a replier socket — it failed, it left, it was turned
    away — nothing in the rest of the child-call trace concerns that socket: no readiness, send, flush or close is asked of
    it, nothing is read from its stream, for every history and every behaviour of every peer. Nobody waits behind a peer
    that has failed (a close of it that would never complete is never started). -/
theorem c08_dropped_replier_is_never_called_again (history : List REvent) (pre post : List REv) (n k : Nat)
    (h : (rrExec history).trace = pre ++ REv.v n (.dropped k) :: post) : ∀ e ∈ post, ∀ x, e ≠ REv.v n x :=
  nothing_after_the_drop history pre post n k h

/-- The same for the requestor side: once the `Router` has evicted a requestor's sink (it failed at readiness, at a flush,
    or refused a reply) nothing in the rest of the trace asks anything of that sink — no readiness, send, flush or close —
    for every history, whatever order the `HashMap` is iterated in (invariant `SInv`: client ids are unique and below the
    next id, every sink held is unevicted; each `Router` operation visits an entry once: `pickLoop_quiet`). -/
theorem c08_evicted_requestor_sink_is_never_called_again (history : List REvent) (pre post : List REv) (k : Nat)
    (h : (rrExec history).trace = pre ++ REv.c (.dropped k) :: post) : ∀ e ∈ post, ∀ b, vc e ≠ some (k, b) :=
  nothing_after_the_eviction history pre post k h

/-- … and the drop follows the failure at once: in block A a readiness error of the bound replier's sink is the event right
    before its `dropped` -/
example (s : RR) (f : RFrame) (r : Replier) (hf : s.bufReq = some f) (hr : s.server = some r) (he : r.sink.readyAns = .err) :
    (partA s).state.trace = s.trace ++ [.v r.n (.ready r.n .err), .v r.n (.dropped r.n)] := by
  unfold partA
  simp [hf, hr, he, unbind, log, Flow.state]

/-- drops do happen: a replier whose stream ends is let go, and so is a requestor whose sink fails at the flush -/
def exDrops : List REvent :=
  [.enqueue (.server { id := 0 } []), .enqueue (.client { id := 0, flushQ := [.err] } [.pending]), .poll 50 [] [], .poll 50 [] []]

example : ((rrExec exDrops).trace.any fun e => match e with | .v 0 (.dropped 0) => true | _ => false) = true ∧
    ((rrExec exDrops).trace.any fun e => match e with | .c (.dropped 0) => true | _ => false) = true := by decide +kernel

end Selium.Route

#print axioms Selium.Route.c08_dropped_replier_is_never_called_again
#print axioms Selium.Route.c08_evicted_requestor_sink_is_never_called_again
#print axioms Selium.Route.c08_replier_dropped_only_for_cause
#print axioms Selium.Route.c08_requestor_dropped_only_when_its_own_sink_failed
#print axioms Selium.Route.c08_fanout_poll_keeps_only_old
#print axioms Selium.Route.c08_fanout_send_isolation
#print axioms Selium.Route.c08_healthy_subscriber_survives
#print axioms Selium.Route.c08_survivors_unharmed
#print axioms Selium.Route.c08_pubsub_outcomes
#print axioms Selium.Route.c08_reqrep_always_returns
#print axioms Selium.Route.c08_failed_replier_is_unbound
#print axioms Selium.Route.c08_requestors_isolated
#print axioms Selium.Route.c08_failing_requestor_only_evicted
