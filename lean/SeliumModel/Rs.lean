/-
Prelude for definitions the translator prints from Rust functions (`Gen/BackoffFn.lean`): the machine operations
of `core` the translated subset may call, each with its width. Integers of every width and `Duration`s
(nanoseconds) are `Nat`s; a width only shows where the Rust operation depends on it.

Modelled, not translated: `+`, `-`, `*` on integers are printed as the `Nat` operations; that they do not overflow /
underflow in the translated functions is part of the equivalence theorems' hypotheses (`1 ≤ cur`,
`maxAttempts ≤ u32::MAX`), under which every intermediate value is in range.
-/
namespace Selium.Rs

/-- `Duration::MAX` in nanoseconds. -/
def DMAX : Nat := 18446744073709551615999999999

/-- `x as uN` for a source type wider than `N` bits (truncation). -/
def cast (bits x : Nat) : Nat := x % 2 ^ bits

/-- `uN::checked_mul`. -/
def checkedMul (bits a b : Nat) : Option Nat := if a * b < 2 ^ bits then some (a * b) else none

/-- `uN::checked_add`. -/
def checkedAdd (bits a b : Nat) : Option Nat := if a + b < 2 ^ bits then some (a + b) else none

/-- `uN::checked_pow(self, exp: u32)`: repeated checked multiplication. -/
def checkedPow (bits b : Nat) : Nat → Option Nat
  | 0 => some 1
  | e + 1 =>
    match checkedPow bits b e with
    | none => none
    | some p => checkedMul bits p b

/-- `uN::try_from(x)` for a wider `x` (`Ok` = `some`). -/
def tryFrom (bits x : Nat) : Option Nat := if x < 2 ^ bits then some x else none

/-- `Duration::new(secs, nanos)` (the carry of `nanos ≥ 10^9` into the seconds is the same number). -/
def durationNew (secs nanos : Nat) : Nat := secs * 1000000000 + nanos

end Selium.Rs
