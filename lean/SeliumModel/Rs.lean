/-
Prelude for definitions the translator prints from Rust functions (`Gen/BackoffFn.lean`): the machine operations
of `core` the translated subset may call, each with its width. Integers of every width and `Duration`s
(nanoseconds) are `Nat`s; a width only shows where the Rust operation depends on it.

Modelled, not translated: `+`, `-`, `*` on integers are printed as the `Nat` operations; that they do not overflow /
underflow in the translated functions is part of the equivalence theorems' hypotheses (`1 ≤ cur`,
`maxAttempts ≤ u32::MAX`), under which every intermediate value is in range.
-/
namespace Selium.Rs

/-- `Duration::MAX` in nanoseconds. -/
def DMAX : Nat := 18446744073709551615999999999

/-- `x as uN` for a source type wider than `N` bits (truncation). -/
def cast (bits x : Nat) : Nat := x % 2 ^ bits

/-- `uN::checked_mul`. -/
def checkedMul (bits a b : Nat) : Option Nat := if a * b < 2 ^ bits then some (a * b) else none

/-- `uN::checked_add`. -/
def checkedAdd (bits a b : Nat) : Option Nat := if a + b < 2 ^ bits then some (a + b) else none

/-- `uN::checked_pow(self, exp: u32)`: repeated checked multiplication. -/
def checkedPow (bits b : Nat) : Nat → Option Nat
  | 0 => some 1
  | e + 1 =>
    match checkedPow bits b e with
    | none => none
    | some p => checkedMul bits p b

/-- `uN::try_from(x)` for a wider `x` (`Ok` = `some`). -/
def tryFrom (bits x : Nat) : Option Nat := if x < 2 ^ bits then some x else none

/-- `Duration::new(secs, nanos)` (the carry of `nanos ≥ 10^9` into the seconds is the same number). -/
def durationNew (secs nanos : Nat) : Nat := secs * 1000000000 + nanos

/-- Result of a translated function that can fail: a value, an `Err(_)` (named after the error's constructor), or a
    panic (named after the operation that panicked). -/
inductive Out (α : Type) where
  | ok : α → Out α
  | err : String → Out α
  | panic : String → Out α
  deriving Repr

/-- every way out of a function that works on a `&mut` buffer leaves the buffer's contents behind -/
def Out.withState {α σ : Type} (o : Out α) (s : σ) : Out (α × σ) :=
  match o with
  | .ok a => .ok (a, s)
  | .err e => .err e
  | .panic p => .panic p

/-- `u64::from_be_bytes` (any number of bytes: most significant first). -/
def fromBe (b : List UInt8) : Nat := b.foldl (fun acc x => acc * 256 + x.toNat) 0

/-- `&buf[..n]`: panics (`none`) when `n` is beyond the end. -/
def slicePrefix (buf : List UInt8) (n : Nat) : Option (List UInt8) :=
  if n ≤ buf.length then some (buf.take n) else none

/-- `Buf::advance(n)`: panics when fewer than `n` bytes remain. -/
def advance (buf : List UInt8) (n : Nat) : Option (List UInt8) :=
  if n ≤ buf.length then some (buf.drop n) else none

/-- `Buf::get_u8()`: the byte and the rest; panics on an empty buffer. -/
def getU8 (buf : List UInt8) : Option (Nat × List UInt8) :=
  match buf with
  | [] => none
  | b :: r => some (b.toNat, r)

/-- `Buf::get_u64()` (big-endian): the value and the rest; panics when fewer than 8 bytes remain. -/
def getU64 (buf : List UInt8) : Option (Nat × List UInt8) :=
  if 8 ≤ buf.length then some (fromBe (buf.take 8), buf.drop 8) else none

/-- `BytesMut::split_to(n)`: the first `n` bytes and the rest; panics when `n` is beyond the end. -/
def splitTo (buf : List UInt8) (n : Nat) : Option (List UInt8 × List UInt8) :=
  if n ≤ buf.length then some (buf.take n, buf.drop n) else none

/-- `n` as `w` big-endian bytes (most significant first). -/
def toBe : Nat → Nat → List UInt8
  | 0, _ => []
  | w + 1, n => toBe w (n / 256) ++ [UInt8.ofNat (n % 256)]

/-- `BufMut::put_u64` (big-endian). -/
def putU64 (buf : List UInt8) (x : Nat) : List UInt8 := buf ++ toBe 8 x

/-- `BufMut::put_u8`. -/
def putU8 (buf : List UInt8) (x : Nat) : List UInt8 := buf ++ [UInt8.ofNat x]

/-- `str::starts_with` on strings as lists of code points. -/
def startsWith (s pre : List Nat) : Bool := pre.isPrefixOf s

end Selium.Rs
