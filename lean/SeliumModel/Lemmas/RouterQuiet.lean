import SeliumModel.Lemmas.Router
/- `Router` (the requestors' sinks, keyed by client id): once an entry has been evicted nothing is asked of it again.
   Generic part: walking a list of events with the set of ids dropped so far. -/
namespace Selium.Sink
variable {α β : Type}

/-- walking events with the ids dropped so far: no event concerns one of them. `view e = some (id, isDrop)` -/
def QuietG (view : β → Option (Nat × Bool)) : List Nat → List β → Prop
  | _, [] => True
  | dead, e :: rest =>
    match view e with
    | some (n, true) => n ∉ dead ∧ QuietG view (n :: dead) rest
    | some (n, false) => n ∉ dead ∧ QuietG view dead rest
    | none => QuietG view dead rest

def droppedG (view : β → Option (Nat × Bool)) (tr : List β) : List Nat :=
  tr.filterMap fun e => match view e with | some (n, true) => some n | _ => none
def touchedG (view : β → Option (Nat × Bool)) (tr : List β) : List Nat := tr.filterMap fun e => (view e).map (·.1)

theorem droppedG_append (view : β → Option (Nat × Bool)) (a b : List β) : droppedG view (a ++ b) = droppedG view a ++ droppedG view b := by
  simp [droppedG, List.filterMap_append]
theorem touchedG_append (view : β → Option (Nat × Bool)) (a b : List β) : touchedG view (a ++ b) = touchedG view a ++ touchedG view b := by
  simp [touchedG, List.filterMap_append]

theorem droppedG_sub_touchedG (view : β → Option (Nat × Bool)) (tr : List β) : ∀ n ∈ droppedG view tr, n ∈ touchedG view tr := by
  intro n hd
  simp only [droppedG, List.mem_filterMap] at hd
  obtain ⟨e, he, hv⟩ := hd
  simp only [touchedG, List.mem_filterMap]
  refine ⟨e, he, ?_⟩
  cases hve : view e with
  | none => simp [hve] at hv
  | some p =>
    obtain ⟨m, b⟩ := p
    cases b <;> simp [hve] at hv ⊢
    exact hv

theorem quietG_append (view : β → Option (Nat × Bool)) (a b : List β) :
    ∀ dead, QuietG view dead (a ++ b) ↔ QuietG view dead a ∧ QuietG view ((droppedG view a).reverse ++ dead) b := by
  induction a with
  | nil => intro dead; simp [QuietG, droppedG]
  | cons e rest ih =>
    intro dead
    simp only [List.cons_append, QuietG]
    cases hv : view e with
    | none =>
      have : droppedG view (e :: rest) = droppedG view rest := by simp [droppedG, List.filterMap_cons, hv]
      rw [this]; exact ih dead
    | some p =>
      obtain ⟨n, b'⟩ := p
      cases b' with
      | true =>
        have : droppedG view (e :: rest) = n :: droppedG view rest := by simp [droppedG, List.filterMap_cons, hv]
        rw [this]
        simp only [List.reverse_cons, List.append_assoc, List.singleton_append]
        rw [ih (n :: dead)]
        exact ⟨fun ⟨h1, h2, h3⟩ => ⟨⟨h1, h2⟩, h3⟩, fun ⟨⟨h1, h2⟩, h3⟩ => ⟨h1, h2, h3⟩⟩
      | false =>
        have : droppedG view (e :: rest) = droppedG view rest := by simp [droppedG, List.filterMap_cons, hv]
        rw [this, ih dead]
        exact ⟨fun ⟨h1, h2, h3⟩ => ⟨⟨h1, h2⟩, h3⟩, fun ⟨⟨h1, h2⟩, h3⟩ => ⟨h1, h2, h3⟩⟩

/-- only membership in `dead` matters -/
theorem quietG_congr (view : β → Option (Nat × Bool)) (tr : List β) :
    ∀ d1 d2 : List Nat, (∀ n, n ∈ d1 ↔ n ∈ d2) → (QuietG view d1 tr ↔ QuietG view d2 tr) := by
  induction tr with
  | nil => intro d1 d2 _; simp [QuietG]
  | cons e rest ih =>
    intro d1 d2 h
    simp only [QuietG]
    cases hv : view e with
    | none => exact ih d1 d2 h
    | some p =>
      obtain ⟨n, b⟩ := p
      cases b with
      | true =>
        simp only
        rw [h n, ih (n :: d1) (n :: d2) (by intro m; simp [h m])]
      | false =>
        simp only
        rw [h n, ih d1 d2 h]

theorem quietG_none (view : β → Option (Nat × Bool)) (dead : List Nat) (tr : List β) (h : ∀ e ∈ tr, view e = none) :
    QuietG view dead tr := by
  induction tr with
  | nil => simp [QuietG]
  | cons e rest ih =>
    simp only [QuietG, h e (List.mem_cons_self ..)]
    exact ih (fun x hx => h x (List.mem_cons_of_mem _ hx))

theorem droppedG_none (view : β → Option (Nat × Bool)) (tr : List β) (h : ∀ e ∈ tr, view e = none) : droppedG view tr = [] := by
  induction tr with
  | nil => rfl
  | cons e rest ih =>
    have := ih (fun x hx => h x (List.mem_cons_of_mem _ hx))
    simp [droppedG, List.filterMap_cons, h e (List.mem_cons_self ..)] at this ⊢
    exact this
theorem touchedG_none (view : β → Option (Nat × Bool)) (tr : List β) (h : ∀ e ∈ tr, view e = none) : touchedG view tr = [] := by
  induction tr with
  | nil => rfl
  | cons e rest ih =>
    have := ih (fun x hx => h x (List.mem_cons_of_mem _ hx))
    simp [touchedG, List.filterMap_cons, h e (List.mem_cons_self ..)] at this ⊢
    exact this

theorem quietG_no_touch (view : β → Option (Nat × Bool)) (tr : List β) :
    ∀ (dead : List Nat), QuietG view dead tr → ∀ n ∈ dead, ∀ e ∈ tr, ∀ b, view e ≠ some (n, b) := by
  induction tr with
  | nil => intro dead _ n _ e he; simp at he
  | cons e0 rest ih =>
    intro dead hq n hn e he b hex
    simp only [QuietG] at hq
    rcases List.mem_cons.mp he with rfl | hrest
    · rw [hex] at hq
      cases b <;> exact hq.1 hn
    · cases hv : view e0 with
      | none => rw [hv] at hq; exact ih dead hq n hn e hrest b hex
      | some p =>
        obtain ⟨m, b'⟩ := p
        rw [hv] at hq
        cases b' with
        | true => exact ih (m :: dead) hq.2 n (List.mem_cons_of_mem _ hn) e hrest b hex
        | false => exact ih dead hq.2 n hn e hrest b hex

/-- what an event asks of which requestor sink -/
def sid : Ev α → Option (Nat × Bool)
  | .ready i _ => some (i, false)
  | .send i _ _ => some (i, false)
  | .flush i _ => some (i, false)
  | .close i _ => some (i, false)
  | .dropped i => some (i, true)
  | _ => none

theorem ids_ne_of_nodup (todo : List (Child α)) (i : Nat) (c : Child α) (hget : todo[i]? = some c)
    (hnd : (todo.map (·.id)).Nodup) : ∀ x ∈ todo.eraseIdx i, x.id ≠ c.id := by
  intro x hx hid
  have h1 := countP_eraseIdx (fun y : Child α => y.id == c.id) todo i c hget
  have h2 : todo.countP (fun y => y.id == c.id) ≤ 1 := by
    have := List.nodup_iff_count.mp hnd c.id
    rw [List.count_eq_countP, List.countP_map] at this
    exact this
  have h3 : 0 < (todo.eraseIdx i).countP (fun y => y.id == c.id) := List.countP_pos_iff.mpr ⟨x, hx, by simp [hid]⟩
  simp at h1
  omega

/-- one `Router` poll operation: its events are quiet with respect to `dead`, concern only entries of `todo`, and an
    entry that was dropped is not among the entries kept -/
theorem pickLoop_quiet (ans : Child α → Ans) (step : Child α → Child α) (ev : Nat → Ans → Ev α)
    (hev : ∀ i a, sid (ev i a) = some (i, false)) (hid : ∀ c, (step c).id = c.id)
    (o : List Nat) (done todo : List (Child α)) :
    ∀ dead : List Nat, (todo.map (·.id)).Nodup → (∀ c ∈ todo, c.id ∉ dead) →
      QuietG sid dead (pickLoop ans step ev o done todo).2.2.1 ∧
      (∀ k ∈ touchedG sid (pickLoop ans step ev o done todo).2.2.1, ∃ c ∈ todo, c.id = k) ∧
      (∀ c' ∈ (pickLoop ans step ev o done todo).2.1, c' ∈ done ∨
        ((∃ c ∈ todo, c.id = c'.id) ∧ c'.id ∉ droppedG sid (pickLoop ans step ev o done todo).2.2.1)) := by
  induction hn : todo.length using Nat.strongRecOn generalizing o done todo with
  | ind n ih =>
    intro dead hnd hdead
    unfold pickLoop
    split
    · rename_i hnone
      refine ⟨by simp [QuietG], by intro k hk; simp [touchedG] at hk, ?_⟩
      intro c' hc'
      rcases List.mem_append.mp hc' with h | h
      · exact Or.inl h
      · exact Or.inr ⟨⟨c', h, rfl⟩, by simp [droppedG]⟩
    · rename_i c hget
      have hc : c ∈ todo := mem_of_getElem? _ _ _ hget
      have hlt : (todo.eraseIdx (choose o todo)).length < todo.length := by
        have := (List.getElem?_eq_some_iff.mp hget).1
        rw [List.length_eraseIdx]; simp [this]; omega
      have hsub : ∀ x ∈ todo.eraseIdx (choose o todo), x ∈ todo := fun x hx => mem_of_mem_eraseIdx _ _ _ hx
      have hne := ids_ne_of_nodup todo _ c hget hnd
      have hnd' : ((todo.eraseIdx (choose o todo)).map (·.id)).Nodup :=
        hnd.sublist ((List.eraseIdx_sublist _ _).map _)
      split
      · -- Pending: the operation stops here
        refine ⟨by simp [QuietG, hev, hdead c hc], ?_, ?_⟩
        · intro k hk
          simp [touchedG, hev] at hk
          exact ⟨c, hc, hk.symm⟩
        · intro c' hc'
          simp only [List.mem_append, List.mem_cons] at hc'
          rcases hc' with h | rfl | h
          · exact Or.inl h
          · exact Or.inr ⟨⟨c, hc, (hid c).symm⟩, by simp [droppedG, hev]⟩
          · exact Or.inr ⟨⟨c', hsub _ h, rfl⟩, by simp [droppedG, hev]⟩
      · -- Err: evicted, the rest goes on with this id dead
        have hrec := ih _ (by omega) o.tail done (todo.eraseIdx (choose o todo)) rfl (c.id :: dead) hnd'
          (by intro x hx; simp only [List.mem_cons, not_or]; exact ⟨hne x hx, hdead x (hsub x hx)⟩)
        have hdr : sid (Ev.dropped c.id : Ev α) = some (c.id, true) := rfl
        refine ⟨?_, ?_, ?_⟩
        · simp only [QuietG, hev, hdr]
          exact ⟨hdead c hc, hdead c hc, hrec.1⟩
        · intro k hk
          simp only [touchedG, List.filterMap_cons, hev, hdr, Option.map_some] at hk
          rcases List.mem_cons.mp hk with rfl | hk
          · exact ⟨c, hc, rfl⟩
          · rcases List.mem_cons.mp hk with rfl | hk
            · exact ⟨c, hc, rfl⟩
            · obtain ⟨x, hx, hxk⟩ := hrec.2.1 k hk
              exact ⟨x, hsub x hx, hxk⟩
        · intro c' hc'
          rcases hrec.2.2 c' hc' with h | ⟨⟨x, hx, hxid⟩, hnd2⟩
          · exact Or.inl h
          · refine Or.inr ⟨⟨x, hsub x hx, hxid⟩, ?_⟩
            simp only [droppedG, List.filterMap_cons, hev, hdr]
            intro hm
            rcases List.mem_cons.mp hm with h1 | h1
            · exact hne x hx (hxid.trans h1)
            · exact hnd2 h1
      · -- Ready: kept, the rest goes on
        have hrec := ih _ (by omega) o.tail (done ++ [step c]) (todo.eraseIdx (choose o todo)) rfl dead hnd'
          (by intro x hx; exact hdead x (hsub x hx))
        refine ⟨?_, ?_, ?_⟩
        · simp only [QuietG, hev]
          exact ⟨hdead c hc, hrec.1⟩
        · intro k hk
          simp only [touchedG, List.filterMap_cons, hev, Option.map_some] at hk
          rcases List.mem_cons.mp hk with rfl | hk
          · exact ⟨c, hc, rfl⟩
          · obtain ⟨x, hx, hxk⟩ := hrec.2.1 k hk
            exact ⟨x, hsub x hx, hxk⟩
        · intro c' hc'
          have hdrop : droppedG sid (ev c.id Ans.ready :: (pickLoop ans step ev o.tail (done ++ [step c]) (todo.eraseIdx (choose o todo))).2.2.1)
              = droppedG sid (pickLoop ans step ev o.tail (done ++ [step c]) (todo.eraseIdx (choose o todo))).2.2.1 := by
            simp [droppedG, List.filterMap_cons, hev]
          rw [hdrop]
          rcases hrec.2.2 c' hc' with h | ⟨⟨x, hx, hxid⟩, hnd2⟩
          · rcases List.mem_append.mp h with h | h
            · exact Or.inl h
            · simp only [List.mem_singleton] at h
              subst h
              refine Or.inr ⟨⟨c, hc, (hid c).symm⟩, ?_⟩
              intro hm
              obtain ⟨x, hx, hxk⟩ := hrec.2.1 _ (droppedG_sub_touchedG sid _ _ hm)
              exact hne x hx (hxk.trans (hid c))
          · exact Or.inr ⟨⟨x, hsub x hx, hxid⟩, hnd2⟩

end Selium.Sink

namespace Selium.Sink

/-- what one operation on the requestors' sinks (with events `evs`, from `sinks` to `sinks'`) guarantees -/
def OpOk (sinks sinks' : List (Child RFrame)) (evs : List (Ev RFrame)) : Prop :=
  ∀ dead : List Nat, (sinks.map (·.id)).Nodup → (∀ c ∈ sinks, c.id ∉ dead) →
    QuietG sid dead evs ∧ (∀ k ∈ touchedG sid evs, ∃ c ∈ sinks, c.id = k) ∧
    (∀ c' ∈ sinks', (∃ c ∈ sinks, c.id = c'.id) ∧ c'.id ∉ droppedG sid evs) ∧ (sinks'.map (·.id)).Nodup

theorem OpOk.refl (sinks : List (Child RFrame)) (evs : List (Ev RFrame)) (h : ∀ e ∈ evs, sid e = none) : OpOk sinks sinks evs := by
  intro dead hnd _
  refine ⟨quietG_none sid dead evs h, ?_, ?_, hnd⟩
  · intro k hk; rw [touchedG_none sid evs h] at hk; simp at hk
  · intro c' hc'; rw [droppedG_none sid evs h]; exact ⟨⟨c', hc', rfl⟩, by simp⟩

theorem OpOk.trans {a b c : List (Child RFrame)} {e1 e2 : List (Ev RFrame)} (h1 : OpOk a b e1) (h2 : OpOk b c e2) :
    OpOk a c (e1 ++ e2) := by
  intro dead hnd hdead
  obtain ⟨q1, t1, k1, n1⟩ := h1 dead hnd hdead
  have hdead2 : ∀ x ∈ b, x.id ∉ (droppedG sid e1).reverse ++ dead := by
    intro x hx hm
    obtain ⟨⟨y, hy, hyid⟩, hnd1⟩ := k1 x hx
    rcases List.mem_append.mp hm with h | h
    · exact hnd1 (List.mem_reverse.mp h)
    · exact hdead y hy (hyid ▸ h)
  obtain ⟨q2, t2, k2, n2⟩ := h2 _ n1 hdead2
  refine ⟨(quietG_append sid e1 e2 dead).2 ⟨q1, q2⟩, ?_, ?_, n2⟩
  · intro k hk
    rw [touchedG_append] at hk
    rcases List.mem_append.mp hk with h | h
    · exact t1 k h
    · obtain ⟨x, hx, hxk⟩ := t2 k h
      obtain ⟨⟨y, hy, hyid⟩, _⟩ := k1 x hx
      exact ⟨y, hy, hyid.trans hxk⟩
  · intro c' hc'
    obtain ⟨⟨x, hx, hxid⟩, hnd2⟩ := k2 c' hc'
    obtain ⟨⟨y, hy, hyid⟩, hnd1⟩ := k1 x hx
    refine ⟨⟨y, hy, hyid.trans hxid⟩, ?_⟩
    rw [droppedG_append]
    intro hm
    rcases List.mem_append.mp hm with h | h
    · exact hnd1 (hxid ▸ h)
    · exact hnd2 h

theorem pickLoop_opOk (ans : Child RFrame → Ans) (step : Child RFrame → Child RFrame) (ev : Nat → Ans → Ev RFrame)
    (hev : ∀ i a, sid (ev i a) = some (i, false)) (hid : ∀ c, (step c).id = c.id) (o : List Nat) (es : List (Child RFrame)) :
    OpOk es (pickLoop ans step ev o [] es).2.1 (pickLoop ans step ev o [] es).2.2.1 := by
  intro dead hnd hdead
  obtain ⟨q, t, k⟩ := pickLoop_quiet ans step ev hev hid o [] es dead hnd hdead
  refine ⟨q, t, ?_, pickLoop_nodup ans step ev hid o es hnd⟩
  intro c' hc'
  rcases k c' hc' with h | h
  · simp at h
  · exact h

theorem routerReady_opOk (o : List Nat) (es : List (Child RFrame)) : OpOk es (routerReady o es).2.1 (routerReady o es).2.2.1 :=
  pickLoop_opOk _ _ Ev.ready (by intro i a; rfl) (by intro c; rfl) o es
theorem routerFlush_opOk (o : List Nat) (es : List (Child RFrame)) : OpOk es (routerFlush o es).2.1 (routerFlush o es).2.2.1 :=
  pickLoop_opOk _ _ Ev.flush (by intro i a; rfl) (by intro c; rfl) o es

theorem routerSend_opOk (f : RFrame) (es : List (Child RFrame)) : OpOk es (routerSend f es).2.1 (routerSend f es).2.2 := by
  have hrefl : OpOk es es [] := OpOk.refl es [] (by intro e he; simp at he)
  unfold routerSend
  split
  · exact hrefl
  · exact hrefl
  · split
    · exact hrefl
    · split
      · exact hrefl
      · split
        · exact hrefl
        · rename_i _ cid hcid _ c hfind
          have hc : c ∈ es := List.mem_of_find?_eq_some hfind
          have hcid' : c.id = cid := by simpa using List.find?_some hfind
          split
          · -- delivered
            intro dead hnd hdead
            refine ⟨by simp [QuietG, sid]; exact hcid' ▸ hdead c hc, ?_, ?_, ?_⟩
            · intro k hk; simp [touchedG, sid] at hk; exact ⟨c, hc, hcid'.trans hk.symm⟩
            · intro c' hc'
              obtain ⟨d, hd, hdc⟩ := List.mem_map.mp hc'
              refine ⟨⟨d, hd, ?_⟩, by simp [droppedG, sid]⟩
              rw [← hdc]; split <;> rfl
            · have : ∀ (g : RFrame), (es.map fun d => if d.id = cid then d.afterSend g else d).map (·.id) = es.map (·.id) := by
                intro g
                rw [List.map_map]; apply List.map_congr_left; intro d _; simp only [Function.comp]; split <;> rfl
              rw [this]; exact hnd
          · -- refused: that requestor is evicted
            intro dead hnd hdead
            refine ⟨by simp [QuietG, sid]; exact hcid' ▸ hdead c hc, ?_, ?_, ?_⟩
            · intro k hk; simp [touchedG, sid] at hk; rcases hk with rfl | rfl <;> exact ⟨c, hc, hcid'⟩
            · intro c' hc'
              have := List.mem_filter.mp hc'
              refine ⟨⟨c', this.1, rfl⟩, ?_⟩
              simp [droppedG, sid]
              simpa using this.2
            · exact hnd.sublist (List.filter_sublist.map _)

end Selium.Sink
