import SeliumModel.Lemmas.RouterQuiet
import SeliumModel.Lemmas.ReqRepQuietDrop
/- helper lemmas for C08 / C11 (request/reply half, requestor side): once the router has evicted a requestor's sink — it
   failed at readiness, at a flush, or refused a reply — nothing is asked of that sink again, over every history. -/
namespace Selium.Route
open Selium.Sink

/-- what an event of the trace asks of which requestor sink -/
def vc : REv → Option (Nat × Bool)
  | .c e => sid e
  | .v _ _ => none

theorem quietG_map_c (evs : List (Ev RFrame)) : ∀ dead, QuietG vc dead (evs.map REv.c) ↔ QuietG sid dead evs := by
  induction evs with
  | nil => intro dead; simp [QuietG]
  | cons e rest ih =>
    intro dead
    simp only [List.map_cons, QuietG, vc]
    cases sid e with
    | none => exact ih dead
    | some p =>
      obtain ⟨n, b⟩ := p
      cases b <;> simp only [ih]

theorem droppedG_map_c (evs : List (Ev RFrame)) : droppedG vc (evs.map REv.c) = droppedG sid evs := by
  simp [droppedG, List.filterMap_map, Function.comp_def, vc]
theorem touchedG_map_c (evs : List (Ev RFrame)) : touchedG vc (evs.map REv.c) = touchedG sid evs := by
  simp [touchedG, List.filterMap_map, Function.comp_def, vc]

structure SInv (s : RR) : Prop where
  quiet : QuietG vc [] s.trace
  nodup : (s.sinks.map (·.id)).Nodup
  alive : ∀ c ∈ s.sinks, c.id ∉ droppedG vc s.trace
  bound : ∀ k ∈ touchedG vc s.trace, k < s.nextId
  fresh : ∀ c ∈ s.sinks, c.id < s.nextId

theorem sinv_init : SInv {} :=
  ⟨trivial, List.nodup_nil, by intro c hc; simp at hc, by intro k hk; simp [touchedG] at hk, by intro c hc; simp at hc⟩

/-- an operation on the requestors' sinks -/
theorem sinv_op (s s' : RR) (sinks' : List (Child RFrame)) (evs : List (Ev RFrame)) (h : SInv s) (hop : OpOk s.sinks sinks' evs)
    (htr : s'.trace = s.trace ++ evs.map REv.c) (hsk : s'.sinks = sinks') (hnx : s'.nextId = s.nextId) : SInv s' := by
  obtain ⟨q, t, k, n⟩ := hop ((droppedG vc s.trace).reverse ++ []) h.nodup
    (by intro c hc hm; simp only [List.append_nil, List.mem_reverse] at hm; exact h.alive c hc hm)
  refine ⟨?_, ?_, ?_, ?_, ?_⟩
  · rw [htr]; exact (quietG_append vc _ _ []).2 ⟨h.quiet, (quietG_map_c evs _).2 q⟩
  · rw [hsk]; exact n
  · rw [hsk, htr, droppedG_append, droppedG_map_c]
    intro c' hc' hm
    obtain ⟨⟨c, hc, hid⟩, hnd⟩ := k c' hc'
    rcases List.mem_append.mp hm with h1 | h1
    · exact h.alive c hc (hid ▸ h1)
    · exact hnd h1
  · rw [htr, touchedG_append, touchedG_map_c, hnx]
    intro m hm
    rcases List.mem_append.mp hm with h1 | h1
    · exact h.bound m h1
    · obtain ⟨c, hc, hid⟩ := t m h1
      exact hid ▸ h.fresh c hc
  · rw [hsk, hnx]
    intro c' hc'
    obtain ⟨⟨c, hc, hid⟩, _⟩ := k c' hc'
    exact hid ▸ h.fresh c hc

/-- events that ask nothing of a requestor's sink (the replier side, the requestors' streams) -/
theorem sinv_other (s s' : RR) (es : List REv) (h : SInv s) (htr : s'.trace = s.trace ++ es) (hv : ∀ e ∈ es, vc e = none)
    (hsk : s'.sinks = s.sinks) (hnx : s'.nextId = s.nextId) : SInv s' := by
  refine ⟨?_, by rw [hsk]; exact h.nodup, ?_, ?_, by rw [hsk, hnx]; exact h.fresh⟩
  · rw [htr]; exact (quietG_append vc _ _ []).2 ⟨h.quiet, quietG_none vc _ es hv⟩
  · rw [hsk, htr, droppedG_append, droppedG_none vc es hv, List.append_nil]; exact h.alive
  · rw [htr, touchedG_append, touchedG_none vc es hv, List.append_nil, hnx]; exact h.bound

theorem vc_v (es : List REv) (h : ∀ e ∈ es, ∃ n x, e = REv.v n x) : ∀ e ∈ es, vc e = none := by
  intro e he; obtain ⟨n, x, hx⟩ := h e he; subst hx; rfl

theorem flushRouter_sinv (s : RR) (h : SInv s) : SInv (flushRouter s).2 :=
  sinv_op s _ _ _ h (routerFlush_opOk s.ko s.sinks) (flushRouter_trace s) rfl rfl

theorem unbind_sinv (s : RR) (r : Replier) (h : SInv s) : SInv (unbind s r) :=
  sinv_other s _ [.v r.n (.dropped r.n)] h rfl (vc_v _ (by intro e he; simp at he; exact ⟨_, _, he⟩)) rfl rfl

theorem log_v_sinv (s : RR) (es : List REv) (h : SInv s) (hv : ∀ e ∈ es, ∃ n x, e = REv.v n x) : SInv (log s es) :=
  sinv_other s _ es h rfl (vc_v es hv) rfl rfl

theorem partA_sinv (s : RR) (h : SInv s) : SInv (partA s).state := by
  unfold partA
  split
  · rename_i f r hb hs
    split
    · exact log_v_sinv _ _ ⟨h.quiet, h.nodup, h.alive, h.bound, h.fresh⟩ (by intro e he; simp at he; exact ⟨_, _, he⟩)
    · exact unbind_sinv _ r (log_v_sinv s _ h (by intro e he; simp at he; exact ⟨_, _, he⟩))
    · split
      · exact log_v_sinv _ _ ⟨h.quiet, h.nodup, h.alive, h.bound, h.fresh⟩ (by intro e he; simp at he; rcases he with he | he <;> exact ⟨_, _, he⟩)
      · exact log_v_sinv _ _ ⟨h.quiet, h.nodup, h.alive, h.bound, h.fresh⟩ (by intro e he; simp at he; rcases he with he | he <;> exact ⟨_, _, he⟩)
  · exact h

theorem partB_sinv (s : RR) (h : SInv s) : SInv (partB s).state := by
  unfold partB
  split
  · exact h
  · rename_i j hj
    split
    · split
      · exact log_v_sinv _ _ ⟨h.quiet, h.nodup, h.alive, h.bound, h.fresh⟩ (by intro e he; simp at he; exact ⟨_, _, he⟩)
      · exact log_v_sinv _ _ ⟨h.quiet, h.nodup, h.alive, h.bound, h.fresh⟩ (by intro e he; simp at he; rcases he with he | he <;> exact ⟨_, _, he⟩)
      · split
        · exact log_v_sinv _ _ ⟨h.quiet, h.nodup, h.alive, h.bound, h.fresh⟩ (by intro e he; simp at he; rcases he with he | he <;> exact ⟨_, _, he⟩)
        · exact log_v_sinv _ _ ⟨h.quiet, h.nodup, h.alive, h.bound, h.fresh⟩ (by intro e he; simp at he; rcases he with he | he | he <;> exact ⟨_, _, he⟩)
    · split
      · exact log_v_sinv _ _ ⟨h.quiet, h.nodup, h.alive, h.bound, h.fresh⟩ (by intro e he; simp at he; exact ⟨_, _, he⟩)
      · exact log_v_sinv _ _ ⟨h.quiet, h.nodup, h.alive, h.bound, h.fresh⟩ (by intro e he; simp at he; rcases he with he | he <;> exact ⟨_, _, he⟩)

theorem adoptSock_sinv (s : RR) (sock : RSock) (q : List RSock) (h : SInv s) : SInv (adoptSock s sock q) := by
  cases sock with
  | client sink script =>
    -- a new requestor: the next client id, which nothing has touched yet
    have hfresh : ∀ c ∈ s.sinks, c.id ≠ s.nextId := fun c hc => Nat.ne_of_lt (h.fresh c hc)
    have hsk : (adoptSock s (.client sink script) q).sinks = s.sinks ++ [{ sink with id := s.nextId, got := [], flushed := 0 }] := rfl
    have htr : (adoptSock s (.client sink script) q).trace = s.trace := rfl
    have hnx : (adoptSock s (.client sink script) q).nextId = s.nextId + 1 := rfl
    refine ⟨by rw [htr]; exact h.quiet, ?_, ?_, ?_, ?_⟩
    · rw [hsk, List.map_append, List.nodup_append]
      refine ⟨h.nodup, by simp, ?_⟩
      intro a ha b hb
      simp only [List.map_cons, List.map_nil, List.mem_singleton] at hb
      obtain ⟨c, hc, hca⟩ := List.mem_map.mp ha
      subst hb; subst hca
      exact hfresh c hc
    · rw [hsk, htr]
      intro c hc
      rcases List.mem_append.mp hc with h1 | h1
      · exact h.alive c h1
      · simp only [List.mem_singleton] at h1
        subst h1
        intro hm
        exact Nat.lt_irrefl _ (h.bound _ (droppedG_sub_touchedG vc _ _ hm))
    · rw [htr, hnx]; intro k hk; exact Nat.lt_succ_of_lt (h.bound k hk)
    · rw [hsk, hnx]
      intro c hc
      rcases List.mem_append.mp hc with h1 | h1
      · exact Nat.lt_succ_of_lt (h.fresh c h1)
      · simp only [List.mem_singleton] at h1; subst h1; exact Nat.lt_succ_self _
  | server sink script =>
    have hsk : (adoptSock s (.server sink script) q).sinks = s.sinks := by simp only [adoptSock]; split <;> rfl
    have htr : (adoptSock s (.server sink script) q).trace = s.trace := by simp only [adoptSock]; split <;> rfl
    have hnx : (adoptSock s (.server sink script) q).nextId = s.nextId := by simp only [adoptSock]; split <;> rfl
    exact ⟨by rw [htr]; exact h.quiet, by rw [hsk]; exact h.nodup, by rw [hsk, htr]; exact h.alive,
      by rw [htr, hnx]; exact h.bound, by rw [hsk, hnx]; exact h.fresh⟩

theorem partH_sinv (s : RR) (h : SInv s) : SInv (partH s).state := by
  unfold partH
  split
  · exact adoptSock_sinv s _ _ h
  · split
    · split <;> exact flushRouter_sinv s h
    · split
      · exact ⟨h.quiet, h.nodup, h.alive, h.bound, h.fresh⟩
      · exact ⟨h.quiet, h.nodup, h.alive, h.bound, h.fresh⟩

theorem flushReplier_sinv (s : RR) (r : Replier) (after : RR → Flow) (h : SInv s)
    (hafter : ∀ s', SInv s' → SInv (after s').state) : SInv (flushReplier s r after).state := by
  unfold flushReplier
  split
  · exact log_v_sinv _ _ ⟨h.quiet, h.nodup, h.alive, h.bound, h.fresh⟩ (by intro e he; simp at he; exact ⟨_, _, he⟩)
  · apply hafter
    exact unbind_sinv _ r (log_v_sinv s _ h (by intro e he; simp at he; exact ⟨_, _, he⟩))
  · apply hafter
    exact log_v_sinv _ _ ⟨h.quiet, h.nodup, h.alive, h.bound, h.fresh⟩ (by intro e he; simp at he; exact ⟨_, _, he⟩)

theorem partD_sinv (s : RR) (h : SInv s) : SInv (partD s).state := by
  unfold partD
  split
  · rename_i r hs hb
    have h0 : ∀ (r' : Replier) (f : Option RFrame) (rt : List RFrame) (sp : Bool),
        SInv { s with server := some r', bufRep := f, repTaken := rt, serverPending := sp } :=
      fun _ _ _ _ => ⟨h.quiet, h.nodup, h.alive, h.bound, h.fresh⟩
    split
    · exact log_v_sinv _ _ (h0 _ _ _ _) (by intro e he; simp at he; exact ⟨_, _, he⟩)
    · exact log_v_sinv _ _ (h0 _ s.bufRep s.repTaken s.serverPending) (by intro e he; simp at he; exact ⟨_, _, he⟩)
    · exact log_v_sinv _ _ (h0 _ s.bufRep s.repTaken _) (by intro e he; simp at he; exact ⟨_, _, he⟩)
    · have hbase : ∀ a : Ans, SInv (log { s with server := some { r with sink := r.sink.afterFlush } } [.v r.n (.sEnd r.n), .v r.n (.flush r.n a)]) := by
        intro a
        exact log_v_sinv _ _ (h0 _ s.bufRep s.repTaken s.serverPending) (by intro e he; simp at he; rcases he with he | he <;> exact ⟨_, _, he⟩)
      split
      · exact hbase .pending
      · split
        · exact flushRouter_sinv _ (hbase r.sink.flushAns)
        · exact unbind_sinv _ _ (flushRouter_sinv _ (hbase r.sink.flushAns))
  · exact h

theorem partE_sinv (s : RR) (h : SInv s) : SInv (partE s).state := by
  unfold partE
  split
  · exact h
  · rename_i f hf
    split
    · exact sinv_op s _ _ _ h (routerReady_opOk s.ko s.sinks) rfl rfl rfl
    · exact sinv_op s _ _ _ h ((routerReady_opOk s.ko s.sinks).trans (routerSend_opOk f _)) rfl rfl rfl

/-- polling the requestors' streams asks nothing of their sinks -/
theorem smLoop_sid_none (n start idx : Nat) (es : List (StreamSt RFrame)) : ∀ e ∈ (smLoop n start idx es).2.2, sid e = none := by
  induction n generalizing idx es with
  | zero => intro e he; simp [smLoop] at he
  | succ m ih =>
    unfold smLoop
    split
    · intro e he; simp at he
    · split
      · intro e he; simp at he; subst he; rfl
      · intro e he; simp at he; subst he; rfl
      · intro e he
        simp only [List.mem_cons] at he
        rcases he with rfl | he
        · rfl
        · exact ih _ _ e he
      · intro e he
        simp only [List.mem_cons] at he
        rcases he with rfl | he
        · rfl
        · exact ih _ _ e he

theorem smPoll_sinv (s s' : RR) (h : SInv s) (htr : s'.trace = s.trace ++ (smPoll (s.so.headD 0) s.streams).2.2.map REv.c)
    (hsk : s'.sinks = s.sinks) (hnx : s'.nextId = s.nextId) : SInv s' :=
  sinv_op s s' _ _ h (OpOk.refl s.sinks _ (smLoop_sid_none _ _ _ _)) htr hsk hnx

theorem partF_sinv (s : RR) (h : SInv s) : SInv (partF s).state := by
  unfold partF
  split
  · rename_i sid' hd p es evs heq
    exact smPoll_sinv s _ h (by rw [heq]; rfl) rfl rfl
  · rename_i sid' o es evs heq
    exact smPoll_sinv s _ h (by rw [heq]; rfl) rfl rfl
  · rename_i sid' es evs heq
    exact smPoll_sinv s _ h (by rw [heq]; rfl) rfl rfl
  · rename_i es evs heq
    exact smPoll_sinv s _ h (by rw [heq]; rfl) rfl rfl
  · rename_i es evs heq
    have hb : SInv (log { s with streams := es, so := s.so.drop evs.length } (evs.map REv.c)) :=
      smPoll_sinv s _ h (by rw [heq]; rfl) rfl rfl
    split
    · exact flushRouter_sinv _ hb
    · split
      · exact flushReplier_sinv _ _ _ (flushRouter_sinv _ hb)
          (fun s' hs' => ⟨hs'.quiet, hs'.nodup, hs'.alive, hs'.bound, hs'.fresh⟩)
      · have := flushRouter_sinv _ hb
        exact ⟨this.quiet, this.nodup, this.alive, this.bound, this.fresh⟩

theorem partG_sinv (s : RR) (h : SInv s) : SInv (partG s).state := by
  unfold partG
  split
  · split
    · exact flushRouter_sinv s h
    · split
      · exact flushReplier_sinv _ _ _ (flushRouter_sinv s h) (fun s' hs' => hs')
      · exact flushRouter_sinv s h
  · exact h

theorem andThen_sinv (f : Flow) (g : RR → Flow) (hf : SInv f.state) (hg : ∀ s, SInv s → SInv (g s).state) :
    SInv (f.andThen g).state := by
  cases f with
  | ret o s => exact hf
  | again s => exact hf
  | next s => exact hg s hf

theorem iter_sinv (s : RR) (h : SInv s) : SInv (iter s).state := by
  unfold iter
  refine andThen_sinv _ _ ?_ partG_sinv
  refine andThen_sinv _ _ ?_ partF_sinv
  refine andThen_sinv _ _ ?_ partE_sinv
  refine andThen_sinv _ _ ?_ partD_sinv
  refine andThen_sinv _ _ ?_ partH_sinv
  refine andThen_sinv _ _ ?_ partB_sinv
  exact partA_sinv _ ⟨h.quiet, h.nodup, h.alive, h.bound, h.fresh⟩

theorem rrPoll_sinv (fuel : Nat) (s : RR) (h : SInv s) : SInv (rrPoll fuel s).2 := by
  induction fuel generalizing s with
  | zero => exact h
  | succ n ih =>
    unfold rrPoll
    have hi := iter_sinv s h
    cases hit : iter s with
    | ret o s' => rw [hit] at hi; exact hi
    | next s' => rw [hit] at hi; exact ih s' hi
    | again s' => rw [hit] at hi; exact ih s' hi

theorem rrExec_sinv (evs : List REvent) : SInv (rrExec evs) := by
  unfold rrExec
  have : ∀ (s : RR), SInv s → SInv (evs.foldl rrApply s) := by
    induction evs with
    | nil => intro s h; exact h
    | cons e rest ih =>
      intro s h
      refine ih _ ?_
      cases e with
      | enqueue sock =>
        show SInv (if s.closed then s else { s with queue := s.queue ++ [sock], handleReg := false })
        split
        · exact h
        · exact ⟨h.quiet, h.nodup, h.alive, h.bound, h.fresh⟩
      | close => exact ⟨h.quiet, h.nodup, h.alive, h.bound, h.fresh⟩
      | poll fuel so ko => exact rrPoll_sinv fuel _ ⟨h.quiet, h.nodup, h.alive, h.bound, h.fresh⟩
  exact this {} sinv_init

/-- whatever follows the eviction of requestor `k`'s sink in the trace, none of it asks anything of that sink -/
theorem nothing_after_the_eviction (evs : List REvent) (pre post : List REv) (k : Nat)
    (h : (rrExec evs).trace = pre ++ REv.c (.dropped k) :: post) : ∀ e ∈ post, ∀ b, vc e ≠ some (k, b) := by
  have hq := (rrExec_sinv evs).quiet
  rw [h] at hq
  have h2 := ((quietG_append vc pre _ []).1 hq).2
  simp only [QuietG, vc, sid] at h2
  exact quietG_no_touch vc post _ h2.2 k (List.mem_cons_self ..)

end Selium.Route
