import SeliumModel.Server.System
import SeliumModel.Props.C11
/-
The whole server is the product of its topics' routers.

* `sys_ps_is_router` / `sys_rr_is_router`: inside any history of the whole server, the state of topic `n`'s router
  is exactly what the single-router model (`Route.exec` / `Route.rrExec`) computes from the events addressed to `n`
  — so every theorem about one router's histories (C01, C02, C08, C09, C10, C16) holds for every topic of a
  running server.
* `sys_topic_independent`: that state, and the topic's entry in the registry, are the same as if the events that
  do not mention `n` (streams opened for other names, polls of other topics) had never happened: no traffic, no
  registration, no failure and no stall on another name can change anything a peer of `n` observes.
-/
namespace Selium.Server
open Selium Selium.Route Selium.Sink Selium.Topic Selium.Gen.Server

theorem lookup_append_self (r : Registry) (n : Name) (p : Pattern) (h : r.lookup n = none) :
    Registry.lookup (r ++ [(n, p)]) n = some p := by
  unfold Registry.lookup at h ⊢
  have : r.find? (·.1 = n) = none := by
    cases hf : r.find? (·.1 = n) with
    | none => rfl
    | some x => simp [hf] at h
  simp [List.find?_append, this]

/-! ### each topic's state is its own router's history -/

theorem sys_ps_is_router_from (n : Name) (es : List SEvent) : ∀ s : Srv,
    (es.foldl sysApply s).ps n = (psEvents n s.registry es).foldl applyEvent (s.ps n) := by
  induction es with
  | nil => intro s; rfl
  | cons e es ih =>
    intro s
    simp only [List.foldl_cons]
    rw [ih]
    cases e with
    | openStream first sink stream =>
      simp only [psEvents, List.foldl_append]
      cases henq : (handleStream s.registry first).enqueued with
      | none => simp [sysApply, henq]
      | some mr =>
        obtain ⟨m, role⟩ := mr
        cases hp : role.pattern with
        | pubsub =>
          by_cases hmn : m = n
          · subst hmn; simp [sysApply, henq, hp, upd]
          · simp [sysApply, henq, hp, upd, hmn, Ne.symm hmn]
        | reqrep => simp [sysApply, henq, hp]
    | pollPubsub m fuel oracle =>
      simp only [psEvents, List.foldl_append]
      by_cases hl : s.registry.lookup m = some .pubsub
      · by_cases hmn : m = n
        · subst hmn; simp [sysApply, hl, upd]
        · simp [sysApply, hl, upd, hmn, Ne.symm hmn]
      · simp [sysApply, hl]
    | pollReqrep m fuel so ko =>
      simp only [psEvents]
      by_cases hl : s.registry.lookup m = some .reqrep <;> simp [sysApply, hl]
    | shutdown =>
      simp only [psEvents, List.foldl_append]
      by_cases hl : s.registry.lookup n = some .pubsub <;> simp [sysApply, hl]

theorem sys_rr_is_router_from (n : Name) (es : List SEvent) : ∀ s : Srv,
    (es.foldl sysApply s).rr n = (rrEvents n s.registry es).foldl rrApply (s.rr n) := by
  induction es with
  | nil => intro s; rfl
  | cons e es ih =>
    intro s
    simp only [List.foldl_cons]
    rw [ih]
    cases e with
    | openStream first sink stream =>
      simp only [rrEvents, List.foldl_append]
      cases henq : (handleStream s.registry first).enqueued with
      | none => simp [sysApply, henq]
      | some mr =>
        obtain ⟨m, role⟩ := mr
        cases hp : role.pattern with
        | reqrep =>
          by_cases hmn : m = n
          · subst hmn; simp [sysApply, henq, hp, upd]
          · simp [sysApply, henq, hp, upd, hmn, Ne.symm hmn]
        | pubsub => simp [sysApply, henq, hp]
    | pollReqrep m fuel so ko =>
      simp only [rrEvents, List.foldl_append]
      by_cases hl : s.registry.lookup m = some .reqrep
      · by_cases hmn : m = n
        · subst hmn; simp [sysApply, hl, upd]
        · simp [sysApply, hl, upd, hmn, Ne.symm hmn]
      · simp [sysApply, hl]
    | pollPubsub m fuel oracle =>
      simp only [rrEvents]
      by_cases hl : s.registry.lookup m = some .pubsub <;> simp [sysApply, hl]
    | shutdown =>
      simp only [rrEvents, List.foldl_append]
      by_cases hl : s.registry.lookup n = some .reqrep <;> simp [sysApply, hl]

/-- the pub/sub router of topic `n` inside the server = the router model run on `n`'s own events -/
theorem sys_ps_is_router (n : Name) (history : List SEvent) :
    (sysExec history).ps n = Route.exec (psEvents n [] history) := sys_ps_is_router_from n history {}

theorem sys_rr_is_router (n : Name) (history : List SEvent) :
    (sysExec history).rr n = Route.rrExec (rrEvents n [] history) := sys_rr_is_router_from n history {}

/-! ### non-interference between names -/

/-- two server states look the same from topic `n` -/
def Agree (n : Name) (s t : Srv) : Prop :=
  s.registry.lookup n = t.registry.lookup n ∧ s.ps n = t.ps n ∧ s.rr n = t.rr n

theorem Agree.refl (n : Name) (s : Srv) : Agree n s s := ⟨rfl, rfl, rfl⟩

/-- what `handle_stream` does with a registration for `n` depends on `n`'s own entry only -/
theorem handleStream_local (r r' : Registry) (role : Role) (n : Name) (h : r.lookup n = r'.lookup n) :
    (handleStream r (some (.register role n))).enqueued = (handleStream r' (some (.register role n))).enqueued ∧
    (handleStream r (some (.register role n))).answer = (handleStream r' (some (.register role n))).answer ∧
    (handleStream r (some (.register role n))).registry.lookup n =
      (handleStream r' (some (.register role n))).registry.lookup n := by
  unfold handleStream
  simp only
  by_cases hv : (!isValid n.ns n.tp) = true
  · simp [hv]; exact h
  · simp only [hv, Bool.false_eq_true, if_false]
    rw [h]
    cases hl' : r'.lookup n with
    | none =>
      have hl : r.lookup n = none := by rw [h]; exact hl'
      simp only
      refine ⟨by simp, by simp, ?_⟩
      rw [lookup_append_self r n _ hl, lookup_append_self r' n _ hl']
    | some p =>
      have hl : r.lookup n = some p := by rw [h]; exact hl'
      simp only
      by_cases hp : p = role.pattern
      · simp [hp, hl', hl]
      · by_cases hcp : checksPattern = true
        · simp [hp, hcp, hl', hl]
        · simp [hp, hcp, hl', hl]

theorem agree_step_mentions (n : Name) (s t : Srv) (e : SEvent) (hm : mentions n e = true) (h : Agree n s t) :
    Agree n (sysApply s e) (sysApply t e) := by
  obtain ⟨h1, h2, h3⟩ := h
  cases e with
  | openStream first sink stream =>
    cases first with
    | none => simp [mentions] at hm
    | some fr =>
      cases fr with
      | other => simp [mentions] at hm
      | register role m =>
        have hmn : m = n := by simpa [mentions] using hm
        subst hmn
        obtain ⟨he, _, hr⟩ := handleStream_local s.registry t.registry role m h1
        simp only [sysApply]
        rw [← he]
        cases henq : (handleStream s.registry (some (.register role m))).enqueued with
        | none => exact ⟨hr, h2, h3⟩
        | some mr =>
          obtain ⟨m', role'⟩ := mr
          unfold Agree
          cases hp : role'.pattern with
          | pubsub =>
            simp only [hp]
            refine ⟨hr, ?_, h3⟩
            simp only [upd]
            by_cases hmm : m = m'
            · subst hmm; simp [h2]
            · simp [hmm, h2]
          | reqrep =>
            simp only [hp]
            refine ⟨hr, h2, ?_⟩
            simp only [upd]
            by_cases hmm : m = m'
            · subst hmm; simp [h3]
            · simp [hmm, h3]
  | pollPubsub m fuel oracle =>
    have hmn : m = n := by simpa [mentions] using hm
    subst hmn
    simp only [sysApply]
    rw [← h1]
    by_cases hl : s.registry.lookup m = some .pubsub
    · simp only [hl, if_true]; exact ⟨h1, by simp [upd, h2], h3⟩
    · simp only [hl, if_false]; exact ⟨h1, h2, h3⟩
  | pollReqrep m fuel so ko =>
    have hmn : m = n := by simpa [mentions] using hm
    subst hmn
    simp only [sysApply]
    rw [← h1]
    by_cases hl : s.registry.lookup m = some .reqrep
    · simp only [hl, if_true]; exact ⟨h1, h2, by simp [upd, h3]⟩
    · simp only [hl, if_false]; exact ⟨h1, h2, h3⟩
  | shutdown =>
    simp only [sysApply]
    exact ⟨h1, by simp only; rw [h1, h2], by simp only; rw [h1, h3]⟩

theorem agree_step_other (n : Name) (s : Srv) (e : SEvent) (hm : mentions n e = false) :
    Agree n (sysApply s e) s := by
  cases e with
  | openStream first sink stream =>
    have hiso := c11_registry_isolation s.registry first n (by
      intro role hf; subst hf; simp [mentions] at hm)
    simp only [sysApply]
    cases henq : (handleStream s.registry first).enqueued with
    | none => exact ⟨hiso.1, rfl, rfl⟩
    | some mr =>
      obtain ⟨m, role⟩ := mr
      have hne : m ≠ n := by
        intro heq; subst heq; exact hiso.2 role henq
      unfold Agree
      cases hp : role.pattern with
      | pubsub => simp only [hp]; exact ⟨hiso.1, by simp [upd, Ne.symm hne], trivial⟩
      | reqrep => simp only [hp]; exact ⟨hiso.1, trivial, by simp [upd, Ne.symm hne]⟩
  | pollPubsub m fuel oracle =>
    have hne : m ≠ n := by simpa [mentions] using hm
    simp only [sysApply]
    by_cases hl : s.registry.lookup m = some .pubsub
    · simp only [hl, if_true]; exact ⟨rfl, by simp [upd, Ne.symm hne], rfl⟩
    · simp only [hl, if_false]; exact Agree.refl n s
  | pollReqrep m fuel so ko =>
    have hne : m ≠ n := by simpa [mentions] using hm
    simp only [sysApply]
    by_cases hl : s.registry.lookup m = some .reqrep
    · simp only [hl, if_true]; exact ⟨rfl, rfl, by simp [upd, Ne.symm hne]⟩
    · simp only [hl, if_false]; exact Agree.refl n s
  | shutdown => simp [mentions] at hm

theorem agree_trans {n : Name} {a b c : Srv} (h1 : Agree n a b) (h2 : Agree n b c) : Agree n a c :=
  ⟨h1.1.trans h2.1, h1.2.1.trans h2.2.1, h1.2.2.trans h2.2.2⟩

theorem agree_fold (n : Name) (es : List SEvent) : ∀ s t : Srv, Agree n s t →
    Agree n (es.foldl sysApply s) ((es.filter (mentions n)).foldl sysApply t) := by
  induction es with
  | nil => intro s t h; exact h
  | cons e es ih =>
    intro s t h
    simp only [List.foldl_cons, List.filter_cons]
    by_cases hm : mentions n e = true
    · simp only [hm, if_true, List.foldl_cons]
      exact ih _ _ (agree_step_mentions n s t e hm h)
    · have hm' : mentions n e = false := by simpa using hm
      simp only [hm', Bool.false_eq_true, if_false]
      exact ih _ _ (agree_trans (agree_step_other n s e hm') h)

/-- Non-interference. Everything about topic `n` — whether it exists and in which messaging pattern, and the whole
    state of its router (hence every frame any of its subscribers, requestors or repliers is handed) — is the
    same as in the history from which every event that does not mention `n` has been deleted. -/
theorem sys_topic_independent (n : Name) (history : List SEvent) :
    (sysExec history).registry.lookup n = (sysExec (history.filter (mentions n))).registry.lookup n ∧
    (sysExec history).ps n = (sysExec (history.filter (mentions n))).ps n ∧
    (sysExec history).rr n = (sysExec (history.filter (mentions n))).rr n :=
  agree_fold n history {} {} (Agree.refl n {})

theorem sysExec_snoc (history : List SEvent) (e : SEvent) : sysExec (history ++ [e]) = sysApply (sysExec history) e := by
  simp [sysExec, List.foldl_append]


end Selium.Server
