import SeliumModel.Lemmas.ReqRep

namespace Selium.Route
open Selium.Sink

/-! ## Replies: each to its own requestor, once, none lost (C02, second and third sentences) -/

/-- the frame handed to requestor `id` by a routing step, if any -/
def deliveredTo (id : Nat) (x : RFrame × Routed) : Option RFrame :=
  match x.2 with
  | .delivered cid g => if cid = id then some g else none
  | _ => none

structure RepInv (s : RR) : Prop where
  /-- every reply taken from a replier has been dealt with, in order, or is the one buffered: none is dropped
      or overwritten -/
  replies : s.routed.map (·.1) ++ s.bufRep.toList = s.repTaken
  nodup : (s.sinks.map (·.id)).Nodup
  /-- what a connected requestor's sink was handed is exactly the replies routed to its id, in order -/
  sinks : ∀ k ∈ s.sinks, k.id < s.nextId ∧ k.got = s.routed.filterMap (deliveredTo k.id)
  fresh : ∀ x ∈ s.routed, ∀ cid g, x.2 = .delivered cid g → cid < s.nextId

theorem repInv_of_eq {s t : RR} (h : RepInv s) (h1 : t.routed = s.routed) (h2 : t.bufRep = s.bufRep)
    (h3 : t.repTaken = s.repTaken) (h4 : t.sinks = s.sinks) (h5 : t.nextId = s.nextId) : RepInv t := by
  constructor
  · rw [h1, h2, h3]; exact h.replies
  · rw [h4]; exact h.nodup
  · rw [h4, h5, h1]; exact h.sinks
  · rw [h1, h5]; exact h.fresh

/-- a `Router` poll operation keeps the invariant: survivors keep id and what they got -/
theorem repInv_pick (ans : Child RFrame → Ans) (step : Child RFrame → Child RFrame) (ev : Nat → Ans → Ev RFrame)
    (hstep : ∀ c, (step c).id = c.id ∧ (step c).got = c.got) (s t : RR) (h : RepInv s)
    (h1 : t.routed = s.routed) (h2 : t.bufRep = s.bufRep) (h3 : t.repTaken = s.repTaken)
    (h4 : t.sinks = (pickLoop ans step ev s.ko [] s.sinks).2.1) (h5 : t.nextId = s.nextId) : RepInv t := by
  constructor
  · rw [h1, h2, h3]; exact h.replies
  · rw [h4]; exact pickLoop_nodup ans step ev (fun c => (hstep c).1) s.ko s.sinks h.nodup
  · rw [h4, h5, h1]
    intro k hk
    rcases pickLoop_mem ans step ev s.ko [] s.sinks k hk with h0 | ⟨c, hc, hk' | ⟨hk', _⟩⟩
    · simp at h0
    · subst hk'; exact h.sinks k hc
    · subst hk'; rw [(hstep c).1, (hstep c).2]; exact h.sinks c hc
  · rw [h1, h5]; exact h.fresh

theorem flushRouter_rep (s : RR) (h : RepInv s) : RepInv (flushRouter s).2 :=
  repInv_pick Child.flushAns Child.afterFlush Ev.flush (fun c => ⟨rfl, rfl⟩) s _ h rfl rfl rfl rfl rfl

theorem partA_rep (s : RR) (h : RepInv s) : RepInv (partA s).state := by
  unfold partA
  split
  · split
    · exact repInv_of_eq h rfl rfl rfl rfl rfl
    · exact repInv_of_eq h rfl rfl rfl rfl rfl
    · split <;> exact repInv_of_eq h rfl rfl rfl rfl rfl
  · exact h

theorem partB_rep (s : RR) (h : RepInv s) : RepInv (partB s).state := by
  unfold partB
  split
  · exact h
  · split
    · split
      · exact repInv_of_eq h rfl rfl rfl rfl rfl
      · exact repInv_of_eq h rfl rfl rfl rfl rfl
      · split <;> exact repInv_of_eq h rfl rfl rfl rfl rfl
    · split <;> exact repInv_of_eq h rfl rfl rfl rfl rfl

theorem adoptSock_rep (s : RR) (sock : RSock) (q : List RSock) (h : RepInv s) : RepInv (adoptSock s sock q) := by
  unfold adoptSock
  cases sock with
  | server sink script => cases s.server <;> exact repInv_of_eq h rfl rfl rfl rfl rfl
  | client sink script =>
    constructor
    · exact h.replies
    · simp only [List.map_append, List.map_cons, List.map_nil]
      rw [List.nodup_append]
      refine ⟨h.nodup, by simp, ?_⟩
      intro a ha b hb
      simp only [List.mem_map] at ha
      obtain ⟨k, hk, rfl⟩ := ha
      simp only [List.mem_singleton] at hb
      have := (h.sinks k hk).1
      omega
    · intro k hk
      simp only [List.mem_append, List.mem_singleton] at hk
      rcases hk with hk | rfl
      · exact ⟨Nat.lt_succ_of_lt (h.sinks k hk).1, (h.sinks k hk).2⟩
      · refine ⟨Nat.lt_succ_self _, ?_⟩
        simp only
        symm
        rw [List.filterMap_eq_nil_iff]
        intro x hx
        unfold deliveredTo
        cases hr : x.2 with
        | delivered cid g =>
          have := h.fresh x hx cid g hr
          simp; omega
        | refused cid g => rfl
        | discarded w => rfl
    · intro x hx cid g hr
      exact Nat.lt_succ_of_lt (h.fresh x hx cid g hr)

theorem partH_rep (s : RR) (h : RepInv s) : RepInv (partH s).state := by
  unfold partH
  split
  · exact adoptSock_rep s _ _ h
  · split
    · split <;> exact flushRouter_rep s h
    · split <;> exact repInv_of_eq h rfl rfl rfl rfl rfl

theorem partD_rep (s : RR) (h : RepInv s) : RepInv (partD s).state := by
  unfold partD
  split
  · rename_i r hs hb
    split
    · -- a reply is taken: only because nothing was buffered
      rename_i f q _
      constructor
      · have := h.replies
        simp only [hb, Option.toList, List.append_nil] at this
        simp [Flow.state, log, this]
      · exact h.nodup
      · exact h.sinks
      · exact h.fresh
    · exact repInv_of_eq h rfl rfl rfl rfl rfl
    · exact repInv_of_eq h rfl rfl rfl rfl rfl
    · split
      · exact repInv_of_eq h rfl rfl rfl rfl rfl
      · split
        · exact flushRouter_rep _ (repInv_of_eq h rfl rfl rfl rfl rfl)
        · exact repInv_of_eq (flushRouter_rep _ (repInv_of_eq h rfl rfl rfl rfl rfl)) rfl rfl rfl rfl rfl
  · exact h

theorem filterMap_deliveredTo_append (id : Nat) (l : List (RFrame × Routed)) (x : RFrame × Routed) :
    (l ++ [x]).filterMap (deliveredTo id) = l.filterMap (deliveredTo id) ++ (deliveredTo id x).toList := by
  rw [List.filterMap_append]
  cases h : deliveredTo id x <;> simp [List.filterMap_cons, h]

theorem partE_rep (s : RR) (h : RepInv s) : RepInv (partE s).state := by
  unfold partE
  split
  · exact h
  · rename_i f hf
    have h1 : RepInv { s with sinks := (routerReady s.ko s.sinks).2.1 } :=
      repInv_pick Child.readyAns Child.afterReady Ev.ready (fun c => ⟨rfl, rfl⟩) s _ h rfl rfl rfl rfl rfl
    split
    · exact repInv_of_eq h1 rfl rfl rfl rfl rfl
    · -- the reply is routed
      generalize hes : (routerReady s.ko s.sinks).2.1 = es at h1
      constructor
      · have := h.replies
        simp only [hf, Option.toList] at this
        simp [Flow.state, log, ← this]
      · -- ids stay unique
        simp only [Flow.state, log]
        cases hr : (routerSend f es).1 with
        | delivered cid g =>
          obtain ⟨_, _, _, _, _, _, _, hmap⟩ := routerSend_delivered f es cid g hr
          rw [hmap, List.map_map]
          have : ((fun x : Child RFrame => x.id) ∘ fun d => if d.id = cid then d.afterSend g else d) = fun x => x.id := by
            funext d; simp only [Function.comp]; split <;> rfl
          rw [this]; exact h1.nodup
        | refused cid g =>
          rw [routerSend_refused f es cid g hr]
          exact List.Nodup.sublist (List.Sublist.map _ List.filter_sublist) h1.nodup
        | discarded w =>
          rw [(routerSend_discarded f es w hr).1]; exact h1.nodup
      · simp only [Flow.state, log]
        intro k hk
        cases hr : (routerSend f es).1 with
        | delivered cid g =>
          obtain ⟨_, _, _, _, _, _, _, hmap⟩ := routerSend_delivered f es cid g hr
          rw [hmap] at hk
          simp only [List.mem_map] at hk
          obtain ⟨d, hd, rfl⟩ := hk
          have hd' := h1.sinks d hd
          rw [filterMap_deliveredTo_append]
          by_cases hid : d.id = cid
          · -- the addressee: it is the entry `routerSend` looked up, whose sink accepted
            simp only [hid, if_true]
            refine ⟨by simpa [Child.afterSend, hid] using hd'.1, ?_⟩
            have hok : d.sendOk = true := by
              -- `routerSend` delivered, so the entry it found accepts; ids are unique, so `d` is that entry
              unfold routerSend at hr
              split at hr <;> try simp at hr
              split at hr <;> try simp at hr
              split at hr <;> try simp at hr
              split at hr <;> try simp at hr
              rename_i c hc
              split at hr
              · rename_i hok
                simp only [Routed.delivered.injEq] at hr
                have hcm : c ∈ es := List.mem_of_find?_eq_some hc
                have hcid : c.id = cid := by
                  have := List.find?_some hc; simp at this; rw [this]; exact hr.1
                have : d = c := eq_of_mem_of_id_eq es h1.nodup d c hd hcm (by rw [hid, hcid])
                rw [this]; exact hok
              · simp at hr
            simp [Child.afterSend, hok, deliveredTo, hr, hid, hd'.2]
          · simp only [hid, if_false]
            refine ⟨hd'.1, ?_⟩
            have : deliveredTo d.id (f, Routed.delivered cid g) = none := by
              simp [deliveredTo]; exact fun h => hid h.symm
            simp [this, hd'.2]
        | refused cid g =>
          rw [routerSend_refused f es cid g hr] at hk
          have hd' := h1.sinks k (List.mem_filter.mp hk).1
          rw [filterMap_deliveredTo_append]
          simp [deliveredTo, hd'.1, hd'.2]
        | discarded w =>
          rw [(routerSend_discarded f es w hr).1] at hk
          have hd' := h1.sinks k hk
          rw [filterMap_deliveredTo_append]
          simp [deliveredTo, hd'.1, hd'.2]
      · simp only [Flow.state, log]
        intro x hx cid g hr
        simp only [List.mem_append, List.mem_singleton] at hx
        rcases hx with hx | rfl
        · exact h1.fresh x hx cid g hr
        · -- a reply is only ever delivered to an existing entry
          simp only at hr
          unfold routerSend at hr
          split at hr <;> try simp at hr
          split at hr <;> try simp at hr
          split at hr <;> try simp at hr
          split at hr <;> try simp at hr
          rename_i c hc
          split at hr
          · simp only [Routed.delivered.injEq] at hr
            have hcm : c ∈ es := List.mem_of_find?_eq_some hc
            have hcid : c.id = cid := by
              have := List.find?_some hc; simp at this; rw [this]; exact hr.1
            rw [← hcid]; exact (h1.sinks c hcm).1
          · simp at hr

theorem flushReplier_rep (s : RR) (r : Replier) (after : RR → Flow) (h : RepInv s)
    (hafter : ∀ t, RepInv t → RepInv (after t).state) : RepInv (flushReplier s r after).state := by
  unfold flushReplier
  split
  · exact repInv_of_eq h rfl rfl rfl rfl rfl
  · exact hafter _ (repInv_of_eq h rfl rfl rfl rfl rfl)
  · exact hafter _ (repInv_of_eq h rfl rfl rfl rfl rfl)

theorem partF_rep (s : RR) (h : RepInv s) : RepInv (partF s).state := by
  unfold partF
  split
  · exact repInv_of_eq h rfl rfl rfl rfl rfl
  · exact repInv_of_eq h rfl rfl rfl rfl rfl
  · exact repInv_of_eq h rfl rfl rfl rfl rfl
  · exact repInv_of_eq h rfl rfl rfl rfl rfl
  · rename_i es evs _
    have hf := flushRouter_rep (log { s with streams := es, so := s.so.drop evs.length } (evs.map REv.c))
      (repInv_of_eq h rfl rfl rfl rfl rfl)
    split
    · exact hf
    · split
      · apply flushReplier_rep _ _ _ hf
        intro t ht; exact repInv_of_eq ht rfl rfl rfl rfl rfl
      · exact repInv_of_eq hf rfl rfl rfl rfl rfl

theorem partG_rep (s : RR) (h : RepInv s) : RepInv (partG s).state := by
  unfold partG
  split
  · split
    · exact flushRouter_rep s h
    · split
      · exact flushReplier_rep _ _ _ (flushRouter_rep s h) (fun t ht => ht)
      · exact flushRouter_rep s h
  · exact h

theorem iter_rep (s : RR) (h : RepInv s) : RepInv (iter s).state := by
  unfold iter
  apply andThen_inv RepInv _ _ _ partG_rep
  apply andThen_inv RepInv _ _ _ partF_rep
  apply andThen_inv RepInv _ _ _ partE_rep
  apply andThen_inv RepInv _ _ _ partD_rep
  apply andThen_inv RepInv _ _ _ partH_rep
  apply andThen_inv RepInv _ _ _ partB_rep
  exact partA_rep _ (repInv_of_eq h rfl rfl rfl rfl rfl)

theorem rrPoll_rep (fuel : Nat) (s : RR) (h : RepInv s) : RepInv (rrPoll fuel s).2 :=
  rrPoll_inv RepInv iter_rep fuel s h

end Selium.Route
